#!/usr/bin/env python3
"""Unit tests of the Σ-polynomial normal form (soundness: unequal formulas must never compare equal)."""
import os, sys
sys.path.insert(0, os.path.dirname(os.path.dirname(os.path.abspath(__file__))))
from mtsa.kern.expr import Expr, fresh, equal_modulo_order, sym
import sympy as sp

L = Expr.leaf
fails = []
def check(name, got, want):
    if bool(got) != want:
        fails.append(name)
    print("%-70s %s" % (name, "ok" if bool(got) == want else "FAIL"))

def eq(a, b, classes=None, symmetric=()):
    return equal_modulo_order(a, b, classes or {}, set(symmetric))[0]

# 1. bound variables of nested sums never collide with the enclosing ones
i, j = fresh("i"), fresh("j")
a = (L("M", i, j) * L("M", i, j)).sum_over(i, "n").powf(sp.Rational(1, 2)).sum_over(j, "n")
i2, j2 = fresh("i"), fresh("j")
b = (L("M", j2, i2) * L("M", j2, i2)).sum_over(i2, "n").powf(sp.Rational(1, 2)).sum_over(j2, "n")
check("column norms != row norms (nested binder capture)", eq(a, b), False)
check("column norms == column norms (renaming)", eq(a, (L("M", i2, j2) * L("M", i2, j2)).sum_over(i2, "n").powf(sp.Rational(1, 2)).sum_over(j2, "n")), True)
# 2. triangular vs full sums with symmetric / non-symmetric leaves
def dot(p, q):
    c = fresh("c"); return (L("u", p, c) * L("u", q, c)).sum_over(c, "D")
l, p_, q_, r_, s_ = (fresh("l") for _ in range(5))
tri = (dot(l, l) * L("A", l, l)).sum_over(l, "L") + (Expr.const(2) * dot(p_, q_) * L("A", p_, q_)).sum_over(q_, "L", [("<", p_, q_)]).sum_over(p_, "L")
full = (dot(r_, s_) * L("A", r_, s_)).sum_over(r_, "L").sum_over(s_, "L")
check("diag + 2*upper == full square for symmetric A", eq(tri, full, symmetric={"A"}), True)
check("diag + 2*upper != full square for general A", eq(tri, full), False)
# 3. transposed index is a different atom unless declared symmetric
check("Q[l,k] != Q[k,l]", eq(L("Q", "l", "k"), L("Q", "k", "l"), {"l": "L", "k": "L"}), False)
check("S[l,k] == S[k,l] when symmetric", eq(L("S", "l", "k"), L("S", "k", "l"), {"l": "L", "k": "L"}, {"S"}), True)
# 4. region split: mirrored write
def S(a_, b_):
    e = fresh("e"); return (L("x", e) * L("s", e, a_) * L("s", e, b_)).sum_over(e, "E")
code = S("a", "a").guarded([("=", "a", "b")]) + S("a", "b").guarded([("<", "a", "b")]) + S("b", "a").guarded([("<", "b", "a")])
check("three regions == plain formula", eq(code, S("a", "b"), {"a": "L", "b": "L"}), True)
check("missing lower region detected", eq(S("a", "a").guarded([("=", "a", "b")]) + S("a", "b").guarded([("<", "a", "b")]), S("a", "b"), {"a": "L", "b": "L"}), False)
# 5. exponents
D, Ls, dod = sym("D"), sym("L"), sym("dod")
ut, vt = Expr.symbol("ut"), Expr.symbol("vt")
s1 = (ut.powf(-D / 2) * vt.powf(-dod)).powf(1 / (D / 2 * Ls + dod))
check("rescaling identity reduces to 1", (s1.powf(Ls * D / 2 + dod) * ut.powf(D / 2) * vt.powf(dod)).simplified() == Expr.const(1), True)
s2 = (ut.powf(-D / 2) * vt.powf(-dod)).powf(1 / (D / 2 + dod))
check("identity fails without the loop number", (s2.powf(Ls * D / 2 + dod) * ut.powf(D / 2) * vt.powf(dod)).simplified() == Expr.const(1), False)
# 6. a sum is not a monomial: sqrt does not distribute
check("sqrt(a+b) != sqrt(a)+sqrt(b)", eq((Expr.symbol("a") + Expr.symbol("b")).powf(sp.Rational(1, 2)), Expr.symbol("a").powf(sp.Rational(1, 2)) + Expr.symbol("b").powf(sp.Rational(1, 2))), False)
# 7. unused binder multiplies by the extent
k = fresh("k")
check("Σ_k c == n·c", eq(Expr.symbol("c").sum_over(k, "n"), Expr.symbol("c") * Expr.symbol("n")), True)
# 6. the interpreter: a conditional accumulation inside a summarised loop stays conditional (fixtures::cond_sum)
try:
    from mtsa.fixtures import fixture_facts
    from mtsa.kern.interp import Interp, Arr, Num
    _f = fixture_facts()
    _xs = Arr(("N",), lambda i_: Num(Expr.leaf("x", i_)), name="xs")
    _ms = Arr(("N",), lambda i_: Num(Expr.leaf("m", i_)), name="ms")
    _p = [k_ for k_ in _f.thir if k_.endswith("cond_sum")][0]
    _r = Interp(_f).run_fn(_p, [_xs, _ms])
    _i = fresh("i")
    check("conditional accumulation is not the unconditional sum", _r.expr == Expr.leaf("x", _i).sum_over(_i, "N"), False)
    check("conditional accumulation keeps its condition", "ite(" in _r.expr.key() and "m[" in _r.expr.key(), True)
except Exception as _e:      # fail closed
    check("conditional accumulation (engine self-test ran): %s" % _e, False, True)
print("%d failures" % len(fails))
sys.exit(1 if fails else 0)
