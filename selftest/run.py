#!/usr/bin/env python3
"""Checker self-test: apply one-edit mutations to a scratch copy of /repo's current tree and require the named
rule to fire (M) or every listed check to stay silent (N).  Source analysis only: no momtrop code is run.
usage: selftest/run.py [-k substring] [--props C16,C12]"""
import argparse, json, os, re, shutil, subprocess, sys, tempfile
HERE = os.path.dirname(os.path.abspath(__file__))
VERIF = os.path.dirname(HERE)
sys.path.insert(0, HERE)
from catalogue import MUTATIONS

def sh(cmd, **kw):
    return subprocess.run(cmd, shell=True, capture_output=True, text=True, **kw)

def main():
    ap = argparse.ArgumentParser()
    ap.add_argument("-k", default="")
    ap.add_argument("--props", default="")
    ap.add_argument("--repo", default="/repo")
    ap.add_argument("-j", type=int, default=6)
    a = ap.parse_args()
    props = set(a.props.split(",")) if a.props else None
    results = []
    if not a.k and not props:
        r = subprocess.run(["python3-vt", os.path.join(HERE, "test_expr.py")], capture_output=True, text=True)
        print(r.stdout.strip().splitlines()[-1] if r.stdout else r.stderr)
        if r.returncode != 0:
            results.append(("algebra unit tests", "FAILED"))
    def one(m):
        if a.k and a.k not in m["name"]:
            return
        targets = m["expect"]  # {PID: "rule-id" | None (silent)}
        if props and not (set(targets) & props):
            return
        tmp = tempfile.mkdtemp(prefix="mtsa-selftest-")
        try:
            for f in ("src", "benches", "tests", "Cargo.toml", "Cargo.lock"):
                s = os.path.join(a.repo, f)
                (shutil.copytree if os.path.isdir(s) else shutil.copy)(s, os.path.join(tmp, f))
            ok_apply = True
            for ed in m["edits"]:
                if ed[0] == "re":
                    # global regular-expression rename over all source files: ("re", pattern, replacement)
                    import glob
                    hits = 0
                    for p in glob.glob(os.path.join(tmp, "src", "*.rs")) + glob.glob(os.path.join(tmp, "tests", "*.rs")) + glob.glob(os.path.join(tmp, "benches", "*.rs")):
                        if len(ed) > 3 and not p.endswith(ed[3]):
                            continue
                        txt = open(p).read()
                        new_txt, n_ = re.subn(ed[1], ed[2], txt)
                        hits += n_
                        if n_:
                            open(p, "w").write(new_txt)
                    if hits == 0:
                        ok_apply = False
                        break
                    continue
                (fn, old, new) = ed
                p = os.path.join(tmp, fn)
                txt = open(p).read()
                if txt.count(old) != 1:
                    ok_apply = False
                    break
                open(p, "w").write(txt.replace(old, new))
            if not ok_apply:
                results.append((m["name"], "SKIP (edit no longer applies)"))
                print("SKIP  %s" % m["name"]); return
            for pid, want in targets.items():
                if props and pid not in props:
                    continue
                env = dict(os.environ, MTSA_REPO=tmp, MTSA_EVIDENCE_DIR=os.path.join(tmp, "evidence"))
                r = subprocess.run([os.path.join(VERIF, "bin/check"), pid], capture_output=True, text=True, env=env)
                out = r.stdout + r.stderr
                fired = [l.strip() for l in out.splitlines() if l.strip().startswith("violation rule=")]
                if "fact extraction failed" in out:
                    verdict = "BROKEN-MUTANT (does not compile)"
                elif want is None:
                    verdict = "ok (silent)" if r.returncode == 0 else "FALSE-ALARM: " + "; ".join(fired)[:300]
                else:
                    hit = [l for l in fired if ("rule=%s " % want) in l or want in l]
                    verdict = "ok (fired %s)" % want if (r.returncode == 1 and hit) else ("MISSED (exit %d; fired: %s)" % (r.returncode, "; ".join(fired)[:200]))
                results.append((m["name"] + " / " + pid, verdict))
                print("%-70s %s" % (m["name"] + " / " + pid, verdict))
        finally:
            shutil.rmtree(tmp, ignore_errors=True)
    from concurrent.futures import ThreadPoolExecutor
    with ThreadPoolExecutor(a.j) as ex:
        list(ex.map(one, MUTATIONS))
    bad = [r for r in results if not r[1].startswith("ok") and not r[1].startswith("SKIP")]
    print("\n%d cases, %d not ok" % (len(results), len(bad)))
    sys.exit(1 if bad else 0)

if __name__ == "__main__":
    main()
