"""Mutation catalogue for the checker self-test. M rows: expect a rule id; N rows: expect None (silent)."""
M = []
def mut(name, edits, **expect):
    M.append({"name": name, "edits": edits, "expect": expect})

PRE = "src/preprocessing.rs"; SAM = "src/sampling.rs"; MAT = "src/matrix.rs"; GAM = "src/gamma.rs"; LIB = "src/lib.rs"; VEC = "src/vector.rs"; FLO = "src/float.rs"; RNG = "src/mimic_rng.rs"

# ---- C16 ----
mut("C16 revert ZeroDet fix", [(MAT, "if determinant == const_builder.zero() {", "if det_q == const_builder.zero() {")], C16="C16-a")
mut("C16 revert stability fix", [(MAT, "if !(error <= error.from_f64(tolerance)) {", "if error > error.from_f64(tolerance) {")], C16="C16-b")
mut("C16 skip stability test when dim==1", [(MAT, "if let Some(tolerance) = settings.matrix_stability_test {", "if let (Some(tolerance), true) = (settings.matrix_stability_test, self.dim > 1) {")], C16="C16-b")
mut("C16 sample passes default settings", [(SAM, "l_matrix.decompose_for_tropical(settings)", "l_matrix.decompose_for_tropical(&TropicalSamplingSettings::default())")], C16="C16-c")
mut("C16 tested product uses q_transposed_inverse", [(MAT, "let approx_idendity = &inverse * self;", "let approx_idendity = &q_transposed_inverse * self;")], C16="C16-b")
mut("C16 N: le with swapped operands (tol >= error)", [(MAT, "if !(error <= error.from_f64(tolerance)) {", "if !(error.from_f64(tolerance) >= error) {")], C16=None)
mut("C16 N: ne-form ZeroDet guard", [(MAT, "if determinant == const_builder.zero() {\n            return Err(MatrixError::ZeroDet);\n        }", "if determinant != const_builder.zero() {\n        } else {\n            return Err(MatrixError::ZeroDet);\n        }")], C16=None)
# ---- C12 ----
mut("C12 revert fix", [(GAM, "if !(res.is_finite() && res > 0.0) {", "if res.is_nan() {")], C12="C12-a")
mut("C12 only positivity (inf passes)", [(GAM, "if !(res.is_finite() && res > 0.0) {", "if !(res > 0.0) {")], C12="C12-a")
mut("C12 shape from smallest dod", [(SAM, "&const_builder.from_f64(tropical_subgraph_table.tropical_graph.dod),\n        mimic_rng", "&const_builder.from_f64(tropical_subgraph_table.get_smallest_dod()),\n        mimic_rng")], C12="C12-b")
mut("C12 N: equivalent guard form", [(GAM, "if !(res.is_finite() && res > 0.0) {\n        Err(GammaError {})\n    } else {\n        Ok(a.from_f64(res))\n    }", "if res.is_finite() && 0.0 < res {\n        Ok(a.from_f64(res))\n    } else {\n        Err(GammaError {})\n    }")], C12=None)
# ---- C06 ----
mut("C06 revert fix (drop fallback)", [(PRE, "        if uniform < &uniform.one() {\n            if let Some(last) = last_edge {\n                return last;\n            }\n        }\n", "")], C06="C06-a")
mut("C06 >= becomes >", [(PRE, "if &cum_sum >= uniform {", "if &cum_sum > uniform {")], C06="C06-b")
mut("C06 read in one-edge branch", [(SAM, "let graph_without_edge = graph.pop_edge(edge);\n            (edge, graph_without_edge)", "let graph_without_edge = graph.pop_edge(edge);\n            let _ = rng.get_random_number(None);\n            (edge, graph_without_edge)")], C06="C06-c")
mut("C06 reversed scan", [(PRE, "(0..self.num_edges).filter(|&i| self.has_edge(i))", "(0..self.num_edges).rev().filter(|&i| self.has_edge(i))")], C06="C06-b")
mut("C06 N: uniform <= cum_sum", [(PRE, "if &cum_sum >= uniform {", "if uniform <= &cum_sum {")], C06=None)
# ---- C18 ----
mut("C18 serde(skip) on cached_factor", [(PRE, "    pub cached_factor: f64,\n}", "    #[serde(skip)]\n    pub cached_factor: f64,\n}")], C18="C18-")
mut("C18 serde(default) on dimension", [(PRE, "    pub dimension: usize,\n    pub tropical_graph", "    #[serde(default)]\n    pub dimension: usize,\n    pub tropical_graph")], C18="C18-c")
mut("C18 skip_serializing_if", [(PRE, "    pub num_loops: usize,\n}", "    #[serde(skip_serializing_if = \"is_zero_usize\")]\n    pub num_loops: usize,\n}\nfn is_zero_usize(x: &usize) -> bool { *x == 0 }")], C18="C18-")
mut("C18 N: rename", [(PRE, "    pub table: Vec<TropicalSubgraphTableEntry>,", "    #[serde(rename = \"tbl\")]\n    pub table: Vec<TropicalSubgraphTableEntry>,")], C18=None)
mut("C18 rename only for serialize", [(PRE, "    pub table: Vec<TropicalSubgraphTableEntry>,", "    #[serde(rename(serialize = \"tbl\"))]\n    pub table: Vec<TropicalSubgraphTableEntry>,")], C18="C18-c")

# ---- C19 ----
mut("C19 sqrt via f64 in Cholesky", [(MAT, "let diagonal_entry = diagonal_entry_squared.sqrt();", "let diagonal_entry = diagonal_entry_squared.from_f64(diagonal_entry_squared.to_f64().sqrt());")], C19="C19-a")
mut("C19 PI via from_f64", [(SAM, "let theta = x1.from_isize(2) * x1.PI() * x2;", "let theta = x1.from_isize(2) * x1.from_f64(std::f64::consts::PI) * x2;")], C19="C19-c")
mut("C19 l21_norm accumulates in f64", [(MAT, "res += &vec_norm.sqrt();", "res = res.from_f64(res.to_f64() + vec_norm.to_f64().sqrt());")], C19="C19-a")
mut("C19 N: to_f64 under debug flag", [(SAM, "println!(\"lambda: {:?}\", lambda);", "println!(\"lambda: {:?} {}\", lambda, lambda.to_f64());")], C19=None)
# ---- C17 ----
mut("C17 atomic counter bumped in sample", [(SAM, "    let num_loops = tropical_subgraph_table.tropical_graph.num_loops;\n\n    let mut mimic_rng", "    static CALLS: std::sync::atomic::AtomicUsize = std::sync::atomic::AtomicUsize::new(0);\n    CALLS.fetch_add(1, std::sync::atomic::Ordering::Relaxed);\n    let num_loops = tropical_subgraph_table.tropical_graph.num_loops;\n\n    let mut mimic_rng")], C17="C17-")
mut("C17 Cell field in table", [(PRE, "    pub cached_factor: f64,\n}", "    pub cached_factor: f64,\n    pub hits: std::cell::Cell<usize>,\n}"), (PRE, "            cached_factor,\n            tropical_graph: tropical_graph.clone(),", "            cached_factor,\n            hits: Default::default(),\n            tropical_graph: tropical_graph.clone(),")], C17="C17-b")
mut("C17 metadata flag alters v", [(SAM, "    let v = v_polynomial;", "    let v = if settings.return_metadata { v_polynomial.clone() + const_builder.zero() * &lambda } else { v_polynomial };")], C17="C17-f")
mut("C17 debug flag skips stability test", [(MAT, "if let Some(tolerance) = settings.matrix_stability_test {", "if let (Some(tolerance), false) = (settings.matrix_stability_test, settings.print_debug_info) {")], C17="C17-f")
mut("C17 draw one extra number", [(LIB, ".take(num_vars)", ".take(num_vars + 1)")], C17="C17-g")
mut("C17 rng entry uses default settings", [(LIB, "            &x_space_point,\n            edge_data,\n            settings,", "            &x_space_point,\n            edge_data,\n            &TropicalSamplingSettings::default(),")], C17="C17-g")
mut("C17 weight sum in hash order", [(PRE, "        connected_components\n            .iter()\n            .map(|c| self.get_loop_number_of_connected_component(c))\n            .sum()", "        let mut h: HashSet<usize> = HashSet::default();\n        for &e in edges_in_subgraph { h.insert(e); }\n        let w: f64 = h.iter().map(|&i| self.topology[i].weight).sum();\n        connected_components\n            .iter()\n            .map(|c| self.get_loop_number_of_connected_component(c))\n            .sum::<usize>() + (w as usize) * 0")], C17="C17-e")
mut("C17 unguarded println in sample", [(SAM, "    let u_trop = permatuhedral_sample.u_trop;", "    println!(\"sampled\");\n    let u_trop = permatuhedral_sample.u_trop;")], C17="C17-d")
mut("C17 N: immutable static + debug println", [(SAM, "    let u_trop = permatuhedral_sample.u_trop;", "    static NAMES: [&str; 2] = [\"u\", \"v\"];\n    if settings.print_debug_info { println!(\"{}\", NAMES[0]); }\n    let u_trop = permatuhedral_sample.u_trop;")], C17=None)
mut("C17 N: String field in table", [(PRE, "    pub cached_factor: f64,\n}", "    pub cached_factor: f64,\n    pub label: String,\n}"), (PRE, "            cached_factor,\n            tropical_graph: tropical_graph.clone(),", "            cached_factor,\n            label: String::new(),\n            tropical_graph: tropical_graph.clone(),")], C17=None, C18=None)

# ---- C14 ----
mut("C14 lambda reuses a Feynman parameter", [(SAM, "        mimic_rng.get_random_number(Some(\"sample lambda\")),\n        50,", "        &permatuhedral_sample.x[0],\n        50,")], C14="C14-", C12="C12-b")
mut("C14 read value dropped in sector", [(SAM, "        let xi = rng.get_random_number(Some(\"sample xi\"));", "        let _skipped = rng.get_random_number(Some(\"skip\"));\n        let xi = rng.get_random_number(Some(\"sample xi\"));")], C14="C14-")
mut("C14 reader zero returns an element", [(RNG, "        self.cache[0].zero()", "        self.cache[0].clone()")], C14="C14-a")
mut("C14 counter advances by two", [(RNG, "        self.counter += 1;", "        self.counter += 2;")], C14="C14-b")
mut("C14 element after increment", [(RNG, "        let random_number = &self.cache[self.counter];\n        self.counter += 1;", "        self.counter += 1;\n        let random_number = &self.cache[self.counter];")], C14="C14-b")
mut("C14 gaussians scaled by a Feynman parameter", [(SAM, "    let q_vectors = sample_q_vectors(&mut mimic_rng, tropical_subgraph_table.dimension, num_loops);", "    let mut q_vectors = sample_q_vectors(&mut mimic_rng, tropical_subgraph_table.dimension, num_loops);\n    q_vectors[0] = &q_vectors[0] * &permatuhedral_sample.x[0];")], C14="C14-c")
mut("C14 gauss reads the slice directly", [(SAM, "    let q_vectors = sample_q_vectors(&mut mimic_rng, tropical_subgraph_table.dimension, num_loops);", "    let mut tail_rng = MimicRng::new(&x_space_point[x_space_point.len() - 2..]);\n    let q_vectors = sample_q_vectors(&mut tail_rng, tropical_subgraph_table.dimension, num_loops);")], C14="C14")
mut("C14 xi read even when graph is empty", [(SAM, "        graph = graph_without_edge;\n        if graph.is_empty() {\n            break;\n        }\n\n        let xi = rng.get_random_number(Some(\"sample xi\"));", "        graph = graph_without_edge;\n        let xi = rng.get_random_number(Some(\"sample xi\"));\n        if graph.is_empty() {\n            break;\n        }\n")], C14="C14-f")
mut("C14 N: rename locals and reorder lets", [(SAM, "    let u_vectors = compute_u_vectors(&permatuhedral_sample.x, loop_signature, &edge_shifts);", "    let uvs = compute_u_vectors(&permatuhedral_sample.x, loop_signature, &edge_shifts);\n    let u_vectors = uvs;")], C14=None, C17=None, C12=None, C16=None)

# ---- C05 ----
mut("C05 extra exemption loop_number > 0", [(PRE, "if generalized_dod <= 0.0 && !subgraph.is_empty() && subgraph != full_subgraph_id {", "if generalized_dod <= 0.0 && !subgraph.is_empty() && subgraph != full_subgraph_id && loop_number > 0 {")], C05="C05-a")
mut("C05 test on the unsubtracted value", [(PRE, "if generalized_dod <= 0.0 && !subgraph.is_empty()", "if weight_sum - loop_number as f64 * dimension as f64 / 2.0 <= 0.0 && !subgraph.is_empty()")], C05="C05-a")
mut("C05 full-graph exemption dropped", [(PRE, "if generalized_dod <= 0.0 && !subgraph.is_empty() && subgraph != full_subgraph_id {", "if generalized_dod <= 0.0 && !subgraph.is_empty() && subgraph.get_id() + 1 != powerset_size {")], C05="C05-a")
mut("C05 only subsets with >= 2 edges checked", [(PRE, "(0..powerset_size).map(|i| TropicalSubGraphId::from_id(i, num_edges));", "(0..powerset_size).filter(|i| i.count_ones() != 1 || true).map(|i| TropicalSubGraphId::from_id(i, num_edges));")], C05="C05-a")
mut("C05 dimension literal in build_sampler", [(LIB, "TropicalSubgraphTable::generate_from_tropical(&tropical_graph, D)?;", "TropicalSubgraphTable::generate_from_tropical(&tropical_graph, 3)?;")], C05="C05-b")
mut("C05 N: strict comparison + map_err", [(PRE, "if generalized_dod <= 0.0 && !subgraph.is_empty()", "if generalized_dod < 0.0 && !subgraph.is_empty()"), (LIB, "generate_from_tropical(&tropical_graph, D)?;", "generate_from_tropical(&tropical_graph, D).map_err(|e| e)?;")], C05=None)
mut("C05 N: exemptions reordered", [(PRE, "if generalized_dod <= 0.0 && !subgraph.is_empty() && subgraph != full_subgraph_id {", "if subgraph != full_subgraph_id && !subgraph.is_empty() && generalized_dod <= 0.0 {")], C05=None)

# ---- C08 ----
mut("C08 mirrored write deleted", [(SAM, "                    temp_l_matrix[(i, j)] += &add;\n                    temp_l_matrix[(j, i)] += &add;", "                    temp_l_matrix[(i, j)] += &add;")], C08="C08-a")
mut("C08 squared signature off the diagonal", [(SAM, "signature_matrix[e][i] * signature_matrix[e][j])", "signature_matrix[e][i] * signature_matrix[e][i])")], C08="C08-a")
mut("C08 decomposition of another matrix", [(SAM, "let decomposed_l_matrix = match l_matrix.decompose_for_tropical(settings) {", "let decomposed_l_matrix = match (&l_matrix + &l_matrix).decompose_for_tropical(settings) {")], C08="C08-b")
mut("C08 N: swapped off-diagonal writes, commuted product", [(SAM, "                    temp_l_matrix[(i, j)] += &add;\n                    temp_l_matrix[(j, i)] += &add;", "                    temp_l_matrix[(j, i)] += &add;\n                    temp_l_matrix[(i, j)] += &add;"), (SAM, "let add = x_vec[e].from_isize(signature_matrix[e][i] * signature_matrix[e][j])\n                    * &x_vec[e];", "let add = x_vec[e].ref_mul(&x_vec[e].from_isize(signature_matrix[e][j] * signature_matrix[e][i]));")], C08=None)
mut("C08 N: full square loop", [(SAM, "        for j in i..num_loops {", "        for j in 0..num_loops {"), (SAM, "                if i == j {\n                    temp_l_matrix[(i, j)] += &add;\n                } else {\n                    temp_l_matrix[(i, j)] += &add;\n                    temp_l_matrix[(j, i)] += &add;\n                }", "                temp_l_matrix[(i, j)] += &add;")], C08=None)
# ---- C09 ----
mut("C09 mass not squared", [(SAM, "(mass.ref_mul(mass) + shift.squared()) * x_e", "(mass.clone() + shift.squared()) * x_e")], C09="C09-b")
mut("C09 factor 2 dropped", [(SAM, "res -= &(const_builder.from_isize(2)\n                * u_vectors[i].dot(&u_vectors[j])", "res -= &(const_builder.from_isize(1)\n                * u_vectors[i].dot(&u_vectors[j])")], C09="C09-b")
mut("C09 cross term sign", [(SAM, "res -= &(const_builder.from_isize(2)", "res += &(const_builder.from_isize(2)")], C09="C09-b")
mut("C09 diagonal inverse in cross term", [(SAM, "                * &inverse_l[(i, j)]);", "                * &inverse_l[(i, i)]);")], C09="C09-b")
mut("C09 u vector uses the wrong signature column", [(SAM, "const_builder.from_isize(signature_marix[e][l]) * &x_vec[e]", "const_builder.from_isize(signature_marix[e][0]) * &x_vec[e]")], C09="C09-a")
mut("C09 v uses q_transposed_inverse", [(SAM, "        &u_vectors,\n        &decomposed_l_matrix.inverse,\n        &edge_shifts,", "        &u_vectors,\n        &decomposed_l_matrix.q_transposed_inverse,\n        &edge_shifts,")], C09="C09-b")
mut("C09 N: transposed symmetric read, ref_mul as *", [(SAM, "                * &inverse_l[(i, j)]);", "                * &inverse_l[(j, i)]);"), (SAM, "(mass.ref_mul(mass) + shift.squared()) * x_e", "(mass.clone() * mass + shift.squared()) * x_e")], C09=None)
mut("C09 N: full double loop without the factor", [(SAM, "    for l in 0..num_loops {\n        res -= &(u_vectors[l].squared() * &inverse_l[(l, l)]);\n    }\n\n    for i in 0..num_loops {\n        for j in i + 1..num_loops {\n            res -= &(const_builder.from_isize(2)\n                * u_vectors[i].dot(&u_vectors[j])\n                * &inverse_l[(i, j)]);\n        }\n    }", "    for i in 0..num_loops {\n        for j in 0..num_loops {\n            res -= &(u_vectors[i].dot(&u_vectors[j]) * &inverse_l[(i, j)]);\n        }\n    }")], C09=None)
# ---- C10 ----
mut("C10 transposed Q^-T read", [(SAM, "prefactor.ref_mul(&q_t_inverse[(l, l_prime)])", "prefactor.ref_mul(&q_t_inverse[(l_prime, l)])")], C10="C10-a")
mut("C10 shift sign", [(SAM, "                    let u_part: Vector<T, D> = u * &l_inverse[(l, l_prime)];\n                    &acc + &u_part", "                    let u_part: Vector<T, D> = u * &l_inverse[(l, l_prime)];\n                    &acc - &u_part")], C10="C10-b")
mut("C10 momenta use q_transposed", [(SAM, "        &decomposed_l_matrix.q_transposed_inverse,\n        &q_vectors,", "        &decomposed_l_matrix.q_transposed,\n        &q_vectors,")], C10="C10-a")
mut("C10 prefactor without the 2", [(SAM, "let prefactor = (v.ref_div(lambda) / lambda.from_isize(2)).sqrt();", "let prefactor = (v.ref_div(lambda)).sqrt();")], C10="C10-a")
mut("C10 N: transposed symmetric L^-1 read", [(SAM, "let u_part: Vector<T, D> = u * &l_inverse[(l, l_prime)];\n\n                    &(&acc + &q_part) - &u_part", "let u_part: Vector<T, D> = u * &l_inverse[(l_prime, l)];\n\n                    &(&acc + &q_part) - &u_part")], C10=None)
# ---- C11 ----
mut("C11 literal 1.5 for D/2 in the jacobian", [(SAM, "        .powf(&const_builder.from_f64(tropical_subgraph_table.dimension as f64 / 2.0))\n        * (v_trop.ref_div(&v))", "        .powf(&const_builder.from_f64(1.5))\n        * (v_trop.ref_div(&v))")], C11="C11-a")
mut("C11 dod exponent on the u ratio", [(SAM, "            .powf(&const_builder.from_f64(tropical_subgraph_table.tropical_graph.dod))\n        * const_builder.from_f64(tropical_subgraph_table.cached_factor);", "            .powf(&const_builder.from_f64(tropical_subgraph_table.tropical_graph.dod + 0.0 * tropical_subgraph_table.dimension as f64))\n        * const_builder.from_f64(tropical_subgraph_table.cached_factor);")], C11=None)
mut("C11 jacobian without cached factor", [(SAM, "        * const_builder.from_f64(tropical_subgraph_table.cached_factor);", "        * const_builder.from_f64(1.0);")], C11="C11-a")

# ---- C13 ----
mut("C13 swapped helper arguments", [(SAM, "box_muller(rng.get_random_number(token), rng.get_random_number(token));", "{ let a = rng.get_random_number(token); let b = rng.get_random_number(token); box_muller(b, a) };")], C13="C13-b")
mut("C13 emits [sin, cos]", [(SAM, "        [box_muller_1, box_muller_2]", "        [box_muller_2, box_muller_1]")], C13="C13-b")
mut("C13 radius without the factor 2", [(SAM, "let r = (-x1.from_isize(2) * x1.ln()).sqrt();", "let r = (-x1.ln()).sqrt();")], C13="C13-a")
mut("C13 angle uses x1", [(SAM, "let theta = x1.from_isize(2) * x1.PI() * x2;", "let theta = x1.from_isize(2) * x1.PI() * x1;")], C13="C13-a")
mut("C13 pair count rounds down", [(SAM, "let num_uniform_variables = num_variables + num_variables % 2;", "let num_uniform_variables = num_variables;")], C13="C13-d", C14="C14-g")
mut("C13 n + 1 padding (even n: (n+1)/2 = n/2 pairs, odd n: same) is value-equal", [(SAM, "let num_uniform_variables = num_variables + num_variables % 2;", "let num_uniform_variables = num_variables + 1;")], C13="C13-d")
mut("C13 N: commuted products in the helper", [(SAM, "    (theta.cos() * &r, theta.sin() * &r)", "    (r.ref_mul(&theta.cos()), r.ref_mul(&theta.sin()))")], C13=None)
mut("C14 dimension pads per loop", [(PRE, "2 * num_edges - 1 + num_gaussian_variables + num_gaussian_variables % 2", "2 * num_edges - 1 + loop_number * (self.dimension + self.dimension % 2)")], C14="C14-g")
# ---- C15 / C16-d ----
mut("C15 q_transposed not transposed", [(MAT, "q_transposed[(row, col)] = q[(col, row)].clone();", "q_transposed[(row, col)] = q[(row, col)].clone();")], C15="C15-b")
mut("C15 q_transposed_inverse not transposed", [(MAT, "q_transposed_inverse[(row, col)] = inverse_q[(col, row)].clone();", "q_transposed_inverse[(row, col)] = inverse_q[(row, col)].clone();")], C15="C15-b")
mut("C15 inverse factors in the wrong order", [(MAT, "let inverse = &q_transposed_inverse * &inverse_q;", "let inverse = &inverse_q * &q_transposed_inverse;")], C15="C15-b")
mut("C15 IndexMut transposed offset", [(MAT, "        &mut self.data[index.0 * self.dim + index.1]", "        &mut self.data[index.1 * self.dim + index.0]")], C15="C15-d")
mut("C15 product sums over the wrong index", [(MAT, "result[(row, col)] += &self[(row, k)].ref_mul(&rhs[(k, col)]);", "result[(row, col)] += &self[(row, k)].ref_mul(&rhs[(col, k)]);")], C15="C15-a")
mut("C15 determinant not squared", [(MAT, "let determinant = det_q.ref_mul(&det_q);", "let determinant = det_q.clone();")], C15="C15-b")
mut("C15 N: det via fold result", [(MAT, "let determinant = det_q.ref_mul(&det_q);", "let determinant = det_q.clone() * &det_q;")], C15=None)
mut("C16 norm sums rows instead of columns", [(MAT, "vec_norm += &self[(i, j)].ref_mul(&self[(i, j)]);", "vec_norm += &self[(j, i)].ref_mul(&self[(j, i)]);")], C16="C16-d")
mut("C16 norm without the square root", [(MAT, "res += &vec_norm.sqrt();", "res += &vec_norm;")], C16="C16-d")
mut("C16 identity off by one", [(MAT, "        for i in 0..dim {\n            res[(i, i)] = self.data[0].one();", "        for i in 1..dim {\n            res[(i, i)] = self.data[0].one();")], C16="C16-d")

# ---- C07 / C11 rescaling ----
mut("C07 loop number dropped from the scaling exponent", [(SAM, "tropical_subgraph_table.dimension as f64 / 2.0 * loop_number as f64\n                    + tropical_subgraph_table.tropical_graph.dod,", "tropical_subgraph_table.dimension as f64 / 2.0\n                    + tropical_subgraph_table.tropical_graph.dod,")], C07="C07-c", C11="C11-c")
mut("C07 omega of the graph before removal", [(SAM, "        graph = graph_without_edge;\n        if graph.is_empty() {\n            break;\n        }\n\n        let xi = rng.get_random_number(Some(\"sample xi\"));\n        kappa *= &xi.powf(\n            &xi.from_f64(tropical_subgraph_table.table[graph.get_id()].generalized_dod)", "        let omega_g = tropical_subgraph_table.table[graph.get_id()].generalized_dod;\n        graph = graph_without_edge;\n        if graph.is_empty() {\n            break;\n        }\n\n        let xi = rng.get_random_number(Some(\"sample xi\"));\n        kappa *= &xi.powf(\n            &xi.from_f64(omega_g)")], C07="C07-a")
mut("C07 v_trop condition without the negation", [(SAM, "            && !tropical_subgraph_table.table[graph_without_edge.get_id()].mass_momentum_spanning", "            && tropical_subgraph_table.table[graph_without_edge.get_id()].mass_momentum_spanning")], C07="C07-b", C11="C11-d")
mut("C07 u_trop multiplied by kappa squared", [(SAM, "            u_trop *= &x_vec[edge];", "            u_trop *= &x_vec[edge];\n            u_trop *= &x_vec[edge];")], C07="C07-b")
mut("C07 rescaling skips the first parameter", [(SAM, "x_vec.iter_mut().for_each(|x| *x *= &scaling);", "x_vec.iter_mut().skip(1).for_each(|x| *x *= &scaling);")], C07="C07-c")
mut("C07 N: target written with one division", [(SAM, "        * (u_trop.ref_div(&xi_trop))\n            .powf(&xi_trop.from_f64(tropical_subgraph_table.tropical_graph.dod));", "        * (v_trop.inv())\n            .powf(&xi_trop.from_f64(tropical_subgraph_table.tropical_graph.dod));")], C07=None, C11=None)

# ---- C03 / C04 ----
mut("C03 literal 1.5 for D/2 in the generalized dod", [(PRE, "weight_sum - loop_number as f64 * dimension as f64 / 2.0 - tropical_graph.dod", "weight_sum - loop_number as f64 * 1.5 - tropical_graph.dod")], C03="C03-b")
mut("C03 spanning subtraction dropped", [(PRE, "weight_sum - loop_number as f64 * dimension as f64 / 2.0 - tropical_graph.dod", "weight_sum - loop_number as f64 * dimension as f64 / 2.0")], C03="C03-b")
mut("C03 get_num_edges returns the table length", [(LIB, "    pub fn get_num_edges(&self) -> usize {\n        self.table.tropical_graph.topology.len()", "    pub fn get_num_edges(&self) -> usize {\n        self.table.table.len()")], C03="C03-d")
mut("C03 left/right swapped with weight source", [(PRE, "                left: edge.vertices.0,\n                right: edge.vertices.1,", "                left: edge.vertices.0,\n                right: edge.vertices.0,")], C03="C03-a")
mut("C03 dod uses dimension squared", [(PRE, "let dod = weight_sum - (loop_number as f64 * dimension as f64) / 2.;", "let dod = weight_sum - (loop_number as f64 * dimension as f64 * dimension as f64) / 2.;")], C03="C03-a")
mut("C03 N: refactored arithmetic", [(PRE, "weight_sum - loop_number as f64 * dimension as f64 / 2.0 - tropical_graph.dod", "weight_sum - 0.5 * (loop_number * dimension) as f64 - tropical_graph.dod")], C03=None)
mut("C04 pi exponent loses the loop count", [(PRE, "f64::consts::PI.powf((dimension * tropical_graph.num_loops) as f64 / 2.)", "f64::consts::PI.powf(dimension as f64 / 2.)")], C04="C04-b")
mut("C04 divisor indexed by the parent graph", [(PRE, "                        / table[g.id].generalized_dod.unwrap()", "                        / table[subgraph_id.id].generalized_dod.unwrap()")], C04="C04-a")
mut("C04 base case returns zero", [(PRE, "            let j_function = 1.0;\n            table[subgraph_id.id].j_function = Some(j_function);", "            let j_function = 0.0;\n            table[subgraph_id.id].j_function = Some(j_function);")], C04="C04-a")
mut("C04 gamma of dod replaced by gamma of dod+1", [(PRE, "let gamma_omega = gamma(tropical_graph.dod);", "let gamma_omega = gamma(tropical_graph.dod + 1.0);")], C04="C04-b")

mut("C04 table allocated for one edge more", [(PRE, "let powerset_size = 2usize.pow(num_edges as u32);", "let powerset_size = 2usize.pow(num_edges as u32 + 1);")], C04="C04-")
mut("C04 last entry dropped before the normalisation is read", [(PRE, "            .map(OptionTropicalSubgraphTableEntry::to_entry)\n            .collect_vec();", "            .map(OptionTropicalSubgraphTableEntry::to_entry)\n            .take(powerset_size - 1)\n            .collect_vec();")], C04="C04-")
mut("C04 N: powerset size by shift", [(PRE, "let powerset_size = 2usize.pow(num_edges as u32);", "let powerset_size = 1usize << num_edges;")], C04=None, C03=None, C05=None)

# ---- C20 ----
mut("C20 exp becomes exp2", [(FLO, "        f64::exp(*self)", "        f64::exp2(*self)")], C20="C20-a")
mut("C20 abs becomes identity", [(FLO, "        f64::abs(*self)", "        *self")], C20="C20-a")
mut("C20 from_isize through i32", [(FLO, "        value as f64\n", "        f64::from(value as i32)\n")], C20="C20-a")
mut("C20 PI truncated", [(FLO, "        f64::consts::PI\n", "        3.14159265358979\n")], C20="C20-a")
mut("C20 inv is negation", [(FLO, "        1.0 / self", "        -1.0 / self")], C20="C20-a")
mut("C20 dot via rfold", [(VEC, "            .zip(rhs.elements.iter())\n            .fold(self.elements[0].zero(), |acc, (left, right)| {", "            .zip(rhs.elements.iter())\n            .rfold(self.elements[0].zero(), |acc, (left, right)| {")], C20="C20-b")
mut("C20 AddAssign skips component 0", [(VEC, "        for i in 0..D {\n            self[i] += &rhs[i];", "        for i in 1..D {\n            self[i] += &rhs[i];")], C20="C20-b")
mut("C20 sub adds", [(VEC, "elements: array::from_fn(|i| self[i].ref_sub(&rhs[i])),", "elements: array::from_fn(|i| self[i].ref_add(&rhs[i])),")], C20="C20-b")
mut("C20 squared uses first component", [(VEC, ".fold(self.elements[0].zero(), |acc, x| acc + x.ref_mul(x))", ".fold(self.elements[0].zero(), |acc, x| acc + x.ref_mul(&self.elements[0]))")], C20="C20-b")
mut("C20 from_vec reverses", [(VEC, "            elements: elements\n                .try_into()\n                .unwrap_or_else(|_| panic!(\"invalid dimension\")),", "            elements: { let mut e = elements; e.reverse(); e.try_into().unwrap_or_else(|_| panic!(\"invalid dimension\")) },")], C20="C20-b")
mut("C20 N: from_vec by indexed clone", [(VEC, "            elements: elements\n                .try_into()\n                .unwrap_or_else(|_| panic!(\"invalid dimension\")),", "            elements: { assert!(elements.len() == D, \"invalid dimension\"); array::from_fn(|i| elements[i].clone()) },")], C20=None)
mut("C20 N: commuted products", [(VEC, "                acc + left.ref_mul(right)", "                right.ref_mul(left) + acc")], C20=None)

# ---- reader constants are decided from their bodies ----
mut("C07 reader one() returns zero", [(RNG, "        self.cache[0].one()", "        self.cache[0].zero()")], C07="C07-", C11="C11-")
mut("C07 N: reader zero() returns one (only ever a precision carrier / overwritten initial value)", [(RNG, "        self.cache[0].zero()", "        self.cache[0].one()")], C08=None, C07=None, C11=None)
mut("C07 N: reader one() through a local", [(RNG, "        self.cache[0].one()", "        let first = &self.cache[0];\n        first.one()")], C07=None, C11=None, C14=None)
# ---- the matrix zero constructors (abstracted by the storage model) are decided from their bodies ----
mut("C15 new_zeros fills with ones", [(MAT, "data: SmallVec::from_elem(self.data[0].zero(), dim * dim),", "data: SmallVec::from_elem(self.data[0].one(), dim * dim),")], C15="C15-", C08="C08-c", C16="C16-e")
mut("C15 new_zeros_from_num allocates dim + dim", [(MAT, "data: SmallVec::from_elem(builder.zero(), dim * dim),", "data: SmallVec::from_elem(builder.zero(), dim + dim),")], C15="C15-", C10="C10-d")
# ---- an undecidable statement that contains a value-returning exit must not be skipped ----
mut("engine: early Ok return behind a test outside the model", [(MAT, "        // start cholesky decomposition", "        if (0..self.dim).rev().all(|i| self[(i, i)] == self.zero()) {\n            return Ok(DecompositionResult { determinant: self.zero(), inverse: self.clone(), q_transposed_inverse: self.clone(), q_transposed: self.clone() });\n        }\n        // start cholesky decomposition")], C15="C15-", C08="C08-c", C10="C10-")
mut("engine: value-returning exit inside the sector while loop", [(SAM, "        x_vec[edge] = kappa.clone();\n", "        x_vec[edge] = kappa.clone();\n        if x_vec[edge] == rng.zero() {\n            return PermatuhedralSamplingResult { x: x_vec, u_trop, v_trop };\n        }\n")], C07="C07-", C11="C11-")
# ---- entry clause: behaviour-preserving forms of forwarding the inputs ----
_ENTRY_OLD = "        sample(\n            &self.table,\n            x_space_point,\n            &self.loop_signature,\n            &edge_data,\n            settings,"
mut("entry N: inputs through locals and a full reslice", [(LIB, _ENTRY_OLD, "        let point = &x_space_point[..];\n        let table = &self.table;\n        let data = edge_data.as_slice();\n        sample(\n            table,\n            point,\n            &self.loop_signature,\n            data,\n            settings,")], C12=None, C13=None, C14=None, C01=None)
mut("entry: point re-collected after a map", [(LIB, _ENTRY_OLD, "        let point = x_space_point.iter().map(|x| x.clone() * x.one()).collect_vec();\n        sample(\n            &self.table,\n            &point,\n            &self.loop_signature,\n            &edge_data,\n            settings,")], C12="C12-g", C13="C13-g", C14="C14-k")
# ---- f64 primitives: equivalent spellings (now restated in eight properties) ----
mut("C20 N: sqrt by method-call syntax", [(FLO, "        f64::sqrt(*self)", "        (*self).sqrt()")], C20=None, C08=None, C13=None, C15=None)
mut("C20 N: powf through locals", [(FLO, "        f64::powf(*self, *power)", "        let base = *self;\n        let exponent = *power;\n        base.powf(exponent)")], C20=None, C07=None, C11=None)
mut("C20 N: inv as recip", [(FLO, "        1.0 / self", "        1.0 / *self")], C20=None, C07=None, C15=None)
# ---- C15-e series, decided at matrix level ----
_PUSH_OLD = """            let last_power_of_n = powers_of_n
                .last()
                .unwrap_or_else(|| unreachable!("Never empty due to push before"));
            let first_power_of_n = powers_of_n
                .first()
                .unwrap_or_else(|| unreachable!("Never empty due to push before"));
            powers_of_n.push(last_power_of_n * first_power_of_n);"""
_FOLD_OLD = """                    if i % 2 == 0 {
                        &acc - mat
                    } else {
                        &acc + mat
                    }"""
mut("C15 series: power list squares the last element", [(MAT, _PUSH_OLD, _PUSH_OLD.replace("last_power_of_n * first_power_of_n", "last_power_of_n * last_power_of_n"))], C15="C15-e")
mut("C15 series: loop starts at 2 (one power missing)", [(MAT, "for _ in 1..max_non_zero_power_of_n {", "for _ in 2..max_non_zero_power_of_n {")], C15="C15-e")
mut("C15 series: all terms subtracted", [(MAT, _FOLD_OLD, _FOLD_OLD.replace("&acc + mat", "&acc - mat"))], C15="C15-e")
mut("C15 series: parity test on i % 3", [(MAT, _FOLD_OLD, _FOLD_OLD.replace("i % 2 == 0", "i % 3 == 0"))], C15="C15-e")
mut("C15 series: sum starts from the identity", [(MAT, ".fold(self.new_zeros(self.dim), |acc, (i, mat)| {", ".fold(self.new_identity(self.dim), |acc, (i, mat)| {")], C15="C15-e")
mut("C15 series: powers of Q instead of N", [(MAT, "powers_of_n.push(n_matrix);", "powers_of_n.push(q.clone());")], C15="C15-e")
mut("C15 N: series by index, odd-first parity", [(MAT, _PUSH_OLD, "            let next = &powers_of_n[powers_of_n.len() - 1] * &powers_of_n[0];\n            powers_of_n.push(next);"),
                                                 (MAT, _FOLD_OLD, "                    if i % 2 != 0 {\n                        &acc + mat\n                    } else {\n                        &acc - mat\n                    }")], C15=None, C09=None, C10=None)
mut("C15 N: first times last", [(MAT, "powers_of_n.push(last_power_of_n * first_power_of_n);", "powers_of_n.push(first_power_of_n * last_power_of_n);")], C15=None)
# ---- C15-e / C15-f / C08-c ----
mut("C15 Cholesky skips exact-zero entries (fill-in ignored)", [(MAT, "            for j in i + 1..self.dim {\n                let mut entry = self[(i, j)].clone();", "            for j in i + 1..self.dim {\n                if self[(i, j)] == const_builder.zero() {\n                    continue;\n                }\n                let mut entry = self[(i, j)].clone();")], C15="C15-", C08="C08-c")
mut("C15 Cholesky inner sum over the wrong row", [(MAT, "entry -= &q[(i, k)].ref_mul(&q[(j, k)]);", "entry -= &q[(i, k)].ref_mul(&q[(i, k)]);")], C15="C15-e", C08="C08-c")
mut("C15 diagonal without subtraction", [(MAT, "                diagonal_entry_squared -= &q[(i, j)].ref_mul(&q[(i, j)]);", "                diagonal_entry_squared -= &q[(i, j)].ref_mul(&q[(j, j)]);")], C15="C15-e")
mut("C15 series one power short", [(MAT, "let max_non_zero_power_of_n = self.dim - 1;", "let max_non_zero_power_of_n = self.dim - 2;")], C15="C15-e")
mut("C15 series signs flipped", [(MAT, "                    if i % 2 == 0 {\n                        &acc - mat\n                    } else {\n                        &acc + mat\n                    }", "                    if i % 2 == 0 {\n                        &acc + mat\n                    } else {\n                        &acc - mat\n                    }")], C15="C15-e")
mut("C15 N scaled by the column pivot", [(MAT, "            let inverse_diagonal_element = &inverse_diagonal_entries[row];\n            for col in 0..row {\n                n_matrix[(row, col)] = inverse_diagonal_element.ref_mul(&q[(row, col)]);", "            for col in 0..row {\n                n_matrix[(row, col)] = inverse_diagonal_entries[col].ref_mul(&q[(row, col)]);")], C15="C15-e")
mut("C15 tolerance guard instead of exact zero", [(MAT, "if determinant == const_builder.zero() {", "if determinant.abs() <= const_builder.from_f64(f64::EPSILON) {")], C15="C15-f", C16=None)
mut("C15 N: Cholesky products commuted", [(MAT, "entry -= &q[(i, k)].ref_mul(&q[(j, k)]);", "entry -= &q[(j, k)].ref_mul(&q[(i, k)]);")], C15=None, C08=None)

# ---- C12-d ----
mut("C12 clamp removed", [(GAM, "        if x_n <= 0. {\n            x_n = 1.0e-16;\n        }\n", "")], C12="C12-d")
mut("C12 clamp misses zero", [(GAM, "        if x_n <= 0. {", "        if x_n < 0. {")], C12="C12-d")
mut("C12 clamp after the incomplete gamma calls", [(GAM, "        if x_n <= 0. {\n            x_n = 1.0e-16;\n        }\n\n        let err = if p <= 0.5 {\n            gamma_lr(a, x_n) - p\n        } else {\n            -(gamma_ur(a, x_n) - q)\n        };", "        let err = if p <= 0.5 {\n            gamma_lr(a, x_n) - p\n        } else {\n            -(gamma_ur(a, x_n) - q)\n        };\n        if x_n <= 0. {\n            x_n = 1.0e-16;\n        }")], C12="C12-d")
mut("C12 N: clamp written with max", [(GAM, "        if x_n <= 0. {\n            x_n = 1.0e-16;\n        }\n", "        x_n = x_n.max(1.0e-16);\n")], C12=None)
mut("C12 N: negated form of the clamp", [(GAM, "        if x_n <= 0. {\n            x_n = 1.0e-16;\n        }\n", "        if !(x_n > 0.) {\n            x_n = 1.0e-16;\n        }\n")], C12=None)

# ---- C12-e ----
mut("C12 Euler constant from a table indexed by the shape", [(GAM, "    let c = 0.577_215_664_901_532_9;", "    let cs = [0.577_215_664_901_532_9, 0.577_215_664_901_532_9];\n    let c = cs[a as usize];")], C12="C12-e")
mut("C12 start value unwrapped from a filtered Option", [(GAM, "    let mut x_n = x0;", "    let mut x_n = Some(x0).filter(|v| v.is_finite()).unwrap();")], C12="C12-e")
mut("C12 assert that p is positive", [(GAM, "    let q = 1.0 - p;\n", "    assert!(p > 0.0, \"p must be positive\");\n    let q = 1.0 - p;\n")], C12="C12-e")
mut("C12 N: assert that the shape is positive", [(GAM, "    let q = 1.0 - p;\n", "    assert!(a > 0.0, \"shape must be positive\");\n    let q = 1.0 - p;\n")], C12=None)
mut("C12 N: assert that p is not NaN and not negative", [(GAM, "    let q = 1.0 - p;\n", "    assert!(!p.is_nan() && p >= 0.0);\n    let q = 1.0 - p;\n")], C12=None)

# ---- C14-h ----
mut("C14 pop_edge clears with AND-NOT of the wrong bit", [(PRE, "            id: self.id ^ (1 << edge_id),", "            id: self.id ^ (1 << (edge_id + 1)),")], C14="C14-h")
mut("C14 has_one_edge tests two bits", [(PRE, "        self.id.count_ones() == 1", "        self.id.count_ones() <= 2")], C14="C14-h")
mut("C14 full id one bit short", [(PRE, "            id: (1 << num_edges) - 1,", "            id: (1 << num_edges) - 2,")], C14="C14-h")

# ---- C03-e / C03-f ----
mut("C03 Euler formula without the component's +1", [(PRE, "        1 + num_edges - num_vertices", "        num_edges + 1 - num_vertices - 1 + 1 - 1")], C03="C03-f")
mut("C03 loop number counts only left endpoints", [(PRE, "            vertices.insert(self.topology[edge].left);\n            vertices.insert(self.topology[edge].right);", "            vertices.insert(self.topology[edge].left);\n            vertices.insert(self.topology[edge].left);")], C03="C03-f")
mut("C03 momentum spanning tested on any component vertex", [(PRE, "            self.external_vertices.iter().all(|&v| {", "            self.external_vertices.iter().any(|&v| {")], C03="C03-e", C05="C05-d")
mut("C03 mass spanning with >=", [(PRE, "let is_mass_spanning = num_massive_edges == self.num_massive_edges;", "let is_mass_spanning = num_massive_edges + 1 >= self.num_massive_edges;")], C03="C03-e")
mut("C03 N: conjunction commuted", [(PRE, "        is_mass_spanning && is_momentum_spanning", "        is_momentum_spanning && is_mass_spanning")], C03=None, C05=None)

# ---- C03-g ----
mut("C03 adjacency ignores the right endpoint of the second edge", [(PRE, "            || self.topology[edge_id_1].contains_vertex(self.topology[edge_id_2].right)", "            || self.topology[edge_id_1].contains_vertex(self.topology[edge_id_2].left)")], C03="C03-g")
mut("C03 contains_vertex compares left twice", [(PRE, "        self.left == vertex || self.right == vertex", "        self.left == vertex || self.left == vertex")], C03="C03-")
mut("C03 neighbours searched in the complement test (and for or)", [(PRE, "        self.topology[edge_id_1].contains_vertex(self.topology[edge_id_2].left)\n            ||", "        self.topology[edge_id_1].contains_vertex(self.topology[edge_id_2].left)\n            &&")], C03="C03-g")
mut("C03 component id built with xor", [(PRE, "            id |= 1 << edge_id;", "            id ^= 1 << edge_id;")], C03="C03-g")
mut("C03 component id shifts by edge+1", [(PRE, "            id |= 1 << edge_id;", "            id |= 1 << (edge_id + 1);")], C03="C03-g")
mut("C03 N: adjacency with operands commuted", [(PRE, "        self.topology[edge_id_1].contains_vertex(self.topology[edge_id_2].left)\n            || self.topology[edge_id_1].contains_vertex(self.topology[edge_id_2].right)", "        self.topology[edge_id_2].contains_vertex(self.topology[edge_id_1].right)\n            || self.topology[edge_id_2].contains_vertex(self.topology[edge_id_1].left)")], C03=None)
mut("C03 N: contains_vertex via != and negation", [(PRE, "        self.left == vertex || self.right == vertex", "        !(self.left != vertex && vertex != self.right)")], C03=None, C05=None)

# ---- C06-d ----
mut("C06 p_e divides by omega of the parent graph", [(PRE, "                / uniform.from_f64(self.table[graph_without_edge.id].generalized_dod);", "                / uniform.from_f64(self.table[subgraph.id].generalized_dod);")], C06="C06-d")
mut("C06 p_e numerator from the parent graph", [(PRE, "            let p_e = uniform.from_f64(self.table[graph_without_edge.id].j_function)", "            let p_e = uniform.from_f64(self.table[subgraph.id].j_function)")], C06="C06-d")

# ---- global behaviour-preserving refactors: every check must stay silent ----
ALLP = dict(C03=None, C04=None, C05=None, C06=None, C07=None, C08=None, C09=None, C10=None, C11=None, C12=None, C13=None, C14=None, C15=None, C16=None, C17=None, C18=None, C19=None, C20=None)
M.append({"name": "N: private helpers renamed (sector, scan, id methods, graph routines, kernels)", "edits": [
    ("re", r"\bpermatuhedral_sampling\b", "sector_sampling"), ("re", r"\bsample_edge\b", "pick_edge"), ("re", r"\bpop_edge\b", "without_edge"),
    ("re", r"\bcontains_edges\b", "edge_indices"), ("re", r"\bhas_one_edge\b", "is_single_edge"), ("re", r"\bget_loop_number\b", "loop_count"),
    ("re", r"\bis_mass_momentum_spanning\b", "spans_masses_and_momenta"), ("re", r"\bget_connected_components\b", "components_of"),
    ("re", r"\brecursive_fill_j_function\b", "fill_j"), ("re", r"\bcompute_l_matrix\b", "build_l"), ("re", r"\bcompute_v_polynomial\b", "v_poly"),
    ("re", r"\bcompute_u_vectors\b", "u_vecs"), ("re", r"\bcompute_loop_momenta\b", "momenta_map"), ("re", r"\bsample_q_vectors\b", "gaussians"),
    ("re", r"\bbox_muller\b", "bm_pair"), ("re", r"\bget_random_number\b", "next_coordinate"), ("re", r"\bMimicRng\b", "PointReader"),
    ("re", r"\bget_full_subgraph_id\b", "full_id"), ("re", r"\bl21_norm\b", "column_norm_sum"), ("re", r"\bnew_identity\b", "identity_like"),
    ("re", r"\bget_num_variables\b", "hypercube_dim"), ("re", r"\binverse_gamma_lr_impl\b", "gamma_quantile_f64"), ("re", r"\bfrom_edge_list\b", "from_edges"),
], "expect": dict(ALLP)})
M.append({"name": "N: local variables renamed in the kernels", "edits": [
    ("re", r"\bkappa\b", "weight_acc"), ("re", r"\bx_vec\b", "params"), ("re", r"\bdet_q\b", "pivot_product"), ("re", r"\bcum_sum\b", "running"),
    ("re", r"\bn_matrix\b", "nil"), ("re", r"\binverse_q\b", "qinv"), ("re", r"\bdiagonal_entry_squared\b", "pivot_sq"), ("re", r"\blast_edge\b", "fallback"),
], "expect": dict(ALLP)})
M.append({"name": "N: generic parameter T renamed to F in sampling.rs", "edits": [
    (SAM, "fn box_muller<T: MomTropFloat>(x1: &T, x2: &T) -> (T, T) {", "fn box_muller<F: MomTropFloat>(x1: &F, x2: &F) -> (F, F) {"),
], "expect": dict(ALLP)})

M.append({"name": "N: scalar type parameter renamed T -> F in matrix.rs, vector.rs, sampling.rs, mimic_rng.rs, gamma.rs", "edits": [
    ("re", r"\bT\b", "F", "matrix.rs"), ("re", r"\bT\b", "F", "vector.rs"), ("re", r"\bT\b", "F", "sampling.rs"), ("re", r"\bT\b", "F", "mimic_rng.rs"), ("re", r"\bT\b", "F", "gamma.rs"),
], "expect": dict(ALLP)})
M.append({"name": "N: const parameter D renamed to N in lib.rs", "edits": [
    ("re", r"\bD\b", "N", "lib.rs"),
], "expect": dict(ALLP)})

M.append({"name": "N: jacobian assembled in a private helper", "edits": [
    (SAM, """    let jacobian = (u_trop.ref_div(u))
        .powf(&const_builder.from_f64(tropical_subgraph_table.dimension as f64 / 2.0))
        * (v_trop.ref_div(&v))
            .powf(&const_builder.from_f64(tropical_subgraph_table.tropical_graph.dod))
        * const_builder.from_f64(tropical_subgraph_table.cached_factor);
""", """    let jacobian = weight_of(&u_trop, u, &v_trop, &v, tropical_subgraph_table, &const_builder);
"""),
    (SAM, "struct PermatuhedralSamplingResult<T: MomTropFloat> {", """fn weight_of<T: MomTropFloat>(ut: &T, u: &T, vt: &T, v: &T, table: &TropicalSubgraphTable, b: &T) -> T {
    let half_d = b.from_f64(table.dimension as f64 / 2.0);
    let dod = b.from_f64(table.tropical_graph.dod);
    (ut.ref_div(u)).powf(&half_d) * (vt.ref_div(v)).powf(&dod) * b.from_f64(table.cached_factor)
}

struct PermatuhedralSamplingResult<T: MomTropFloat> {"""),
], "expect": dict(ALLP)})
M.append({"name": "N: independent statements of sample reordered", "edits": [
    (SAM, """    let q_vectors = sample_q_vectors(&mut mimic_rng, tropical_subgraph_table.dimension, num_loops);
    let u_vectors = compute_u_vectors(&permatuhedral_sample.x, loop_signature, &edge_shifts);
""", """    let u_vectors = compute_u_vectors(&permatuhedral_sample.x, loop_signature, &edge_shifts);
    let q_vectors = sample_q_vectors(&mut mimic_rng, tropical_subgraph_table.dimension, num_loops);
"""),
], "expect": dict(ALLP)})
M.append({"name": "N: u vectors with explicit loops instead of fold", "edits": [
    (SAM, """    (0..num_loops)
        .map(|l| {
            (0..num_edges).fold(
                Vector::new_from_num(const_builder),
                |acc: Vector<T, D>, e| {
                    &acc + &(edge_shifts[e]
                        * (const_builder.from_isize(signature_marix[e][l]) * &x_vec[e]))
                },
            )
        })
        .collect_vec()
}""", """    let mut res = Vec::with_capacity(num_loops);
    for l in 0..num_loops {
        let mut acc: Vector<T, D> = Vector::new_from_num(const_builder);
        for e in 0..num_edges {
            acc += edge_shifts[e] * (const_builder.from_isize(signature_marix[e][l]) * &x_vec[e]);
        }
        res.push(acc);
    }
    res
}"""),
], "expect": dict(C09=None, C10=None, C08=None, C11=None, C17=None, C19=None)})

mut("C13 components stored in reverse order", [(SAM, "            vec[i] = gaussians.next().unwrap_or_else(|| unreachable!());", "            vec[D - 1 - i] = gaussians.next().unwrap_or_else(|| unreachable!());")], C13="C13-c")

mut("C18 N: BTreeMap field added", [(PRE, "    pub cached_factor: f64,\n}", "    pub cached_factor: f64,\n    pub notes: std::collections::BTreeMap<String, f64>,\n}"), (PRE, "            cached_factor,\n            tropical_graph: tropical_graph.clone(),", "            cached_factor,\n            notes: Default::default(),\n            tropical_graph: tropical_graph.clone(),")], C18=None, C17=None)
mut("C18 hand-written Serialize for the table entry", [(PRE, "#[derive(Debug, Clone, Copy, PartialEq, Serialize, Deserialize)]\npub struct TropicalSubgraphTableEntry {", "#[derive(Debug, Clone, Copy, PartialEq, Deserialize)]\npub struct TropicalSubgraphTableEntry {"), (PRE, "/// The list of data for all subgraphs, indexed using the TropicalSubGraphId", "impl Serialize for TropicalSubgraphTableEntry {\n    fn serialize<S: serde::Serializer>(&self, s: S) -> Result<S::Ok, S::Error> {\n        use serde::ser::SerializeStruct;\n        let mut st = s.serialize_struct(\"TropicalSubgraphTableEntry\", 4)?;\n        st.serialize_field(\"loop_number\", &self.loop_number)?;\n        st.serialize_field(\"mass_momentum_spanning\", &self.mass_momentum_spanning)?;\n        st.serialize_field(\"j_function\", &(self.j_function as f32))?;\n        st.serialize_field(\"generalized_dod\", &self.generalized_dod)?;\n        st.end()\n    }\n}\n\n/// The list of data for all subgraphs, indexed using the TropicalSubGraphId")], C18="C18-a")

MUTATIONS = M
mut("N: subgraph-id bit operations with commuted operands", [
    (PRE, "            id: self.id ^ (1 << edge_id),", "            id: (1 << edge_id) ^ self.id,"),
    (PRE, "        self.id == 0\n", "        0 == self.id\n"),
    (PRE, "        self.id & (1 << edge_id) != 0", "        0 != (1 << edge_id) & self.id"),
    (PRE, "        self.id.count_ones() == 1", "        1 == self.id.count_ones()"),
    (PRE, "            id |= 1 << edge_id;", "            id = (1 << edge_id) | id;"),
], **ALLP)

# ---- C14-i ----
mut("C14 sector starts from a graph that already lost edge 0", [(SAM, "        .get_full_subgraph_id();\n\n    while !graph.is_empty() {", "        .get_full_subgraph_id()\n        .pop_edge(0);\n\n    while !graph.is_empty() {")], C14="C14-i")
mut("C14 single-edge branch removes edge 0 instead of the remaining edge", [(SAM, "            let graph_without_edge = graph.pop_edge(edge);\n            (edge, graph_without_edge)", "            let graph_without_edge = graph.pop_edge(0);\n            (edge, graph_without_edge)")], C14="C14-i", C07="C07-a")
mut("N: sector loop as loop { if empty { break } … }", [(SAM, "    while !graph.is_empty() {\n        // this saves a random variable", "    loop {\n        if graph.is_empty() {\n            break;\n        }\n        // this saves a random variable")], **ALLP)

# ---- C06-e / C06-f / C05-e ----
mut("C06 builder accepts a zero generalised dod", [(PRE, "if generalized_dod <= 0.0 && !subgraph.is_empty()", "if generalized_dod < 0.0 && !subgraph.is_empty()")], C06="C06-e")
mut("C06 N: rejection test written as !(gdod > 0)", [(PRE, "if generalized_dod <= 0.0 && !subgraph.is_empty()", "if !(generalized_dod > 0.0) && !subgraph.is_empty()")], C06=None, C05=None)
mut("C06 entry asserts the open unit cube", [(LIB, "        sample(\n            &self.table,\n            x_space_point,", "        assert!(x_space_point.iter().all(|x| x > &x.zero() && x < &x.one()), \"point outside the open cube\");\n        sample(\n            &self.table,\n            x_space_point,")], C06="C06-f")
mut("C06 sector asserts a positive edge uniform", [(SAM, "            tropical_subgraph_table.sample_edge(rng.get_random_number(Some(\"sample_edge\")), &graph)", "            {\n                let u_edge = rng.get_random_number(Some(\"sample_edge\"));\n                assert!(u_edge > &u_edge.zero());\n                tropical_subgraph_table.sample_edge(u_edge, &graph)\n            }")], C06="C06-f")
mut("C06 N: entry asserts the point is long enough", [(LIB, "        sample(\n            &self.table,\n            x_space_point,", "        assert!(x_space_point.len() >= self.get_dimension(), \"point too short\");\n        sample(\n            &self.table,\n            x_space_point,")], C06=None, C14=None, C17=None)
mut("C05 build_sampler refuses a non-finite normalisation", [(LIB, "        Ok(SampleGenerator {\n            loop_signature,", "        if !table.cached_factor.is_finite() {\n            return Err(format!(\"normalisation not finite: {}\", table.cached_factor));\n        }\n        Ok(SampleGenerator {\n            loop_signature,")], C05="C05-e")

# ---- C12-f ----
mut("C12 exponential shortcut for |a-1| <= 1e-6", [(GAM, "    if (1.0 - 1.0e-8..=1.0 + 1.0e-8).contains(&a) {", "    if (1.0 - 1.0e-6..=1.0 + 1.0e-6).contains(&a) {")], C12="C12-f")
mut("C12 exponential shortcut with single-precision window (abs form)", [(GAM, "    if (1.0 - 1.0e-8..=1.0 + 1.0e-8).contains(&a) {", "    if (a - 1.0).abs() <= f32::EPSILON as f64 {")], C12="C12-f")
mut("C12 large-shape shortcut with || instead of &&", [(GAM, "        if a >= 500.0 && (1.0 - w / a).abs() < 1.0e-6 {", "        if a >= 500.0 || (1.0 - w / a).abs() < 1.0e-6 {")], C12="C12-f")
mut("C12 large-shape shortcut from a >= 50", [(GAM, "        if a >= 500.0 && (1.0 - w / a).abs() < 1.0e-6 {", "        if a >= 50.0 && (1.0 - w / a).abs() < 1.0e-6 {")], C12="C12-f")
mut("C12 converged iterate corrected once more before it is returned", [(GAM, "        if err.abs() < epsilon_tolerance * f64::EPSILON {\n            return x_n;", "        if err.abs() < epsilon_tolerance * f64::EPSILON {\n            return x_n - err / r;")], C12="C12-f")
mut("C12 tail shortcut threshold raised to 1e-12", [(GAM, "            if b <= 1.0e-28 {", "            if b <= 1.0e-12 {")], C12="C12-f")
mut("C12 N: exponential shortcut window narrowed, abs form", [(GAM, "    if (1.0 - 1.0e-8..=1.0 + 1.0e-8).contains(&a) {", "    if (a - 1.0).abs() <= 1.0e-9 {")], C12=None)
mut("C12 N: shortcut written with two comparisons", [(GAM, "    if (1.0 - 1.0e-8..=1.0 + 1.0e-8).contains(&a) {", "    if a >= 1.0 - 1.0e-8 && a <= 1.0 + 1.0e-8 {")], C12=None)
mut("C12 iterate returned early once the step is small", [(GAM, "        let t_n = err / r;\n", "        let t_n = err / r;\n        if t_n.abs() < 1.0e-3 {\n            return x_n;\n        }\n")], C12="C12-f")
mut("C12 N: Newton loop as a while loop with a counter", [(GAM, "    for _ in 0..max_n_iter {\n        let r =", "    let mut n_iter = 0;\n    while n_iter < max_n_iter {\n        n_iter += 1;\n        let r =")], C12=None)
mut("C12 sample passes a convergence tolerance of 5e8 ulps", [(SAM, "        &const_builder.from_f64(5.0),\n    )\n    .map_err(SamplingError::GammaError)?;", "        &const_builder.from_f64(5.0e8),\n    )\n    .map_err(SamplingError::GammaError)?;")], C12="C12-f")
mut("C12 lower-tail error measured against q instead of p", [(GAM, "            gamma_lr(a, x_n) - p\n", "            gamma_lr(a, x_n) - q\n")], C12="C12-f")
mut("C12 N: error with commuted subtraction", [(GAM, "            gamma_lr(a, x_n) - p\n", "            -(p - gamma_lr(a, x_n))\n")], C12=None)

# ---- structs assembled through constructor functions (behaviour-preserving) ----
mut("N: Metadata assembled by a constructor function", [
    (LIB, "impl<const D: usize> SampleGenerator<D> {", "impl<T: MomTropFloat, const D: usize> Metadata<T, D> {\n    pub(crate) fn assemble(\n        l_matrix: crate::matrix::SquareMatrix<T>,\n        decompoisiton_result: crate::matrix::DecompositionResult<T>,\n        lambda: T,\n        q_vectors: Vec<Vector<T, D>>,\n        u_vectors: Vec<Vector<T, D>>,\n        shift: Vec<Vector<T, D>>,\n    ) -> Self {\n        Self { l_matrix, decompoisiton_result, lambda, q_vectors, u_vectors, shift }\n    }\n}\n\nimpl<const D: usize> SampleGenerator<D> {"),
    (SAM, "        Some(Metadata {\n            l_matrix,\n            q_vectors,\n            lambda,\n            shift: compute_only_shift(&decomposed_l_matrix.inverse, &u_vectors),\n            decompoisiton_result: decomposed_l_matrix.clone(),\n            u_vectors,\n        })", "        Some(Metadata::assemble(\n            l_matrix,\n            decomposed_l_matrix.clone(),\n            lambda,\n            q_vectors,\n            u_vectors.clone(),\n            compute_only_shift(&decomposed_l_matrix.inverse, &u_vectors),\n        ))"),
], **ALLP)

# ---- more behaviour-preserving refactors ----
mut("N: build_sampler propagates the builder's error with match instead of ?", [(LIB, "        let table = TropicalSubgraphTable::generate_from_tropical(&tropical_graph, D)?;", "        let table = match TropicalSubgraphTable::generate_from_tropical(&tropical_graph, D) {\n            Ok(table) => table,\n            Err(error) => return Err(error),\n        };")], **ALLP)
mut("N: subset loop over indices instead of a mapped iterator", [(PRE, "        for subgraph in subgraph_iterator {", "        drop(subgraph_iterator);\n        for subset_index in 0..powerset_size {\n            let subgraph = TropicalSubGraphId::from_id(subset_index, num_edges);")], **ALLP)
mut("N: loop number summed with an explicit loop", [(PRE, "        connected_components\n            .iter()\n            .map(|c| self.get_loop_number_of_connected_component(c))\n            .sum()", "        let mut total = 0;\n        for component in connected_components.iter() {\n            total += self.get_loop_number_of_connected_component(component);\n        }\n        total")], **ALLP)
mut("N: weight sum with fold", [(PRE, "        edges_in_subgraph\n            .iter()\n            .map(|&i| self.topology[i].weight)\n            .sum()", "        edges_in_subgraph\n            .iter()\n            .fold(0.0, |acc, &i| acc + self.topology[i].weight)")], **ALLP)

# ---- conditional effects inside summarised loops (engine soundness) ----
mut("C08 L matrix accumulates only edges with a positive signature product", [(SAM, "                if i == j {\n                    temp_l_matrix[(i, j)] += &add;", "                if signature_matrix[e][i] * signature_matrix[e][j] < 0 {\n                    continue;\n                }\n                if i == j {\n                    temp_l_matrix[(i, j)] += &add;")], C08="C08-")
mut("C08 L matrix skips the mirrored entry when the contribution is negative", [(SAM, "                    temp_l_matrix[(j, i)] += &add;", "                    if signature_matrix[e][i] * signature_matrix[e][j] > 0 {\n                        temp_l_matrix[(j, i)] += &add;\n                    }")], C08="C08-a")


# ---- search loops (engine: `for x in xs { if p(x) { return true } } false` is ∃x p(x)) ----
mut("N: any() written as a search loop in a helper", [
    (PRE, "                component\n                    .contains_edges()\n                    .any(|i| self.topology[i].contains_vertex(v))", "                self.component_touches(component, v)"),
    (PRE, "    /// Get all connected components of a graph, used to compute loop number of possible disconnected graph", "    fn component_touches(&self, component: &TropicalSubGraphId, v: u8) -> bool {\n        for i in component.contains_edges() {\n            if self.topology[i].contains_vertex(v) {\n                return true;\n            }\n        }\n        false\n    }\n\n    /// Get all connected components of a graph, used to compute loop number of possible disconnected graph"),
], C03=None, C05=None, C07=None)
mut("C03 search loop that answers true when NO edge touches the vertex", [
    (PRE, "                component\n                    .contains_edges()\n                    .any(|i| self.topology[i].contains_vertex(v))", "                self.component_touches(component, v)"),
    (PRE, "    /// Get all connected components of a graph, used to compute loop number of possible disconnected graph", "    fn component_touches(&self, component: &TropicalSubGraphId, v: u8) -> bool {\n        for i in component.contains_edges() {\n            if self.topology[i].contains_vertex(v) {\n                return false;\n            }\n        }\n        true\n    }\n\n    /// Get all connected components of a graph, used to compute loop number of possible disconnected graph"),
], C03="C03-e")

# ---- conditional push in a loop is a filter ----
_NB_OLD = "        edges_in_subgraph\n            .iter()\n            .filter(|&&i| self.are_neighbours(edge_id, i))\n            .copied()\n            .collect()"
mut("N: neighbour filter written as a push loop", [(PRE, _NB_OLD, "        let mut out = Vec::new();\n        for &i in edges_in_subgraph {\n            if self.are_neighbours(edge_id, i) {\n                out.push(i);\n            }\n        }\n        out")], C03=None)
mut("C03 neighbour push loop keeps the NON-neighbours", [(PRE, _NB_OLD, "        let mut out = Vec::new();\n        for &i in edges_in_subgraph {\n            if !self.are_neighbours(edge_id, i) {\n                out.push(i);\n            }\n        }\n        out")], C03="C03-g")
mut("N: loop number without the empty-set guard", [(PRE, "        if edges_in_subgraph.is_empty() {\n            return 0;\n        }\n\n        let connected_components = self.get_connected_components(edges_in_subgraph);", "        let connected_components = self.get_connected_components(edges_in_subgraph);")], C03=None, C05=None, C07=None)

# ---- effects through &mut parameters of helpers evaluated from their bodies ----
_RS_OLD = "    x_vec.iter_mut().for_each(|x| *x *= &scaling);"
_RS_FN = "\nfn rescale_in_place<T: MomTropFloat>(parameters: &mut [T], factor: &T) {\n    for parameter in parameters.iter_mut() {\n        *parameter *= %s;\n    }\n}\n\n/// This function returns the feynman parameters"
mut("N: rescaling moved into a helper taking &mut [T]", [
    (SAM, _RS_OLD, "    rescale_in_place(&mut x_vec, &scaling);"),
    (SAM, "\n/// This function returns the feynman parameters", _RS_FN % "factor"),
], C07=None, C11=None)
mut("C07 rescaling helper (&mut [T]) multiplies by the squared factor", [
    (SAM, _RS_OLD, "    rescale_in_place(&mut x_vec, &scaling);"),
    (SAM, "\n/// This function returns the feynman parameters", _RS_FN % "&(factor.ref_mul(factor))"),
], C07="C07-c", C11="C11-c")

# ---- nested search with `continue 'outer` (labels exported by the driver) ----
_MS_OLD = "        let is_momentum_spanning = connected_compoenents.iter().any(|component| {\n            self.external_vertices.iter().all(|&v| {\n                component\n                    .contains_edges()\n                    .any(|i| self.topology[i].contains_vertex(v))\n            })\n        });"
_MS_NEW = "        let is_momentum_spanning = self.some_component_spans(&connected_compoenents);"
_MS_FN = "    fn some_component_spans(&self, components: &[TropicalSubGraphId]) -> bool {\n        'components: for component in components {\n            for &v in &self.external_vertices {\n                if %scomponent.contains_edges().any(|i| self.topology[i].contains_vertex(v)) {\n                    continue 'components;\n                }\n            }\n            return true;\n        }\n        false\n    }\n\n    /// Get all connected components of a graph, used to compute loop number of possible disconnected graph"
_MS_ANCHOR = "    /// Get all connected components of a graph, used to compute loop number of possible disconnected graph"
mut("N: momentum-spanning test as labelled nested loops", [(PRE, _MS_OLD, _MS_NEW), (PRE, _MS_ANCHOR, _MS_FN % "!")], C03=None, C05=None)
mut("C03 labelled nested loops skip a component when it DOES touch an external", [(PRE, _MS_OLD, _MS_NEW), (PRE, _MS_ANCHOR, _MS_FN % "")], C03="C03-e")

# ---- composite properties (C01, C02): expectations derived mechanically from the owners' rows ----
# A row that makes a selected owner clause fire must make the composite fire under the restated id; a row on which an owner must stay
# silent must leave the composite silent (its clauses are a subset of the owners').
def _derive_composites():
    import os, sys
    sys.path.insert(0, os.path.dirname(os.path.dirname(os.path.abspath(__file__))))
    from mtsa.rules import c01, c02
    for comp, plan in (("C01", c01.PLAN), ("C02", c02.PLAN)):
        sel = {o: set(r) for o, r in plan}
        for m in M:
            ex = m["expect"]
            if comp in ex:
                continue
            fire = [w for o, w in ex.items() if o in sel and w in sel[o]]
            if fire:
                ex[comp] = "%s.%s" % (comp, fire[0])
            elif any(o in sel for o in ex) and all(w is None for w in ex.values()):
                ex[comp] = None
_derive_composites()

# ---- bag model (wave 10 neutral cure: two pushes per iteration, sort + dedup = set of elements, exact integer division) ----
_EUL_OLD = '        let edges_in_connected_subgraph = subgraph_id.contains_edges();\n        let mut vertices: HashSet<u8> = HashSet::default();\n\n        let mut num_edges = 0;\n        for edge in edges_in_connected_subgraph {\n            vertices.insert(self.topology[edge].left);\n            vertices.insert(self.topology[edge].right);\n            num_edges += 1;\n        }\n\n        let num_vertices = vertices.len();\n        1 + num_edges - num_vertices'
mut("N: distinct endpoints by sort + dedup of a pushed Vec", [(PRE, _EUL_OLD, '        let mut endpoints: Vec<u8> = Vec::new();\n        for edge in subgraph_id.contains_edges() {\n            endpoints.push(self.topology[edge].left);\n            endpoints.push(self.topology[edge].right);\n        }\n        let num_edges = endpoints.len() / 2;\n        endpoints.sort_unstable();\n        endpoints.dedup();\n        let num_vertices = endpoints.len();\n        1 + num_edges - num_vertices')], C03=None, C05=None, C07=None)
mut("C03 bag: left endpoint pushed twice", [(PRE, _EUL_OLD, '        let mut endpoints: Vec<u8> = Vec::new();\n        for edge in subgraph_id.contains_edges() {\n            endpoints.push(self.topology[edge].left);\n            endpoints.push(self.topology[edge].left);\n        }\n        let num_edges = endpoints.len() / 2;\n        endpoints.sort_unstable();\n        endpoints.dedup();\n        let num_vertices = endpoints.len();\n        1 + num_edges - num_vertices')], C03="C03-f")
mut("C03 bag: dedup without sorting first", [(PRE, _EUL_OLD, '        let mut endpoints: Vec<u8> = Vec::new();\n        for edge in subgraph_id.contains_edges() {\n            endpoints.push(self.topology[edge].left);\n            endpoints.push(self.topology[edge].right);\n        }\n        let num_edges = endpoints.len() / 2;\n        \n        endpoints.dedup();\n        let num_vertices = endpoints.len();\n        1 + num_edges - num_vertices')], C03="C03-f")
mut("C03 bag: edge count = len / 3", [(PRE, _EUL_OLD, '        let mut endpoints: Vec<u8> = Vec::new();\n        for edge in subgraph_id.contains_edges() {\n            endpoints.push(self.topology[edge].left);\n            endpoints.push(self.topology[edge].right);\n        }\n        let num_edges = endpoints.len() / 3;\n        endpoints.sort_unstable();\n        endpoints.dedup();\n        let num_vertices = endpoints.len();\n        1 + num_edges - num_vertices')], C03="C03-f")
mut("C03 bag: dedup forgotten", [(PRE, _EUL_OLD, '        let mut endpoints: Vec<u8> = Vec::new();\n        for edge in subgraph_id.contains_edges() {\n            endpoints.push(self.topology[edge].left);\n            endpoints.push(self.topology[edge].right);\n        }\n        let num_edges = endpoints.len() / 2;\n        endpoints.sort_unstable();\n        \n        let num_vertices = endpoints.len();\n        1 + num_edges - num_vertices')], C03="C03-f")

# ---- wave 10: f64 override of a provided trait method (C20-16) ----
mut("C20 fused f64 override of a provided mul_add used by dot", [(FLO, '    fn PI(&self) -> Self;\n}', '    fn PI(&self) -> Self;\n    fn mul_add(&self, a: &Self, b: &Self) -> Self {\n        self.ref_mul(a) + b\n    }\n}'), (FLO, '    fn abs(&self) -> Self {\n        f64::abs(*self)\n    }\n}', '    fn abs(&self) -> Self {\n        f64::abs(*self)\n    }\n    fn mul_add(&self, a: &Self, b: &Self) -> Self {\n        f64::mul_add(*self, *a, *b)\n    }\n}'), (VEC, '                acc + left.ref_mul(right)', '                left.mul_add(right, &acc)')], C20="C20-a")
mut("N: f64 override of provided mul_add equal to the provided body, used by dot", [(FLO, '    fn PI(&self) -> Self;\n}', '    fn PI(&self) -> Self;\n    fn mul_add(&self, a: &Self, b: &Self) -> Self {\n        self.ref_mul(a) + b\n    }\n}'), (FLO, '    fn abs(&self) -> Self {\n        f64::abs(*self)\n    }\n}', '    fn abs(&self) -> Self {\n        f64::abs(*self)\n    }\n    fn mul_add(&self, a: &Self, b: &Self) -> Self {\n        *self * *a + *b\n    }\n}'), (VEC, '                acc + left.ref_mul(right)', '                left.mul_add(right, &acc)')], C20=None, C09=None)
mut("N: fused f64 override of provided mul_add that no Vector primitive calls", [(FLO, '    fn PI(&self) -> Self;\n}', '    fn PI(&self) -> Self;\n    fn mul_add(&self, a: &Self, b: &Self) -> Self {\n        self.ref_mul(a) + b\n    }\n}'), (FLO, '    fn abs(&self) -> Self {\n        f64::abs(*self)\n    }\n}', '    fn abs(&self) -> Self {\n        f64::abs(*self)\n    }\n    fn mul_add(&self, a: &Self, b: &Self) -> Self {\n        f64::mul_add(*self, *a, *b)\n    }\n}')], C20=None, C09=None, C01=None)
