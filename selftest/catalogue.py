"""Mutation catalogue for the checker self-test. M rows: expect a rule id; N rows: expect None (silent)."""
M = []
def mut(name, edits, **expect):
    M.append({"name": name, "edits": edits, "expect": expect})

PRE = "src/preprocessing.rs"; SAM = "src/sampling.rs"; MAT = "src/matrix.rs"; GAM = "src/gamma.rs"; LIB = "src/lib.rs"; VEC = "src/vector.rs"; FLO = "src/float.rs"; RNG = "src/mimic_rng.rs"

# ---- C16 ----
mut("C16 revert ZeroDet fix", [(MAT, "if determinant == const_builder.zero() {", "if det_q == const_builder.zero() {")], C16="C16-a")
mut("C16 revert stability fix", [(MAT, "if !(error <= error.from_f64(tolerance)) {", "if error > error.from_f64(tolerance) {")], C16="C16-b")
mut("C16 skip stability test when dim==1", [(MAT, "if let Some(tolerance) = settings.matrix_stability_test {", "if let (Some(tolerance), true) = (settings.matrix_stability_test, self.dim > 1) {")], C16="C16-b")
mut("C16 sample passes default settings", [(SAM, "l_matrix.decompose_for_tropical(settings)", "l_matrix.decompose_for_tropical(&TropicalSamplingSettings::default())")], C16="C16-c")
mut("C16 tested product uses q_transposed_inverse", [(MAT, "let approx_idendity = &inverse * self;", "let approx_idendity = &q_transposed_inverse * self;")], C16="C16-b")
mut("C16 N: le with swapped operands (tol >= error)", [(MAT, "if !(error <= error.from_f64(tolerance)) {", "if !(error.from_f64(tolerance) >= error) {")], C16=None)
mut("C16 N: ne-form ZeroDet guard", [(MAT, "if determinant == const_builder.zero() {\n            return Err(MatrixError::ZeroDet);\n        }", "if determinant != const_builder.zero() {\n        } else {\n            return Err(MatrixError::ZeroDet);\n        }")], C16=None)
# ---- C12 ----
mut("C12 revert fix", [(GAM, "if !(res.is_finite() && res > 0.0) {", "if res.is_nan() {")], C12="C12-a")
mut("C12 only positivity (inf passes)", [(GAM, "if !(res.is_finite() && res > 0.0) {", "if !(res > 0.0) {")], C12="C12-a")
mut("C12 shape from smallest dod", [(SAM, "&const_builder.from_f64(tropical_subgraph_table.tropical_graph.dod),\n        mimic_rng", "&const_builder.from_f64(tropical_subgraph_table.get_smallest_dod()),\n        mimic_rng")], C12="C12-b")
mut("C12 N: equivalent guard form", [(GAM, "if !(res.is_finite() && res > 0.0) {\n        Err(GammaError {})\n    } else {\n        Ok(a.from_f64(res))\n    }", "if res.is_finite() && 0.0 < res {\n        Ok(a.from_f64(res))\n    } else {\n        Err(GammaError {})\n    }")], C12=None)
# ---- C06 ----
mut("C06 revert fix (drop fallback)", [(PRE, "        if uniform < &uniform.one() {\n            if let Some(last) = last_edge {\n                return last;\n            }\n        }\n", "")], C06="C06-a")
mut("C06 >= becomes >", [(PRE, "if &cum_sum >= uniform {", "if &cum_sum > uniform {")], C06="C06-b")
mut("C06 read in one-edge branch", [(SAM, "let graph_without_edge = graph.pop_edge(edge);\n            (edge, graph_without_edge)", "let graph_without_edge = graph.pop_edge(edge);\n            let _ = rng.get_random_number(None);\n            (edge, graph_without_edge)")], C06="C06-c")
mut("C06 reversed scan", [(PRE, "(0..self.num_edges).filter(|&i| self.has_edge(i))", "(0..self.num_edges).rev().filter(|&i| self.has_edge(i))")], C06="C06-b")
mut("C06 N: uniform <= cum_sum", [(PRE, "if &cum_sum >= uniform {", "if uniform <= &cum_sum {")], C06=None)
# ---- C18 ----
mut("C18 serde(skip) on cached_factor", [(PRE, "    pub cached_factor: f64,\n}", "    #[serde(skip)]\n    pub cached_factor: f64,\n}")], C18="C18-")
mut("C18 serde(default) on dimension", [(PRE, "    pub dimension: usize,\n    pub tropical_graph", "    #[serde(default)]\n    pub dimension: usize,\n    pub tropical_graph")], C18="C18-c")
mut("C18 skip_serializing_if", [(PRE, "    pub num_loops: usize,\n}", "    #[serde(skip_serializing_if = \"is_zero_usize\")]\n    pub num_loops: usize,\n}\nfn is_zero_usize(x: &usize) -> bool { *x == 0 }")], C18="C18-")
mut("C18 N: rename", [(PRE, "    pub table: Vec<TropicalSubgraphTableEntry>,", "    #[serde(rename = \"tbl\")]\n    pub table: Vec<TropicalSubgraphTableEntry>,")], C18=None)
mut("C18 rename only for serialize", [(PRE, "    pub table: Vec<TropicalSubgraphTableEntry>,", "    #[serde(rename(serialize = \"tbl\"))]\n    pub table: Vec<TropicalSubgraphTableEntry>,")], C18="C18-c")

MUTATIONS = M
