//! Deliberately violating constructs: every zero-count detector of the checker must fire here on every run
//! (a rule that matches nothing on momtrop would otherwise pass vacuously forever).  Never linked into anything.
#![allow(dead_code, static_mut_refs)]
use std::cell::Cell;
use std::collections::HashSet;
use std::sync::atomic::{AtomicUsize, Ordering};

pub mod float {
    pub trait MomTropFloat: Sized {
        fn to_f64(&self) -> f64;
        fn from_f64(&self, v: f64) -> Self;
    }
}
use float::MomTropFloat;

static COUNTER: AtomicUsize = AtomicUsize::new(0);
static mut SCRATCH: usize = 0;
thread_local! { static TL: Cell<usize> = const { Cell::new(0) }; }

pub struct WithCell {
    pub hits: Cell<usize>,
    pub data: Vec<f64>,
}

/// ambient state: atomics, time, thread-local
pub fn ambient(w: &WithCell) -> usize {
    let n = COUNTER.fetch_add(1, Ordering::Relaxed);
    let t = std::time::Instant::now();
    w.hits.set(w.hits.get() + 1);
    TL.with(|c| c.set(n));
    let _ = t.elapsed();
    unsafe {
        SCRATCH += 1;
        SCRATCH
    }
}

/// hash-iteration order leaking into a float sum
pub fn hash_order_sum(weights: &[f64], ids: &[usize]) -> f64 {
    let mut s: HashSet<usize> = HashSet::default();
    for &i in ids {
        s.insert(i);
    }
    let mut acc = 0.0;
    for i in s.iter() {
        acc += weights[*i];
    }
    acc
}

/// narrowing through f64 in generic code
pub fn narrow<T: MomTropFloat>(x: &T) -> T {
    x.from_f64(x.to_f64().sqrt())
}

/// unguarded stdout
pub fn chatty(x: f64) {
    println!("x = {x}");
}

/// planted: every kind of panicking construct the C12-e scan looks for (index, unwrap, explicit assertion on the argument)
pub fn panicky(a: f64, table: &[f64]) -> f64 {
    assert!(a > 1.0, "explicit panic reachable for a positive argument");
    let k = a as usize;
    let first = table.iter().copied().find(|v| *v > a).unwrap();
    table[k] + first
}

/// planted: a second Err on a build path (C05-e) and a panic decided by a coordinate's value (C06-f)
pub fn value_guarded(xs: &[f64]) -> Result<f64, String> {
    if xs.iter().all(|x| *x > 0.0) {
        panic!("a coordinate is zero");
    }
    if xs.len() > 3 {
        return Err("too long".to_string());
    }
    Ok(xs[0])
}

/// engine self-test: a conditional accumulation inside a summarised loop must stay conditional
pub fn cond_sum(xs: &[f64], marks: &[f64]) -> f64 {
    let mut acc = 0.0;
    for i in 0..xs.len() {
        if marks[i] > 0.5 {
            acc += xs[i];
        }
    }
    acc
}
