"""CLI: python -m mtsa.main <ID> [--tier quick|thorough] | --explain reports/<ID>.json"""
import argparse
import importlib
import json
import os
import sys
import time
import traceback

from . import core
from .roles import Roles

# property id -> (level, explanation of what is decided, assumptions)
from .claims import CLAIMS


def run_check(pid, tier, seed):
    t0 = time.time()
    claim = CLAIMS[pid]
    ctx = core.Ctx(pid, tier, seed)
    mod = importlib.import_module("mtsa.rules.%s" % pid.lower())
    cfgs = ["", "log"] if os.environ.get("MTSA_CFGS", "both") == "both" else [""]
    for feats in cfgs:
        facts = core.ensure_facts(feats)
        sub = run_pass(pid, tier, seed, mod, facts, feats)
        # Fallback: the rules are phrased on the role functions' bodies; when the program as written raises something, helper
        # functions extracted from a role function (single call site, private, pinned by no role resolver) are inlined there —
        # a semantics-preserving normal form — and the rules run again, up to three rounds (helpers of helpers).  The verdict is
        # the normal form's when it is clean; otherwise the report on the program as written stands.
        if sub.violations and os.environ.get("MTSA_INLINE", "1") != "0":
            from . import pins
            cur, inlined = sub, []
            for _round in range(3):
                try:
                    nf, done = pins.inline_round(cur, requests=[v_.fn for v_ in cur.violations])
                except Exception:
                    traceback.print_exc()
                    break
                if not done:
                    break
                inlined += done
                cur = run_pass(pid, tier, seed, mod, nf, feats)
                if not cur.violations:
                    break
            if inlined and not cur.violations:
                cur.note("[%s] clean after inlining extracted helpers into their single call site: %s" % (feats or "default", inlined))
                sub = cur
            elif inlined:
                sub.note("[%s] helper inlining tried (%s): still %d violation(s) on the normal form" % (feats or "default", inlined, len(cur.violations)))
        merge_ctx(ctx, sub)
    if tier == "thorough" and hasattr(mod, "thorough"):
        try:
            mod.thorough(ctx)
        except Exception as e:
            traceback.print_exc()
            ctx.lost("internal", "thorough-tier error in %s: %s: %s" % (pid, type(e).__name__, e))
    extra = None
    if tier == "thorough":
        extra = liveness_sweep(ctx, pid)
    return core.finish(ctx, claim["level"], claim["explanation"], claim["assumptions"], t0, extra)


def run_pass(pid, tier, seed, mod, facts, feats):
    from . import roles as _roles
    del _roles.WANTED[:]
    sub = core.Ctx(pid, tier, seed)
    sub.cfg = feats or "default"
    sub.facts = facts
    sub.roles = Roles(facts)
    try:
        mod.run(sub)
    except Exception as e:  # fail closed: an analysis crash is not a pass
        traceback.print_exc()
        sub.lost("internal", "analysis error in %s: %s: %s" % (pid, type(e).__name__, e))
    return sub


def merge_ctx(ctx, sub):
    ctx.violations += sub.violations
    ctx.obligations += sub.obligations
    ctx.functions |= sub.functions
    ctx.notes += sub.notes
    ctx.rules_text.update(sub.rules_text)
    ctx.cfg, ctx.facts, ctx.roles = sub.cfg, sub.facts, sub.roles


def liveness_sweep(ctx, pid):
    """Thorough tier: apply this property's rows of the mutation catalogue, one at a time, to a scratch copy of /repo's current tree
    (outside /repo and /verif, removed immediately), re-extract facts and require the rules to fire on every M row and stay silent on
    every N row.  Source analysis only; a row whose edit no longer applies is skipped and listed."""
    import shutil
    import subprocess
    import tempfile
    sys.path.insert(0, os.path.join(core.VERIF, "selftest"))
    from catalogue import MUTATIONS
    ctx.rule("liveness", "mutation sweep: every catalogued breaking edit for this property makes its rule fire; every behaviour-preserving edit stays silent")
    ctx.cfg = "sweep"
    rows = [m for m in MUTATIONS if pid in m["expect"]]
    skipped, done = [], 0

    def do_row(m):
        tmp = tempfile.mkdtemp(prefix="mtsa-sweep-")
        try:
            for f in ("src", "benches", "tests", "Cargo.toml", "Cargo.lock"):
                s_ = os.path.join(core.REPO, f)
                if os.path.exists(s_):
                    (shutil.copytree if os.path.isdir(s_) else shutil.copy)(s_, os.path.join(tmp, f))
            for ed in m["edits"]:
                if ed[0] == "re":
                    import glob
                    import re as _re
                    hits = 0
                    for p_ in glob.glob(os.path.join(tmp, "src", "*.rs")) + glob.glob(os.path.join(tmp, "tests", "*.rs")) + glob.glob(os.path.join(tmp, "benches", "*.rs")):
                        if len(ed) > 3 and not p_.endswith(ed[3]):
                            continue
                        txt = open(p_).read()
                        new_txt, n_ = _re.subn(ed[1], ed[2], txt)
                        hits += n_
                        if n_:
                            open(p_, "w").write(new_txt)
                    if hits == 0:
                        return ("skip", m["name"])
                    continue
                (fn, old_, new_) = ed
                p_ = os.path.join(tmp, fn)
                txt = open(p_).read()
                if txt.count(old_) != 1:
                    return ("skip", m["name"])
                open(p_, "w").write(txt.replace(old_, new_))
            env = dict(os.environ, MTSA_REPO=tmp, MTSA_EVIDENCE_DIR=os.path.join(tmp, "evidence"), VERIF_TIER="quick")
            r = subprocess.run([os.path.join(core.VERIF, "bin/check"), pid, "--tier", "quick"], capture_output=True, text=True, env=env)
            out = r.stdout + r.stderr
            if "fact extraction failed" in out:
                return ("skip", m["name"] + " (mutant does not compile on this tree)")
            fired = [l.strip() for l in out.splitlines() if l.strip().startswith("violation rule=")]
            return ("done", r.returncode, fired)
        finally:
            shutil.rmtree(tmp, ignore_errors=True)
    from concurrent.futures import ThreadPoolExecutor
    with ThreadPoolExecutor(int(os.environ.get("MTSA_JOBS", "8"))) as ex:
        results = list(ex.map(do_row, rows))
    for m, res in zip(rows, results):
        want = m["expect"][pid]
        if res[0] == "skip":
            skipped.append(res[1])
            continue
        _k, rc, fired = res
        done += 1
        if want is None:
            ctx.ob("liveness", "N: `%s` leaves %s silent" % (m["name"], pid), rc == 0, "selftest", "false-alarm-on:" + m["name"],
                   detail="the behaviour-preserving edit raised: %s" % "; ".join(fired)[:400])
        else:
            hit = [l for l in fired if want in l]
            ctx.ob("liveness", "M: `%s` makes rule %s* fire" % (m["name"], want), rc == 1 and bool(hit), "selftest", "missed-mutant:" + m["name"],
                   detail="exit %d; fired: %s" % (rc, "; ".join(fired)[:400]))
    ctx.note("liveness sweep: %d rows applied, %d skipped: %s" % (done, len(skipped), skipped))
    seeds = seed_sweep(ctx, pid)
    neutral = neutral_sweep(ctx, pid)
    return {"liveness_rows": done, "liveness_skipped": skipped, "seeded_changes": seeds, "neutral_refactors": neutral}


def neutral_sweep(ctx, pid):
    """Thorough tier: the independently produced behaviour-preserving refactorings (neutral/<name>/patch.diff) are applied one at a
    time to a scratch copy of /repo's current tree; this property's check must stay silent on every one that neutral/RESULTS.json
    records as silent for it (the recorded exceptions are the known incompleteness listed in DESIGN section 17)."""
    import json
    import shutil
    import subprocess
    import tempfile
    ndir = os.path.join(core.VERIF, "neutral")
    rp = os.path.join(ndir, "RESULTS.json")
    if not os.path.exists(rp):
        return {"applied": [], "note": "no neutral/RESULTS.json"}
    rec = json.load(open(rp))
    ctx.rule("neutral", "every stored behaviour-preserving refactoring recorded as silent for this property leaves the check silent")
    todo = [n for n in sorted(rec) if pid not in rec[n].get("alarms", []) and os.path.exists(os.path.join(ndir, n, "patch.diff"))]
    known = [n for n in sorted(rec) if pid in rec[n].get("alarms", [])]

    def do_one(n):
        tmp = tempfile.mkdtemp(prefix="mtsa-neutral-")
        try:
            for f in ("src", "benches", "tests", "Cargo.toml", "Cargo.lock"):
                s_ = os.path.join(core.REPO, f)
                if os.path.exists(s_):
                    (shutil.copytree if os.path.isdir(s_) else shutil.copy)(s_, os.path.join(tmp, f))
            subprocess.run(["git", "init", "-q"], cwd=tmp)
            r = subprocess.run(["git", "apply", os.path.join(ndir, n, "patch.diff")], cwd=tmp, capture_output=True, text=True)
            if r.returncode != 0:
                return ("skip",)
            env = dict(os.environ, MTSA_REPO=tmp, MTSA_EVIDENCE_DIR=os.path.join(tmp, "evidence"))
            rr = subprocess.run([os.path.join(core.VERIF, "bin/check"), pid, "--tier", "quick"], capture_output=True, text=True, env=env)
            fired = [l.strip() for l in rr.stdout.splitlines() if l.strip().startswith("violation rule=")]
            return ("done", rr.returncode, fired)
        finally:
            shutil.rmtree(tmp, ignore_errors=True)
    from concurrent.futures import ThreadPoolExecutor
    with ThreadPoolExecutor(int(os.environ.get("MTSA_JOBS", "8"))) as ex:
        results = list(ex.map(do_one, todo))
    out = {"applied": [], "skipped": [], "known_incomplete": known}
    for n, res in zip(todo, results):
        if res[0] == "skip":
            out["skipped"].append(n)
            continue
        out["applied"].append(n)
        ctx.ob("neutral", "behaviour-preserving refactoring %s leaves %s silent" % (n, pid), res[1] == 0, "neutral/" + n, "false-alarm-on-refactor:" + n,
               detail="raised: %s" % "; ".join(res[2])[:400])
    ctx.note("neutral sweep: %s" % out)
    return out


def seed_sweep(ctx, pid):
    """Thorough tier: the independently seeded breaking changes kept for this property (seeded/<id>/patch.diff) are applied one at a time
    to a scratch copy of /repo's current tree; the check must report each one that it is recorded to catch.  A patch that no longer
    applies is skipped and listed; a seed recorded as not caught (value-level) is listed, never counted as a pass."""
    import json
    import shutil
    import subprocess
    import tempfile
    ctx.rule("seeds", "every seeded change recorded as caught (seeded/*/meta.json) is reported again on a scratch copy with the patch applied")
    out = {"applied": [], "skipped": [], "recorded_misses": []}
    sdir = os.path.join(core.VERIF, "seeded")
    todo = []
    for d in sorted(os.listdir(sdir)):
        mp = os.path.join(sdir, d, "meta.json")
        if not os.path.exists(mp):
            continue
        meta = json.load(open(mp))
        if meta.get("property") != pid:
            continue
        if not (meta.get("detected_by") or {}).get("own_check"):
            out["recorded_misses"].append(d)
            continue
        todo.append((d, meta))

    def do_seed(dm):
        d, meta = dm
        tmp = tempfile.mkdtemp(prefix="mtsa-seed-")
        try:
            for f in ("src", "benches", "tests", "Cargo.toml", "Cargo.lock"):
                s_ = os.path.join(core.REPO, f)
                if os.path.exists(s_):
                    (shutil.copytree if os.path.isdir(s_) else shutil.copy)(s_, os.path.join(tmp, f))
            subprocess.run(["git", "init", "-q"], cwd=tmp)
            r = subprocess.run(["git", "apply", os.path.join(sdir, d, "patch.diff")], cwd=tmp, capture_output=True, text=True)
            if r.returncode != 0:
                return ("skip",)
            env = dict(os.environ, MTSA_REPO=tmp, MTSA_EVIDENCE_DIR=os.path.join(tmp, "evidence"))
            rr = subprocess.run([os.path.join(core.VERIF, "bin/check"), pid, "--tier", "quick"], capture_output=True, text=True, env=env)
            fired = [l.strip() for l in rr.stdout.splitlines() if l.strip().startswith("violation rule=")]
            return ("done", rr.returncode, fired)
        finally:
            shutil.rmtree(tmp, ignore_errors=True)
    from concurrent.futures import ThreadPoolExecutor
    with ThreadPoolExecutor(int(os.environ.get("MTSA_JOBS", "8"))) as ex:
        results = list(ex.map(do_seed, todo))
    for (d, meta), res in zip(todo, results):
        if res[0] == "skip":
            out["skipped"].append(d)
            continue
        out["applied"].append(d)
        ctx.ob("seeds", "seeded change %s (%s) is reported" % (d, meta.get("needs_to_manifest", "")[:80]), res[1] == 1 and bool(res[2]), "seeded/" + d,
               "seed-not-reported:" + d, detail="exit %d" % res[1])
    ctx.note("seed sweep: %s" % out)
    return out


def main():
    ap = argparse.ArgumentParser()
    ap.add_argument("pid", nargs="?")
    ap.add_argument("--tier", default=os.environ.get("VERIF_TIER", "quick"))
    ap.add_argument("--explain")
    a = ap.parse_args()
    seed = int(os.environ.get("VERIF_SEED", "0") or 0)
    if a.explain:
        rep = json.load(open(a.explain))
        pid = rep["property"]
        print("report %s (recorded):" % a.explain)
        for v in rep["violations"]:
            print("  rule=%s fn=%s construct=%s at %s\n     %s" % (v["rule"], v["function"], v["construct"], v["where"], v["message"]))
        print("re-running %s on the current tree:" % pid)
        sys.exit(run_check(pid, rep.get("tier", "quick"), seed))
    if not a.pid or a.pid not in CLAIMS:
        print("usage: bin/check <ID> [--tier quick|thorough]; claimed ids: %s" % " ".join(sorted(CLAIMS)))
        sys.exit(2)
    tier = a.tier if a.tier in ("quick", "thorough") else "quick"
    sys.exit(run_check(a.pid, tier, seed))


if __name__ == "__main__":
    main()
