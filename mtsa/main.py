"""CLI: python -m mtsa.main <ID> [--tier quick|thorough] | --explain reports/<ID>.json"""
import argparse
import importlib
import json
import os
import sys
import time
import traceback

from . import core
from .roles import Roles

# property id -> (level, explanation of what is decided, assumptions)
from .claims import CLAIMS


def run_check(pid, tier, seed):
    t0 = time.time()
    claim = CLAIMS[pid]
    ctx = core.Ctx(pid, tier, seed)
    mod = importlib.import_module("mtsa.rules.%s" % pid.lower())
    cfgs = [""] if tier == "quick" else ["", "log"]
    for feats in cfgs:
        facts = core.ensure_facts(feats)
        ctx.cfg = feats or "default"
        ctx.facts = facts
        ctx.roles = Roles(facts)
        try:
            mod.run(ctx)
        except Exception as e:  # fail closed: an analysis crash is not a pass
            traceback.print_exc()
            ctx.lost("internal", "analysis error in %s: %s: %s" % (pid, type(e).__name__, e))
    if tier == "thorough" and hasattr(mod, "thorough"):
        try:
            mod.thorough(ctx)
        except Exception as e:
            traceback.print_exc()
            ctx.lost("internal", "thorough-tier error in %s: %s: %s" % (pid, type(e).__name__, e))
    return core.finish(ctx, claim["level"], claim["explanation"], claim["assumptions"], t0)


def main():
    ap = argparse.ArgumentParser()
    ap.add_argument("pid", nargs="?")
    ap.add_argument("--tier", default=os.environ.get("VERIF_TIER", "quick"))
    ap.add_argument("--explain")
    a = ap.parse_args()
    seed = int(os.environ.get("VERIF_SEED", "0") or 0)
    if a.explain:
        rep = json.load(open(a.explain))
        pid = rep["property"]
        print("report %s (recorded):" % a.explain)
        for v in rep["violations"]:
            print("  rule=%s fn=%s construct=%s at %s\n     %s" % (v["rule"], v["function"], v["construct"], v["where"], v["message"]))
        print("re-running %s on the current tree:" % pid)
        sys.exit(run_check(pid, rep.get("tier", "quick"), seed))
    if not a.pid or a.pid not in CLAIMS:
        print("usage: bin/check <ID> [--tier quick|thorough]; claimed ids: %s" % " ".join(sorted(CLAIMS)))
        sys.exit(2)
    tier = a.tier if a.tier in ("quick", "thorough") else "quick"
    sys.exit(run_check(a.pid, tier, seed))


if __name__ == "__main__":
    main()
