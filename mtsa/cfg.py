"""CFG analyses on exported MIR bodies (no unwind edges unless asked)."""


def _order(body, entry=0):
    """Reverse post-order of blocks reachable from entry."""
    succ = body.succs()
    seen = set()
    post = []
    stack = [(entry, iter(succ[entry]))]
    seen.add(entry)
    while stack:
        b, it = stack[-1]
        adv = False
        for s in it:
            if s not in seen:
                seen.add(s)
                stack.append((s, iter(succ[s])))
                adv = True
                break
        if not adv:
            post.append(b)
            stack.pop()
    return list(reversed(post))


def dominators(body, entry=0):
    """Immediate dominators (Cooper-Harvey-Kennedy). Returns dict block -> idom (entry -> entry)."""
    rpo = _order(body, entry)
    idx = {b: i for i, b in enumerate(rpo)}
    preds = body.preds()
    idom = {entry: entry}
    changed = True
    while changed:
        changed = False
        for b in rpo[1:]:
            ps = [p for p in preds[b] if p in idom]
            if not ps:
                continue
            new = ps[0]
            for p in ps[1:]:
                a, c = p, new
                while a != c:
                    while idx[a] > idx[c]:
                        a = idom[a]
                    while idx[c] > idx[a]:
                        c = idom[c]
                new = a
            if idom.get(b) != new:
                idom[b] = new
                changed = True
    return idom


def dominates(idom, a, b):
    """a dominates b"""
    if b not in idom:
        return False
    while True:
        if a == b:
            return True
        nb = idom[b]
        if nb == b:
            return False
        b = nb


def acyclic_succs(body):
    """Successor lists with loop back edges (b -> h, h dominates b) removed: one iteration at a time."""
    idom = dominators(body)
    out = []
    for b, ss in enumerate(body.succs()):
        out.append([h for h in ss if not (b in idom and dominates(idom, h, b))])
    return out


def post_dominators(body, acyclic=False):
    """Immediate post-dominators over the non-unwind CFG with a virtual exit (-1) that every
    return / diverging block flows to.  With acyclic=True back edges are cut first (a block whose
    only successors were back edges flows to the virtual exit)."""
    n = len(body.blocks)
    succ = acyclic_succs(body) if acyclic else body.succs()
    exits = [i for i in range(n) if not succ[i] and not body.blocks[i]["cleanup"]]
    # reverse graph
    rsucc = {i: [] for i in range(n)}
    rsucc[-1] = list(exits)
    for i in range(n):
        for s in succ[i]:
            rsucc[s].append(i)
    rpred = {i: list(succ[i]) for i in range(n)}
    for e in exits:
        rpred[e] = [-1]
    rpred[-1] = []
    # rpo on reverse graph
    seen = {-1}
    post = []
    stack = [(-1, iter(rsucc[-1]))]
    while stack:
        b, it = stack[-1]
        adv = False
        for s in it:
            if s not in seen:
                seen.add(s)
                stack.append((s, iter(rsucc[s])))
                adv = True
                break
        if not adv:
            post.append(b)
            stack.pop()
    rpo = list(reversed(post))
    idx = {b: i for i, b in enumerate(rpo)}
    ipdom = {-1: -1}
    changed = True
    while changed:
        changed = False
        for b in rpo[1:]:
            ps = [p for p in rpred[b] if p in ipdom]
            if not ps:
                continue
            new = ps[0]
            for p in ps[1:]:
                a, c = p, new
                while a != c:
                    while idx[a] > idx[c]:
                        a = ipdom[a]
                    while idx[c] > idx[a]:
                        c = ipdom[c]
                new = a
            if ipdom.get(b) != new:
                ipdom[b] = new
                changed = True
    return ipdom


def control_deps(body, acyclic=False):
    """Control dependence: dict block -> set of (switch_block, succ) edges it is control
    dependent on (Ferrante et al., via post-dominators)."""
    ipdom = post_dominators(body, acyclic)
    cd = {i: set() for i in range(len(body.blocks))}
    succ = acyclic_succs(body) if acyclic else body.succs()
    for a in range(len(body.blocks)):
        if len(succ[a]) < 2:
            continue
        if a not in ipdom:
            continue
        for s in succ[a]:
            # walk from s up the post-dominator tree until ipdom(a)
            stop = ipdom[a]
            cur = s
            guard = 0
            while cur != stop and cur != -1 and guard < 10000:
                cd[cur].add((a, s))
                if cur not in ipdom:
                    break
                cur = ipdom[cur]
                guard += 1
    return cd


def transitive_control_deps(body, acyclic=False):
    cd = control_deps(body, acyclic)
    out = {}
    for b in cd:
        seen = set()
        work = list(cd[b])
        while work:
            e = work.pop()
            if e in seen:
                continue
            seen.add(e)
            for e2 in cd[e[0]]:
                if e2 not in seen:
                    work.append(e2)
        out[b] = seen
    return out


def reach_avoiding_edges(body, start, avoid_edges=frozenset(), avoid_blocks=frozenset()):
    return body.reachable_from(start, avoid=avoid_blocks, avoid_edges=avoid_edges)


def must_pass_edges(body, target, entry=0, candidates=None):
    """Edges (a,b) such that every path entry->target crosses (a,b)."""
    succ = body.succs()
    out = []
    base = body.reachable_from(entry)
    if target not in base:
        return out
    for a in range(len(body.blocks)):
        if len(succ[a]) < 2:
            continue
        for b in succ[a]:
            if candidates is not None and (a, b) not in candidates:
                continue
            r = body.reachable_from(entry, avoid_edges=frozenset([(a, b)]))
            if target not in r:
                out.append((a, b))
    return out


def loops(body):
    """Natural loops: list of (header, set(blocks)) from back edges (b -> h with h dom b)."""
    idom = dominators(body)
    out = []
    preds = body.preds()
    for b, ss in enumerate(body.succs()):
        for h in ss:
            if b in idom and dominates(idom, h, b):
                # natural loop of back edge b->h
                blocks = {h, b}
                st = [b]
                while st:
                    x = st.pop()
                    if x == h:
                        continue
                    for p in preds[x]:
                        if p not in blocks:
                            blocks.add(p)
                            st.append(p)
                out.append((h, blocks))
    # merge loops with same header
    merged = {}
    for h, bl in out:
        merged.setdefault(h, set()).update(bl)
    return list(merged.items())
