"""Reachability under an interval assumption on ONE f64 parameter (never reassigned): which blocks of a body can be reached when the
parameter lies in a given interval, refining the interval at every branch that compares the parameter with a compile-time constant
(`a < c`, `c <= a`, `(lo..=hi).contains(&a)`, `(lo..hi).contains(&a)`; `&&` / `||` are CFG structure already).

Values are sets of intervals (lo, lo_closed, hi, hi_closed) over the reals; NaN is outside every assumption made here.
Branches on anything else keep the set unchanged on both edges (sound over-approximation of reachability)."""
import math

from .vals import Vals, bool_edges, callee_is
from .f64facts import const_f64

FULL = [(-math.inf, False, math.inf, False)]


def norm(ivs):
    out = []
    for (lo, lc, hi, hc) in sorted(ivs):
        if lo > hi or (lo == hi and not (lc and hc)):
            continue
        if out:
            plo, plc, phi, phc = out[-1]
            if lo < phi or (lo == phi and (lc or phc)):
                if hi > phi or (hi == phi and hc):
                    out[-1] = (plo, plc, hi, hc)
                continue
        out.append((lo, lc, hi, hc))
    return out


def union(a, b):
    return norm(list(a) + list(b))


def intersect(a, b):
    out = []
    for (lo1, lc1, hi1, hc1) in a:
        for (lo2, lc2, hi2, hc2) in b:
            if lo1 > lo2 or (lo1 == lo2 and not lc1):
                lo, lc = lo1, lc1 and (lc2 or lo1 != lo2)
            else:
                lo, lc = lo2, lc2 and (lc1 or lo1 != lo2)
            if hi1 < hi2 or (hi1 == hi2 and not hc1):
                hi, hc = hi1, hc1 and (hc2 or hi1 != hi2)
            else:
                hi, hc = hi2, hc2 and (hc1 or hi1 != hi2)
            out.append((lo, lc, hi, hc))
    return norm(out)


def complement(a):
    out = []
    cur, cur_closed = -math.inf, False
    for (lo, lc, hi, hc) in norm(a):
        out.append((cur, cur_closed, lo, not lc))
        cur, cur_closed = hi, not hc
    out.append((cur, cur_closed, math.inf, False))
    return norm(out)


def subset(a, b):
    return not intersect(a, complement(b))


def const_value(facts, body, v, operand, depth=0):
    """float | ('range', lo, hi, inclusive) | None for a compile-time constant operand (literals, arithmetic on literals through
    single-definition temporaries, promoted range literals)."""
    if depth > 8:
        return None
    c = const_f64(operand)
    if c is not None:
        return c
    if operand["k"] == "const":
        disp = operand.get("disp", "")
        if "promoted[" in disp:
            import re
            m = re.search(r"promoted\[(\d+)\]", disp)
            key = "%s::promoted[%s]" % (body.path.split("::promoted[")[0], m.group(1))
            pb = facts.promoted.get(key)
            if pb is not None:
                return promoted_value(facts, pb)
        return None
    r = v.root(operand)
    if r.kind == "const" and not r.path and "promoted[" in str(r.base[1]):
        return const_value(facts, body, v, {"k": "const", "disp": str(r.base[1])}, depth + 1)
    if r.kind == "local" and not r.path:
        rv = v.rvalue_of(r)
        if rv is None:
            t = v.call_term(r)
            if t is not None:
                return call_value(facts, body, v, t, depth)
            return None
        if rv["k"] == "binop" and rv["op"] in ("Add", "Sub", "Mul", "Div"):
            a = const_value(facts, body, v, rv["a"], depth + 1)
            b = const_value(facts, body, v, rv["b"], depth + 1)
            if isinstance(a, float) and isinstance(b, float):
                try:
                    return {"Add": a + b, "Sub": a - b, "Mul": a * b, "Div": a / b}[rv["op"]]
                except ZeroDivisionError:
                    return None
        if rv["k"] == "cast" and rv.get("kind") in ("FloatToFloat",) and rv.get("ty") == "f64":
            a = rv["op"]
            if a["k"] == "const" and a.get("ty") == "f32" and "bits" in a:
                import struct
                return float(struct.unpack("<f", struct.pack("<I", int(a["bits"]) & 0xFFFFFFFF))[0])
            a = const_value(facts, body, v, a, depth + 1)
            return a if isinstance(a, float) else None
        if rv["k"] == "unop" and rv["op"] == "Neg":
            a = const_value(facts, body, v, rv["a"], depth + 1)
            return -a if isinstance(a, float) else None
        if rv["k"] == "aggregate" and rv.get("adt", "").endswith(("range::Range", "range::RangeInclusive")) and "start" in rv.get("fields", []):
            lo = const_value(facts, body, v, rv["ops"][rv["fields"].index("start")], depth + 1)
            hi = const_value(facts, body, v, rv["ops"][rv["fields"].index("end")], depth + 1)
            if isinstance(lo, float) and isinstance(hi, float):
                return ("range", lo, hi, rv["adt"].endswith("RangeInclusive"))
    if r.kind == "call":
        t = body.blocks[r.base[1]]["term"]
        return call_value(facts, body, v, t, depth)
    return None


def call_value(facts, body, v, t, depth):
    c = t.get("callee") or {}
    if c.get("name") == "new" and "RangeInclusive" in (c.get("path") or "") and len(t["args"]) == 2:
        lo = const_value(facts, body, v, t["args"][0], depth + 1)
        hi = const_value(facts, body, v, t["args"][1], depth + 1)
        if isinstance(lo, float) and isinstance(hi, float):
            return ("range", lo, hi, True)
    return None


def promoted_value(facts, pb):
    """Value of a promoted constant `_0 = &_k` whose `_k` is a range literal (or a float)."""
    v = Vals(pb)
    for bi, blk in enumerate(pb.blocks):
        for st in blk["stmts"]:
            if st["k"] == "assign" and st["place"]["l"] == 0 and not st["place"]["p"]:
                rv = st["rv"]
                if rv["k"] == "ref":
                    return const_value(facts, pb, v, {"k": "copy", "place": rv["place"]}, 1)
                if rv["k"] == "use":
                    return const_value(facts, pb, v, rv["op"], 1)
    return None


def cmp_sets(op, c):
    """(true_set, false_set) of x for `x op c` (reals; NaN not considered)."""
    lt = [(-math.inf, False, c, False)]
    le = [(-math.inf, False, c, True)]
    gt = [(c, False, math.inf, False)]
    ge = [(c, True, math.inf, False)]
    eq = [(c, True, c, True)]
    return {"Lt": (lt, ge), "Le": (le, gt), "Gt": (gt, le), "Ge": (ge, lt), "Eq": (eq, complement(eq)), "Ne": (complement(eq), eq)}[op]


SWAP = {"Gt": "Lt", "Ge": "Le", "Lt": "Gt", "Le": "Ge", "Eq": "Eq", "Ne": "Ne"}


def cond_sets(facts, body, v, cond, target):
    """(true_set, false_set) for a classified bool that inspects `target`, else None."""
    if cond is None:
        return None
    if cond[0] == "not":
        inner = cond_sets(facts, body, v, cond[1], target)
        return (inner[1], inner[0]) if inner else None
    if cond[0] == "binop":
        rv = cond[1]
        if rv["op"] not in SWAP:
            return None
        ra, rb = v.root(rv["a"]), v.root(rv["b"])
        if ra == target:
            c = const_value(facts, body, v, rv["b"])
            return cmp_sets(rv["op"], c) if isinstance(c, float) and not math.isnan(c) else None
        if rb == target:
            c = const_value(facts, body, v, rv["a"])
            return cmp_sets(SWAP[rv["op"]], c) if isinstance(c, float) and not math.isnan(c) else None
        # |target − c0| op c   /   c op |target − c0|
        for side, other, op in (("a", "b", rv["op"]), ("b", "a", SWAP[rv["op"]])):
            centre = abs_distance(facts, body, v, rv[side], target)
            c = const_value(facts, body, v, rv[other])
            if centre is not None and isinstance(c, float) and not math.isnan(c):
                t_d, f_d = cmp_sets(op, c)          # sets of the distance d = |x − c0| >= 0

                def back(dset, _c0=centre):
                    out = []
                    for (lo, lc, hi, hc) in intersect(dset, [(0.0, True, math.inf, False)]):
                        out.append((_c0 + lo, lc, _c0 + hi, hc))
                        out.append((_c0 - hi, hc, _c0 - lo, lc))
                    return norm(out)
                return back(t_d), back(f_d)
        return None
    if cond[0] == "call":
        t = cond[1]
        c = t.get("callee") or {}
        if c.get("name") == "contains" and "range::Range" in (c.get("path") or "") and len(t["args"]) == 2 and v.root(t["args"][1]) == target:
            rg = const_value(facts, body, v, t["args"][0])
            if isinstance(rg, tuple) and rg[0] == "range":
                inside = [(rg[1], True, rg[2], bool(rg[3]))]
                return norm(inside), complement(inside)
        # PartialOrd::lt(&a, &c) style calls
        nm = c.get("name")
        if nm in ("lt", "le", "gt", "ge", "eq", "ne") and (c.get("trait") or "").endswith(("PartialOrd", "PartialEq")) and len(t["args"]) == 2:
            op = nm.capitalize()
            ra, rb = v.root(t["args"][0]), v.root(t["args"][1])
            if ra == target:
                cv = const_value(facts, body, v, t["args"][1])
                return cmp_sets(op, cv) if isinstance(cv, float) else None
            if rb == target:
                cv = const_value(facts, body, v, t["args"][0])
                return cmp_sets(SWAP[op], cv) if isinstance(cv, float) else None
    return None


def abs_distance(facts, body, v, operand, target):
    """c0 when `operand` is |target − c0| (f64::abs of a subtraction of a constant, either order), else None."""
    t = v.call_term(v.root(operand))
    if t is None or (t.get("callee") or {}).get("name") != "abs" or not t["args"]:
        return None
    r = v.root(t["args"][0])
    rv = v.rvalue_of(r) if r.kind == "local" else None
    if rv is None or rv["k"] != "binop" or rv["op"] != "Sub":
        return None
    if v.root(rv["a"]) == target:
        c0 = const_value(facts, body, v, rv["b"])
    elif v.root(rv["b"]) == target:
        c0 = const_value(facts, body, v, rv["a"])
    else:
        return None
    return c0 if isinstance(c0, float) else None


def reach(facts, body, target, init, v=None):
    """dict block -> interval set of the parameter with which the block can be entered (absent = unreachable under `init`)."""
    v = v or Vals(body)
    IN = {0: norm(init)}
    succ = body.succs()
    work = [0]
    while work:
        b = work.pop()
        cur = IN[b]
        t = body.blocks[b]["term"]
        outs = {}
        if t["k"] == "switch":
            cs = cond_sets(facts, body, v, v.classify_bool(t["discr"]), target)
            if cs is not None:
                te, fe = bool_edges(body, b)
                if te is not None:
                    outs[te] = intersect(cur, cs[0])
                    o2 = intersect(cur, cs[1])
                    outs[fe] = union(outs[fe], o2) if fe in outs else o2
        for s in succ[b]:
            o = outs.get(s, cur)
            if not o:
                continue
            old = IN.get(s)
            new = o if old is None else union(old, o)
            if new != old:
                IN[s] = new
                work.append(s)
    return IN
