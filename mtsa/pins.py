"""Which functions play a role for the rules on the program as it stands (used by the helper-inlining fallback, see inline.py).

Every resolver is tried on its own; one that fails contributes nothing.  The result is (pinned bodies, role-bearing functions)."""
from .roles import RoleLost


def _try(fn, out, *a):
    try:
        r = fn(*a)
    except Exception:
        return None
    return r


def collect(ctx):
    R, f = ctx.roles, ctx.facts
    pins = {}

    def pin(b, why):
        if b is not None and hasattr(b, "key"):
            pins.setdefault(b.key, why)

    for name in ("xspace_entry", "rng_entry", "sample", "decompose", "quantile", "build_sampler", "get_dimension", "read_fn"):
        pin(_try(getattr(R, name), None), name)
    rd = _try(R.reader_adt, None)
    if rd:
        pin(rd["ctor"], "reader_ctor")
    from .rules import c06, c14, kernels, c05, common
    pin(_try(c06.find_sector, None, ctx, R), "sector")
    sc = _try(c06.find_scan, None, ctx, R)
    if sc:
        pin(sc[0], "sector")
        pin(sc[1][2], "scan")
    g = _try(c14.find_gauss, None, ctx, R)
    if g:
        pin(g[2], "gauss")
    gb = _try(kernels.gauss_closure_and_bm, None, ctx)
    if gb:
        pin(gb[0], "gauss")
        pin(gb[3], "bm")
    try:
        w = object.__new__(kernels.SampleWorld)
        w.ctx, w.R, w.f = ctx, R, f
        for k, b in w.kernel_roles().items():
            pin(b, k)
    except Exception:
        pass
    br = _try(kernels.builder_roles, None, ctx)
    if br:
        for k, b in zip(("build_sampler", "from_graph", "table_builder", "jrec"), br):
            pin(b, k)
    tb = _try(c05.table_builder, None, R)
    if tb:
        pin(tb[1][2], "table_builder")
    from . import idroles
    for res in (idroles.id_roles, idroles.graph_roles):
        d = _try(res, None, ctx)
        if d:
            for k, b in d.items():
                pin(b, k)
    dec = _try(R.decompose, None)
    if dec is not None:
        for bi, t, cb in R.local_callees(dec):
            if common.is_l21_norm(ctx, cb):
                pin(cb, "l21_norm")
            elif common.is_identity_ctor(ctx, cb):
                pin(cb, "identity")
    q = _try(R.quantile, None)
    if q is not None:
        for bi, t, cb in R.local_callees(q):
            if cb.local_ty(0) == "f64":
                pin(cb, "quantile_f64")
    # methods of the crate's public data-model types are API-like and stay functions; helper structs that a refactor introduces
    # (stage records and the like) are private, so their methods remain candidates
    pub_adts = {a["path"] for a in f.items["adts"] if a.get("pub")}
    # ... except the types that own the API entry points: a private method there is an extracted stage of an entry point
    for name in ("xspace_entry", "rng_entry", "build_sampler"):
        b = _try(getattr(R, name), None)
        if b is not None:
            st = f.ty((f.fns.get(b.path) or {}).get("impl_self") or "") or {}
            pub_adts.discard(st.get("path"))
    for k, b in f.mir.items():
        fi = f.fns.get(b.path) or {}
        st = f.ty(fi.get("impl_self") or "") or {}
        if st.get("k") == "adt" and st.get("path") in pub_adts:
            pins.setdefault(k, "method of a public type")
    gd = _try(R.get_dimension, None)
    if gd is not None:
        for bi, t, cb in R.local_callees(gd):
            pin(cb, "dimension_fn")
    return pins


def inline_round(ctx, requests=()):
    """One round of the fallback: helpers called directly from a role-bearing function (or from a closure rooted in one) that no
    resolver pins are inlined there.  Returns (facts', [paths]) — facts' is ctx.facts when nothing qualifies."""
    from . import inline
    f = ctx.facts
    pins = collect(ctx)
    bearing = set(pins)
    for k, b in f.mir.items():
        fi = f.fns.get(b.path) or {}
        if fi.get("pub") and b.j.get("def_kind") in ("Fn", "AssocFn"):
            bearing.add(k)
    # closures rooted in a role-bearing function count as part of it
    paths = {f.mir[k].path for k in bearing if k in f.mir}
    for k, b in f.mir.items():
        if b.j.get("root") in paths:
            bearing.add(k)
    from . import roles as _roles
    hints = list(_roles.WANTED)
    hard = {k for k, why in pins.items() if why != "method of a public type"}
    # a function that itself contains what a failed resolver was looking for may be inlined even if it is `pub` or a method of a
    # public type (a new accessor on the reader that wraps two reads, say): those pins are only a default
    direct = {k for k, b in f.mir.items() if k not in hard and hints and any(_safe(p, b) for p in hints)}
    # ... and so may a private helper whose only call site lies in a function the failed rules name (an extracted stage of it)
    from .vals import norm_path as _np
    req = {_np(r) for r in requests if r and r not in ("?", "*")}
    in_request = set()
    if req:
        sites, _refs = inline.static_call_sites(f)
        for k, ss in sites.items():
            if k in hard or len(ss) != 1:
                continue
            caller = f.mir.get(ss[0][0])
            if caller is None:
                continue
            root = caller.j.get("root") or caller.path
            if _np(root) in req or _np(caller.path) in req:
                in_request.add(k)
    direct |= in_request
    # a requested helper with two or three callers (a delegate shared by the two entry points) gets one copy per caller
    multi = set()
    if req:
        sites_all, _r = inline.static_call_sites(f)
        for k, ss in sites_all.items():
            if k in hard or not (2 <= len(ss) <= 3):
                continue
            cs = [f.mir.get(c) for c, _b in ss]
            if all(c is not None and (_np(c.j.get("root") or c.path) in req or _np(c.path) in req or c.key in pins) for c in cs):
                if any(_np(c.j.get("root") or c.path) in req or _np(c.path) in req for c in cs):
                    multi.add(k)
    direct |= multi
    cands = inline.candidates(f, (set(pins) - direct) | hard, allow_pub=direct, multi=multi)
    cands = {k: site for k, site in cands.items() if (site[0] in bearing if not isinstance(site, list) else all(c in bearing for c, _b in site))}
    if not cands:
        return f, []
    # demand-driven: when the failed resolvers said what they were looking for, only the helpers that (transitively, through other
    # unpinned helpers) contain it are inlined in this round; without hints every candidate goes in
    if not hints and in_request:
        req_c = {k: site for k, site in cands.items() if k in in_request or k in multi}
        if req_c:
            cands = req_c
    if hints:
        R = ctx.roles

        def matches(b, depth=0):
            if any(_safe(p, b) for p in hints):
                return True
            if depth < 4:
                for _bi, _t, cb in R.local_callees(b):
                    if cb.key not in pins and cb.key != b.key and matches(cb, depth + 1):
                        return True
                for cl in f.closures_of(b.path):
                    if matches(cl, depth + 1):
                        return True
            return False
        chosen = {k: site for k, site in cands.items() if matches(f.mir[k])}
        if not chosen:
            # nothing contains what the resolvers asked for: fall back to the private stages of the functions the failed rules name
            chosen = {k: site for k, site in cands.items() if k in in_request or k in multi}
        # hints that no helper satisfies: what was lost is not hidden in an extracted helper, inlining would only blur the roles
        cands = chosen
        if not cands:
            return f, []
    return inline.inline_selected(f, cands)


def _safe(pred, b):
    try:
        return bool(pred(b))
    except Exception:
        return False
