"""Positive examples for the zero-count rules: the detectors must fire on fixtures/ on every run."""
import os

from . import core
from .facts import Facts
from .vals import callee_is


def fixture_facts():
    repo = os.path.join(core.VERIF, "fixtures")
    old = os.environ.get("MTSA_CRATE")
    os.environ["MTSA_CRATE"] = "mtsa_fixtures"
    try:
        return core.ensure_facts("", repo=repo, tag="fixtures")
    finally:
        if old is None:
            os.environ.pop("MTSA_CRATE", None)
        else:
            os.environ["MTSA_CRATE"] = old


def detectors_alive(ctx, rule, which):
    """which ⊆ {denied, stdout, unsafe, static, cell, hash, to_f64}"""
    from .rules.c17 import DENIED_PREFIXES, STDOUT
    try:
        f = fixture_facts()
    except SystemExit as e:
        return ctx.ob(rule, "fixtures analysed", False, "fixtures", "fixtures-extraction", detail=str(e))
    res = {}
    if "denied" in which or "stdout" in which:
        den, out = set(), 0
        for b in f.mir.values():
            for bi, t in b.calls():
                c = t.get("callee") or {}
                for name in (c.get("resolved") or c.get("path", ""), c.get("path", "")):
                    if any(name.startswith(d) for d in DENIED_PREFIXES):
                        den.add(name)
                    if any(name.startswith(s_) for s_ in STDOUT):
                        out += 1
        res["denied"] = len(den) >= 3
        res["stdout"] = out >= 1
    if "unsafe" in which:
        n = [0]

        def walk(e):
            if isinstance(e, dict):
                if e.get("k") == "block" and e.get("unsafe") and "expn" not in (e.get("span") or {}):
                    n[0] += 1
                for v_ in e.values():
                    walk(v_)
            elif isinstance(e, list):
                for x in e:
                    walk(x)
        for th in f.thir.values():
            walk(th["body"])
        res["unsafe"] = n[0] >= 1
    if "static" in which:
        st = f.items["statics"]
        res["static"] = any(s_["mut"] for s_ in st) and any(not s_["freeze"] for s_ in st) and any(s_["thread_local"] for s_ in st)
    if "cell" in which:
        tg = f.items["tygraph"]
        res["cell"] = any(nd.get("unsafe_cell") for nd in tg.values()) and any(k.startswith("WithCell") for k in tg)
    if "hash" in which:
        from .flow import Flow
        from .roles import Roles
        fl = Flow(f, Roles(f), track_hash=True)
        b = [x for x in f.mir.values() if x.path.endswith("hash_order_sum")]
        res["hash"] = bool(b) and any(s_[0] == "hash" for s_ in fl.summary(b[0]).ret)
    if "to_f64" in which:
        n_ = sum(1 for b in f.mir.values() for bi, t in b.calls() if callee_is(t, trait="MomTropFloat", name="to_f64"))
        res["to_f64"] = n_ >= 1
    if "panic" in which:
        from .rules.c12 import panic_sites
        b = [x for x in f.mir.values() if x.path.endswith("panicky")]
        kinds = set(k_ for k_, _w, _b in panic_sites(f, b[0])) if b else set()
        res["panic"] = {"assert:BoundsCheck", "call:unwrap", "panic"} <= kinds
    if "value-panic" in which or "err-site" in which:
        from . import pat
        b = [x for x in f.mir.values() if x.path.endswith("value_guarded")]
        res["err-site"] = bool(b) and len(pat.result_ctor_sites(b[0], "Err")) == 1
        ok = False
        if b:
            from .flow import Flow
            from .roles import Roles
            from . import cfg
            fl = Flow(f, Roles(f), follow_control=False, ignore_len=True)
            dd = fl.deps_of(b[0])
            for sb, blk in enumerate(b[0].blocks):
                t = blk["term"]
                if not blk["cleanup"] and t["k"] == "switch" and t["discr"]["k"] in ("copy", "move"):
                    if any(x[0] == "param" and x[1] == 1 for x in dd["close"](("n", t["discr"]["place"]["l"], None))):
                        ok = ok or bool(pat.panic_blocks(b[0]))
        res["value-panic"] = ok
    for k in sorted(which):
        ctx.ob(rule, "detector `%s` fires on the fixtures crate (zero-count rule is not vacuous)" % k, bool(res.get(k)), "fixtures", "detector-dead:" + k,
               detail="the detector found nothing in fixtures/src/lib.rs where a violating construct is planted")
