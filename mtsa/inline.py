"""MIR-level inlining of helper functions (normal form of the program for rules that are phrased on the role functions' bodies).

A maintainer who extracts `sample_lambda(..)`, `pick_edge(..)` or `cholesky_stage(..)` from a role function changes no behaviour;
rules that reason on the CFG / dataflow of the role function would lose their anchors.  Inlining is semantics-preserving, so the
inlined program is as valid an object of analysis as the original one.  Policy (see main.run_check): only when the first pass over
the program as written raises something, and only functions that are
  * defined in the crate, plain `fn` / inherent method (no trait impl method, no closure), not `pub`,
  * called from exactly one static call site in the crate, not recursive,
  * not pinned as a role by any role resolver that succeeds on the program as written.
Unwind edges are kept as they are (the analyses ignore them)."""
import copy

from .facts import Facts, Body
from .vals import norm_path


def _remap(x, lbase, bbase):
    """Rewrite local indices in places / index projections (in place) of a callee fragment."""
    if isinstance(x, dict):
        if "l" in x and "p" in x and isinstance(x["p"], list):
            x["l"] += lbase
            for e in x["p"]:
                if isinstance(e, dict) and e.get("k") == "index" and "l" in e:
                    e["l"] += lbase
            return
        for v in x.values():
            _remap(v, lbase, bbase)
    elif isinstance(x, list):
        for v in x:
            _remap(v, lbase, bbase)


def inline_call(caller_j, bi, callee_j):
    """Splice callee_j into caller_j at the call terminating block bi (caller_j is modified in place)."""
    call = caller_j["blocks"][bi]["term"]
    lbase = len(caller_j["locals"])
    bbase = len(caller_j["blocks"])
    for l in callee_j["locals"]:
        nl = dict(l)
        nl["i"] = l["i"] + lbase
        if "name" in nl:
            nl["name"] = nl["name"]
        nl["inlined_from"] = callee_j["path"]
        caller_j["locals"].append(nl)
    span = call.get("span")
    # parameter passing
    stmts = caller_j["blocks"][bi]["stmts"]
    closure_env = None
    if callee_j.get("def_kind") == "Closure":
        # `Fn::call(&closure, (a, b))`: the body takes (&closure, a, b) — the argument tuple is spread
        if len(call["args"]) != 2 or call["args"][1].get("k") not in ("copy", "move"):
            raise ValueError("closure call shape")
        stmts.append({"k": "assign", "place": {"l": lbase + 1, "p": []}, "rv": {"k": "use", "op": copy.deepcopy(call["args"][0])}, "span": span, "inline_arg": True})
        tup = call["args"][1]["place"]
        for k in range(callee_j.get("arg_count", 1) - 1):
            pl = {"l": tup["l"], "p": list(copy.deepcopy(tup["p"])) + [{"k": "field", "i": k, "name": str(k), "of": "", "ty": callee_j["locals"][2 + k]["ty"]}]}
            stmts.append({"k": "assign", "place": {"l": lbase + 2 + k, "p": []}, "rv": {"k": "use", "op": {"k": "copy", "place": pl}}, "span": span, "inline_arg": True})
        closure_env = _closure_env(caller_j, call["args"][0])
    else:
        for k, a in enumerate(call["args"]):
            stmts.append({"k": "assign", "place": {"l": lbase + 1 + k, "p": []}, "rv": {"k": "use", "op": copy.deepcopy(a)}, "span": span, "inline_arg": True})
    caller_j["blocks"][bi]["term"] = {"k": "goto", "target": bbase, "span": span, "inlined_call": callee_j["path"]}
    for blk in callee_j["blocks"]:
        nb = copy.deepcopy(blk)
        nb["i"] = blk["i"] + bbase
        nb["inlined_from"] = callee_j["path"]
        _remap(nb["stmts"], lbase, bbase)
        if closure_env:
            _subst_upvars(nb["stmts"], lbase + 1, closure_env)
        t = nb["term"]
        k = t["k"]
        if k == "return":
            if not nb["cleanup"]:
                nb["stmts"].append({"k": "assign", "place": copy.deepcopy(call["dest"]),
                                    "rv": {"k": "use", "op": {"k": "move", "place": {"l": lbase, "p": []}}}, "span": t.get("span"), "inline_ret": True})
                if call.get("target") is not None:
                    nb["term"] = {"k": "goto", "target": call["target"], "span": t.get("span")}
                else:
                    nb["term"] = {"k": "unreachable", "span": t.get("span")}
        else:
            for key in ("args", "dest", "discr", "place", "cond"):
                if key in t:
                    _remap(t[key], lbase, bbase)
                    if closure_env:
                        _subst_upvars(t[key], lbase + 1, closure_env)
            if k == "goto":
                t["target"] += bbase
            elif k == "switch":
                t["targets"] = [[v, tg + bbase] for v, tg in t["targets"]]
                t["otherwise"] += bbase
            elif k in ("drop", "assert", "call"):
                if t.get("target") is not None:
                    t["target"] += bbase
                if t.get("unwind") is not None:
                    t["unwind"] += bbase
        caller_j["blocks"].append(nb)
    # jump threading: a return site of the helper that hands back a KNOWN variant (`return Err(e)`, `Ok(())` at the end) is routed
    # past the caller's test of that variant (`?`, `match`, `if let`).  Without this the CFG joins the helper's exits before the test and
    # a path rule sees the infeasible path "helper returned Err, caller took the Ok arm".
    if call.get("target") is not None:
        for blk in callee_j["blocks"]:
            if blk["cleanup"]:
                continue
            var = _returned_variant(callee_j, blk)
            if var is None:
                continue
            _thread(caller_j, bbase + blk["i"], lbase, var)
    for dbg in callee_j.get("debug", []):
        nd = copy.deepcopy(dbg)
        _remap(nd, lbase, bbase)
        caller_j.setdefault("debug", []).append(nd)


def _single_defs(cj):
    defs = {}
    for blk in cj["blocks"]:
        for st in blk["stmts"]:
            if st.get("k") == "assign" and not st["place"]["p"]:
                defs.setdefault(st["place"]["l"], []).append(st["rv"])
            elif st.get("k") == "assign":
                defs.setdefault(st["place"]["l"], []).append(None)      # partial write
        t = blk["term"]
        if t["k"] == "call" and t.get("dest"):
            defs.setdefault(t["dest"]["l"], []).append(None)
    return defs


def _closure_env(caller_j, self_arg):
    """{capture index: caller local that holds the captured value / reference} for a closure called through `&closure` where the closure
    is built once; only captures held in single-definition temporaries are listed (a by-value capture of a variable that is assigned
    again later must keep reading the closure's own copy)."""
    defs = _single_defs(caller_j)
    nargs = caller_j.get("arg_count", 0)
    op = self_arg
    for _ in range(6):
        if op.get("k") not in ("copy", "move") or op["place"]["p"]:
            return None
        ds = defs.get(op["place"]["l"], [])
        if len(ds) != 1 or ds[0] is None:
            return None
        rv = ds[0]
        if rv["k"] == "use":
            op = rv["op"]
            continue
        if rv["k"] == "ref" and not rv["place"]["p"]:
            cds = defs.get(rv["place"]["l"], [])
            if len(cds) != 1 or cds[0] is None or cds[0]["k"] != "aggregate" or cds[0].get("agg") != "closure":
                return None
            env = {}
            for i, o in enumerate(cds[0]["ops"]):
                if o.get("k") in ("copy", "move") and not o["place"]["p"]:
                    l = o["place"]["l"]
                    if l > nargs and len(defs.get(l, [])) == 1 and defs[l][0] is not None:
                        env[i] = l
            return env
        return None
    return None


def _subst_upvars(x, self_local, env):
    """(*self).i.rest  ->  env[i].rest  inside an inlined closure body (in place)."""
    if isinstance(x, dict):
        if "l" in x and "p" in x and isinstance(x["p"], list):
            p = x["p"]
            if x["l"] == self_local and len(p) >= 2 and p[0].get("k") == "deref" and p[1].get("k") == "field" and p[1].get("i") in env:
                x["l"] = env[p[1]["i"]]
                x["p"] = p[2:]
            return
        for v in x.values():
            _subst_upvars(v, self_local, env)
    elif isinstance(x, list):
        for v in x:
            _subst_upvars(v, self_local, env)


def fold_not_switches(cj):
    """`d = Not(x); switch d` (what `if helper()` becomes when the helper returns `!(a <= b)`) is rewritten to `switch x` with the
    targets swapped, through plain moves of single-definition temporaries.  Rules that read a switch see the comparison itself."""
    defs = {}
    for blk in cj["blocks"]:
        for st in blk["stmts"]:
            if st.get("k") == "assign" and not st["place"]["p"]:
                defs.setdefault(st["place"]["l"], []).append(st["rv"])
        t = blk["term"]
        if t["k"] == "call" and t.get("dest") and not t["dest"]["p"]:
            defs.setdefault(t["dest"]["l"], []).append(None)
    nargs = cj.get("arg_count", 0)

    def resolve(op, flips, depth=0):
        if depth > 8 or op.get("k") not in ("copy", "move") or op["place"]["p"]:
            return op, flips
        l = op["place"]["l"]
        ds = defs.get(l, [])
        if len(ds) != 1 or ds[0] is None or 1 <= l <= nargs:
            return op, flips
        rv = ds[0]
        if rv["k"] == "use":
            return resolve(rv["op"], flips, depth + 1)
        if rv["k"] == "unop" and rv.get("op") == "Not":
            return resolve(rv["a"], flips + 1, depth + 1)
        return op, flips
    for blk in cj["blocks"]:
        t = blk["term"]
        if t["k"] != "switch" or blk["cleanup"] or len(t["targets"]) != 1 or str(t["targets"][0][0]) != "0":
            continue
        op, flips = resolve(t["discr"], 0)
        if flips == 0:
            continue
        if op.get("k") not in ("copy", "move"):
            continue
        t["discr"] = {"k": "copy", "place": copy.deepcopy(op["place"])}
        if flips % 2 == 1:
            f_t, o_t = t["targets"][0][1], t["otherwise"]
            t["targets"] = [[t["targets"][0][0], o_t]]
            t["otherwise"] = f_t
        t["not_folded"] = flips


VARIANT_INDEX = {"Ok": "0", "Err": "1", "Continue": "0", "Break": "1", "None": "0", "Some": "1"}
TRY_BRANCH = {"Ok": "Continue", "Err": "Break", "Some": "Continue", "None": "Break"}


def _returned_variant(callee_j, blk):
    """Variant of the enum value this return block of the helper hands back, when the block itself builds it."""
    agg = {}
    ret = None
    for st in blk["stmts"]:
        pl, rv = st["place"], st["rv"]
        if pl["p"]:
            if pl["l"] == 0:
                ret = None
            continue
        v_ = None
        if rv["k"] == "aggregate" and rv.get("agg") == "adt" and rv.get("variant") in VARIANT_INDEX:
            v_ = rv["variant"]
        elif rv["k"] == "use" and rv["op"]["k"] in ("copy", "move") and not rv["op"]["place"]["p"]:
            v_ = agg.get(rv["op"]["place"]["l"])
        agg[pl["l"]] = v_
        if pl["l"] == 0:
            ret = v_
    return ret


def _thread(cj, start_bb, holder, variant):
    """The block start_bb leaves local `holder` with a known enum variant.  Follow the straight-line continuation (gotos, drops, plain
    moves of the value, `Try::branch`) up to the switch on the value's discriminant, clone that stretch and send start_bb through the
    clone into the matching switch target."""
    holders = {holder}
    t0 = cj["blocks"][start_bb]["term"]
    if t0["k"] not in ("goto", "drop") or t0.get("target") is None:
        return
    cur = t0["target"]
    visited = []
    dlocal = None
    target = None
    for _ in range(24):
        blk = cj["blocks"][cur]
        if blk["cleanup"] or cur in visited:
            return
        visited.append(cur)
        for st in blk["stmts"]:
            pl, rv = st["place"], st["rv"]
            if not pl["p"] and rv["k"] == "use" and rv["op"]["k"] in ("copy", "move") and not rv["op"]["place"]["p"] and rv["op"]["place"]["l"] in holders:
                holders.add(pl["l"])
            elif not pl["p"] and rv["k"] == "discr" and not rv["place"]["p"] and rv["place"]["l"] in holders:
                dlocal = pl["l"]
            elif not pl["p"] and pl["l"] in holders:
                return      # the value is overwritten
        t = blk["term"]
        if t["k"] == "switch" and dlocal is not None and t["discr"]["k"] in ("copy", "move") and t["discr"]["place"]["l"] == dlocal and not t["discr"]["place"]["p"]:
            want = VARIANT_INDEX[variant]
            m = {str(v): tg for v, tg in t["targets"]}
            target = m.get(want, t["otherwise"])
            break
        if t["k"] in ("goto", "drop") and t.get("target") is not None:
            if t["k"] == "drop" and not t["place"]["p"] and t["place"]["l"] in holders:
                return
            cur = t["target"]
            continue
        if t["k"] == "call" and t.get("target") is not None:
            cal = t.get("callee") or {}
            a0 = t["args"][0] if t["args"] else None
            if cal.get("name") == "branch" and str(cal.get("trait") or "").endswith("Try") and a0 and a0["k"] in ("copy", "move") \
                    and not a0["place"]["p"] and a0["place"]["l"] in holders and not t["dest"]["p"] and variant in TRY_BRANCH:
                holders = {t["dest"]["l"]}
                variant = TRY_BRANCH[variant]
                dlocal = None
                cur = t["target"]
                continue
            return
        return
    if target is None:
        return
    base = len(cj["blocks"])
    for n, bi in enumerate(visited):
        nb = copy.deepcopy(cj["blocks"][bi])
        nb["i"] = base + n
        nb["threaded_from"] = bi
        last = n == len(visited) - 1
        t = nb["term"]
        if last:
            nb["term"] = {"k": "goto", "target": target, "span": t.get("span"), "threaded": variant}
        else:
            t["target"] = base + n + 1
        cj["blocks"].append(nb)
    cj["blocks"][start_bb]["term"]["target"] = base


def static_call_sites(facts):
    """callee body key -> [(caller key, block index)] over all bodies (closures included), non-cleanup blocks."""
    by_norm = {}
    for k, b in facts.mir.items():
        by_norm.setdefault(norm_path(b.path), []).append(k)
    sites = {}
    refs = set()    # functions referenced as values (fn items passed to adapters): never inlined

    def resolve(cal):
        for key in ("resolved", "path"):
            p = cal.get(key)
            if p and p in facts.mir:
                return p
        for key in ("resolved", "path"):
            p = cal.get(key)
            if p:
                ks = by_norm.get(norm_path(p), [])
                if len(ks) == 1:
                    return ks[0]
        return None

    def scan_consts(x):
        if isinstance(x, dict):
            if x.get("k") == "const" and "fn" in x:
                r = resolve({"path": x["fn"].get("path"), "resolved": x["fn"].get("full")})
                if r:
                    refs.add(r)
            for v in x.values():
                scan_consts(v)
        elif isinstance(x, list):
            for v in x:
                scan_consts(v)
    for k, b in facts.mir.items():
        for blk in b.blocks:
            scan_consts(blk["stmts"])
            t = blk["term"]
            if t["k"] == "call":
                scan_consts(t["args"])
                if blk["cleanup"]:
                    continue
                r = resolve(t.get("callee") or {})
                if r:
                    sites.setdefault(r, []).append((k, blk["i"]))
    return sites, refs


def candidates(facts, pinned, allow_pub=(), multi=()):
    """Bodies that may be inlined into their single caller (those in `multi`: into each of up to three callers)."""
    sites, refs = static_call_sites(facts)
    out = {}
    for k, b in facts.mir.items():
        if b.j.get("def_kind") == "Closure":
            # a closure that its parent calls directly, exactly once (`let step = |..| ..; … step(x)`): a local helper in closure form
            ss = sites.get(k, [])
            if k in allow_pub and k not in pinned and len(ss) == 1 and ss[0][0] != k and facts.mir[ss[0][0]].path == b.j.get("parent"):
                out[k] = ss[0]
            continue
        fi = facts.fns.get(b.path)
        if fi is None or b.j.get("def_kind") not in ("Fn", "AssocFn"):
            continue
        if fi.get("impl_trait") or (fi.get("pub") and k not in allow_pub):
            continue
        if k in pinned or b.path in pinned or k in refs:
            continue
        ss = sites.get(k, [])
        if k in multi and 2 <= len(ss) <= 3 and all(c != k for c, _b in ss):
            out[k] = ss          # a small shared delegate: one copy per caller
            continue
        if len(ss) != 1 or ss[0][0] == k:
            continue
        out[k] = ss[0]
    return out


def inline_helpers(facts, pinned):
    """A new Facts whose bodies have every candidate helper inlined at its single call site (bottom-up, so helpers of helpers go
    first).  Returns (facts', [inlined paths]); facts' is `facts` itself when nothing qualifies."""
    return inline_selected(facts, candidates(facts, pinned))


def inline_selected(facts, cands):
    if not cands:
        return facts, []
    nf = copy.copy(facts)
    nf.mir = {k: Body(k, b.j, nf) for k, b in facts.mir.items()}
    owned = set()      # bodies whose JSON is already a private copy
    done = []
    remaining = dict(cands)
    def callers_of(v_):
        return [c for (c, _b) in v_] if isinstance(v_, list) else [v_[0]]
    while remaining:
        ready = [k for k in remaining if not any(k in callers_of(v_) for v_ in remaining.values())]
        if not ready:
            break          # mutual recursion between helpers: leave them
        k = sorted(ready)[0]
        site_spec = remaining.pop(k)
        if isinstance(site_spec, list):
            todo_callers = [c for (c, _b) in site_spec]
        else:
            todo_callers = [site_spec[0]]
        for caller_k in todo_callers:
            _inline_into(nf, owned, k, caller_k, done)      # one call site per entry (a caller with two sites is listed twice)
        # every call site of the helper has received a copy: the function itself is dead in the normal form (leaving it would show
        # rules a second, unused candidate for the role its code now plays inside the caller)
        if nf.mir[k].path in done:
            nf.mir.pop(k, None)
    nf.inlined = done
    return nf, done


def _inline_into(nf, owned, k, caller_k, done):
    if True:
        caller, callee = nf.mir[caller_k], nf.mir[k]
        cj = caller.j
        if caller_k not in owned:
            cj = copy.deepcopy(cj)
            owned.add(caller_k)
        site = None
        for blk in cj["blocks"]:
            t = blk["term"]
            if t["k"] == "call" and not blk["cleanup"]:
                cal = t.get("callee") or {}
                if cal.get("resolved") == k or cal.get("path") == k or norm_path(cal.get("path") or "") == norm_path(callee.path):
                    site = blk["i"]
                    break
        if site is None:
            return
        inline_call(cj, site, callee.j)
        fold_not_switches(cj)
        nf.mir[caller_k] = Body(caller_k, cj, nf)
        # closures created inside the helper now belong to the caller's typeck root
        for ck, cb in list(nf.mir.items()):
            if cb.j.get("root") == callee.path or cb.j.get("parent") == callee.path:
                nj = dict(cb.j)
                if nj.get("root") == callee.path:
                    nj["root"] = cj.get("root") or cj["path"]
                if nj.get("parent") == callee.path:
                    nj["parent"] = cj["path"]
                nf.mir[ck] = Body(ck, nj, nf)
        if callee.path not in done:
            done.append(callee.path)
