"""C09 — V polynomial and u vectors: code ≡ formula (kernel engine)."""
from .kernels import run_c09


def run(ctx):
    run_c09(ctx)
