"""C09 — V polynomial and u vectors: code ≡ formula (kernel engine)."""
from .kernels import run_c09


def run(ctx):
    run_c09(ctx)
    # the signature (and table) these formulas read are the ones the caller handed to build_sampler (restated from C05-b)
    from .restate import restate_sampler_is_callers
    restate_sampler_is_callers(ctx)
    from .restate import restate_loops_if_kernels_take_them
    restate_loops_if_kernels_take_them(ctx, 'C09-f', ('uvec', 'vpoly', 'lmatrix'), 'the u vectors / V / L')
