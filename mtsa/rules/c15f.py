"""C15-f — the routine reports an error only for an exactly singular factor or a failed stability test (MIR rule)."""
from ..vals import Vals, callee_is, bool_edges
from ..roles import RoleLost
from .. import pat, cfg
from . import common


def run_c15f(ctx):
    ctx.rule("C15-f", "every Err return of the matrix routine is ZeroDet under an EXACT `== zero` test of the determinant (or of its square root) "
                      "or Unstable inside the Some(tol) branch: a positive-definite input is never rejected on a tolerance")
    try:
        body = ctx.roles.decompose()
    except RoleLost as e:
        return ctx.lost("C15-f", str(e))
    fn = body.path
    v = Vals(body)
    errs = pat.result_ctor_sites(body, "Err")
    tcd = cfg.transitive_control_deps(body, acyclic=True)
    sarg = common.settings_arg(ctx.facts, body)
    n = 0
    for bi, si, st in errs:
        n += 1
        er = v.root(st["rv"]["ops"][0])
        rv = v.rvalue_of(er) if er.kind == "local" else None
        variant = rv.get("variant") if rv is not None and rv["k"] == "aggregate" else None
        ok, det = False, "error variant %s" % variant
        if variant == "ZeroDet":
            guards = []
            for (sb, tgt) in tcd[bi]:
                c = v.classify_bool(body.blocks[sb]["term"]["discr"])
                cm = common.cmp_of(v, c)
                if cm is None:
                    if c and c[0] == "discr":
                        continue
                    guards.append(("other", sb))
                    continue
                op, la, ra, wh = cm
                te, fe = bool_edges(body, sb)
                cl, cr = common.const_value_of(v, la), common.const_value_of(v, ra)
                exact = op in ("eq", "ne") and ((cr == 0.0 and cl is None) or (cl == 0.0 and cr is None)) and tgt == (te if op == "eq" else fe)
                guards.append(("exact-zero" if exact else "inexact:%s" % op, sb))
            kinds = [g[0] for g in guards]
            ok = kinds.count("exact-zero") == 1 and all(k in ("exact-zero",) for k in kinds)
            det = "guards on the path to Err(ZeroDet): %s" % kinds
        elif variant == "Unstable":
            opt = [(sb, tgt) for (sb, tgt) in tcd[bi] if (lambda c: c and c[0] == "discr" and c[1].path[-1:] == ("matrix_stability_test",))(v.classify_bool(body.blocks[sb]["term"]["discr"]))]
            ok = len(opt) >= 1
            det = "inside the Some(tol) branch: %s" % ok
        ctx.ob("C15-f", "Err(%s) at bb%d is justified" % (variant, bi), ok, fn, "err-return:%s" % variant, where=pat.where(st), detail=det)
    ctx.ob("C15-f", "error returns examined: %d (ZeroDet and Unstable expected)" % n, n >= 2, fn, "err-return-floor")
