"""C19 — user precision is preserved: only the Gamma draw narrows to f64 (structural, whole).

a. who-may-call MomTropFloat::to_f64: only the quantile wrapper, or sites control-dependent on settings.print_debug_info
   (incl. closures created there);
b. to_f64 results flow only into the f64 quantile routine (in the wrapper) or into logger/print sinks (debug sites);
   no from_f64 argument in generic code derives from a to_f64 result outside the wrapper;
c. f64 literals converted with from_f64 in generic code are short dyadic constants (a 53-bit literal such as
   0.1 or PI would cap the precision of a wider scalar type).
"""
import struct

from ..vals import Vals, callee_is, bool_edges, norm_path
from ..roles import RoleLost
from ..flow import Flow, fmt_source
from .. import pat, cfg
from . import common

PID = "C19"


def is_generic_over_float(facts, body):
    fi = facts.fns.get(body.path)
    root = body.j.get("root")
    if fi is None and root:
        fi = facts.fns.get(root)
    if not fi:
        return False
    preds = (fi.get("generics") or {}).get("preds", [])
    return any("MomTropFloat" in p for p in preds)


def debug_guarded_blocks(ctx, body):
    """Blocks transitively control-dependent on the true edge of a test of settings.print_debug_info."""
    v = Vals(body)
    guarded = set()
    tcd = cfg.transitive_control_deps(body, acyclic=True)
    flag_edges = set()
    for bi, b in enumerate(body.blocks):
        t = b["term"]
        if t["k"] != "switch":
            continue
        r = v.root(t["discr"])
        if r.path and r.path[-1] == "print_debug_info":
            te, fe = bool_edges(body, bi)
            flag_edges.add((bi, te))
    for bi in range(len(body.blocks)):
        if tcd[bi] & flag_edges:
            guarded.add(bi)
    return guarded


def mantissa_bits(bits):
    b = int(bits)
    frac = b & ((1 << 52) - 1)
    exp = (b >> 52) & 0x7FF
    if exp == 0x7FF:
        return 0
    if exp == 0 and frac == 0:
        return 0
    if exp != 0:
        frac |= 1 << 52
    while frac and frac % 2 == 0:
        frac //= 2
    return frac.bit_length()


F64_MACHINE_PARAMETERS = {
    0x3CB0000000000000: "f64::EPSILON", 0x3CA0000000000000: "f64::EPSILON/2", 0x0010000000000000: "f64::MIN_POSITIVE",
    0x7FEFFFFFFFFFFFFF: "f64::MAX", 0xFFEFFFFFFFFFFFFF: "f64::MIN", 0x4340000000000000: "2^53", 0x4330000000000000: "2^52",
    0x0000000000000001: "smallest subnormal",
}


def f64_computation(v, operand, depth, seen):
    """Reasons why the f64 operand is the result of a computation done in f64 (beyond ring operations on constants)."""
    if operand["k"] != "const" and operand["k"] not in ("copy", "move"):
        return []
    if operand["k"] == "const" or depth > 12:
        return []
    pl = operand["place"]
    if pl["p"]:
        return []            # a field / element of stored data: a constant of the table
    l = pl["l"]
    if l in seen or v.is_arg(l):
        return []
    seen.add(l)
    d = v.single_def(l)
    if d is None:
        return []
    if d[0] == "call":
        t = d[2]
        c = t.get("callee") or {}
        p = c.get("path") or ""
        nm = c.get("name")
        if ("f64" in p and p.startswith(("core::f64", "std::f64"))) or (c.get("self_ty") == "f64" and not c.get("trait")):
            if nm not in ("from", "into", "clone", "abs", "neg", "to_owned"):
                return ["f64::%s at %s" % (nm, pat.where(t))]
        if nm in ("clone", "deref", "borrow", "unwrap", "into", "from") and t["args"]:
            return f64_computation(v, t["args"][0], depth + 1, seen)
        return []
    rv = d[3]
    k = rv["k"]
    if k == "use":
        return f64_computation(v, rv["op"], depth + 1, seen)
    if k == "unop":
        return f64_computation(v, rv["a"], depth + 1, seen)
    if k == "cast":
        return []
    if k == "binop":
        op = rv["op"]
        if op in ("Div", "Rem"):
            if rv["b"]["k"] != "const":
                return ["f64 division by non-literal data"] + f64_computation(v, rv["a"], depth + 1, seen)
            return f64_computation(v, rv["a"], depth + 1, seen)
        return f64_computation(v, rv["a"], depth + 1, seen) + f64_computation(v, rv["b"], depth + 1, seen)
    return []


def run(ctx):
    R = ctx.roles
    f = ctx.facts
    ctx.rule("C19-a", "MomTropFloat::to_f64 is called only in the quantile wrapper or under settings.print_debug_info")
    ctx.rule("C19-b", "to_f64 results flow only into the f64 quantile routine / debug sinks; no from_f64 argument derives from them")
    ctx.rule("C19-c", "f64 literals passed to from_f64 in generic code are short dyadic constants (<= 24 significant bits)")
    try:
        q = R.quantile()
        rd = R.reader_adt()
        read = R.read_fn()
    except RoleLost as e:
        return ctx.lost("C19-a", str(e))
    guarded_cache = {}

    def guarded(body):
        if body.key not in guarded_cache:
            guarded_cache[body.key] = debug_guarded_blocks(ctx, body)
        return guarded_cache[body.key]

    def closure_created_under_debug(body):
        """closure body: is its creation site (in the parent) debug-guarded (recursively)?"""
        parent_path = body.j.get("parent")
        if not parent_path:
            return False
        parent = f.mir.get(parent_path)
        if parent is None:
            return False
        for bi, si, s in pat.stmts(parent):
            rv = s["rv"]
            if rv["k"] == "aggregate" and rv["agg"] == "closure" and rv["closure"] == body.path:
                if bi in guarded(parent):
                    return True
        return closure_created_under_debug(parent)

    n_sites = 0
    n_quant = 0
    for key, body in f.mir.items():
        for bi, t in body.calls():
            if not callee_is(t, trait="MomTropFloat", name="to_f64"):
                continue
            # only calls on an abstract scalar (generic code) or any call in generic bodies
            n_sites += 1
            ctx.fn(body.path)
            if body is q:
                n_quant += 1
                ok = True
                why = "quantile wrapper"
            elif bi in guarded(body):
                ok, why = True, "under print_debug_info"
            elif closure_created_under_debug(body):
                ok, why = True, "closure created under print_debug_info"
            else:
                ok, why = False, "outside the quantile wrapper and not under print_debug_info"
            ctx.ob("C19-a", "to_f64 site in %s: %s" % (norm_path(body.path), why), ok, body.path, "to_f64-site", where=pat.where(t),
                   detail="a value of the user's scalar type is narrowed to f64 in %s (%s): results computed from it lose the user's precision"
                          % (norm_path(body.path), why))
    ctx.ob("C19-a", "quantile wrapper narrows its arguments (>= 2 to_f64 sites, found %d)" % n_quant, n_quant >= 2, q.path, "quantile-to_f64-floor",
           detail="expected the documented f64 boundary inside inverse_gamma_lr; found %d to_f64 sites there" % n_quant)
    # b: forward use of to_f64 results
    vq = Vals(q)
    impl_calls = [(bi, t) for bi, t, cb in R.local_callees(q)]
    for bi, t in q.calls():
        if callee_is(t, trait="MomTropFloat", name="to_f64"):
            dl = t["dest"]["l"]
            users = []
            for bj, t2 in q.calls():
                for a in t2["args"]:
                    if a["k"] in ("copy", "move") and vq.root(a) == vq.root_place({"l": dl, "p": []}):
                        users.append(t2)
            only_impl = len(users) >= 1 and all(R.body_of_callee(u.get("callee")) is not None and u.get("callee", {}).get("trait") is None for u in users)
            ctx.ob("C19-b", "to_f64 result in the wrapper is passed (only) to the f64 quantile routine", only_impl, q.path, "wrapper-to_f64-flow",
                   where=pat.where(t), detail="users: %s" % [u.get("callee", {}).get("path") for u in users])
    # from_f64 arguments everywhere in generic code: provenance must not contain a to_f64 source (except in the wrapper)
    fl = Flow(f, R, reader_adt=rd["adt"], read_fn=read)
    n_from = 0
    for key, body in f.mir.items():
        if not is_generic_over_float(f, body):
            continue
        sites = [(bi, t) for bi, t in body.calls() if callee_is(t, trait="MomTropFloat", name="from_f64")]
        if not sites:
            continue
        ctx.fn(body.path)
        d = fl.deps_of(body)
        for bi, t in sites:
            n_from += 1
            a = t["args"][1]
            if a["k"] == "const":
                bits = a.get("bits")
                mb = mantissa_bits(bits) if bits is not None else 99
                val = struct.unpack("<d", struct.pack("<Q", int(bits)))[0] if bits is not None else None
                mp = F64_MACHINE_PARAMETERS.get(int(bits)) if bits is not None else None
                ctx.ob("C19-c", "literal %r passed to from_f64 is not a machine parameter of f64" % (val,), mp is None, body.path, "from_f64-machine-parameter",
                       where=pat.where(t), detail="%s is handed to the user's scalar type: generic code that is tuned to the rounding level / range of f64 "
                                                  "caps the precision a wider type can deliver" % mp)
                ctx.ob("C19-c", "literal %r passed to from_f64 has %d significant bits" % (val, mb), mb <= 24, body.path, "from_f64-literal",
                       where=pat.where(t), detail="the f64 literal %r (%d significant bits) is converted into the user's scalar type: a wider type only "
                                                  "gets its f64 approximation (use the trait's own constant / an exact dyadic literal)" % (val, mb))
                continue
            srcs = set()
            for n in [("n", a["place"]["l"], None)]:
                srcs |= d["close"](n)
            bad = [s for s in srcs if s[0] == "to_f64"]
            allowed_here = body is q
            ctx.ob("C19-b", "from_f64 argument in %s has no to_f64 provenance" % norm_path(body.path), allowed_here or not bad, body.path,
                   "from_f64-arg-provenance", where=pat.where(t),
                   detail="from_f64 argument derives from %s: a round trip through f64" % [fmt_source(s) for s in bad])
    ctx.ob("C19-b", "from_f64 sites analysed (>= 10 expected, found %d)" % n_from, n_from >= 10, "*", "from_f64-floor")
    # d: the f64 value that is widened may be COMBINED from table constants by ring operations only; a quotient by table data, a
    # reciprocal or an f64 library function is a computation that belongs in the user's type (it is rounded to f64 before widening)
    ctx.rule("C19-d", "an f64 handed to from_f64 in generic code is built from constants by +, −, ×, ÷ literal, int→f64 casts only: no division by "
                      "non-literal data, no f64 library function (sqrt, powf, recip, ln, …) on the way")
    n_d = 0
    for key, body in f.mir.items():
        if not is_generic_over_float(f, body) or body is q:
            continue
        sites = [(bi, t) for bi, t in body.calls() if callee_is(t, trait="MomTropFloat", name="from_f64")]
        if not sites:
            continue
        v = Vals(body)
        for bi, t in sites:
            a = t["args"][1]
            if a["k"] == "const":
                continue
            n_d += 1
            bad = f64_computation(v, a, 0, set())
            ctx.ob("C19-d", "from_f64 argument in %s is a ring combination of constants" % norm_path(body.path), not bad, body.path,
                   "from_f64-arg-computed-in-f64", where=pat.where(t),
                   detail="the widened value is computed in f64 first (%s): the user's type only receives the f64-rounded result" % "; ".join(bad))
    ctx.ob("C19-d", "non-literal from_f64 arguments examined (>= 5 expected, found %d)" % n_d, n_d >= 5, "*", "from_f64-computed-floor")
    if ctx.cfg == "default":
        from ..fixtures import detectors_alive
        ctx.rule("C19-z", "positive example: the to_f64 who-may-call detector fires on fixtures/")
        detectors_alive(ctx, "C19-z", {"to_f64"})
