"""C15 — matrix routine: structural clauses (wiring, product formula, triangularity, storage offsets, recurrences) by the kernel engine."""
from .kernels import run_c15, run_c15e


def run(ctx):
    run_c15(ctx)
    run_c15e(ctx)
    from .c15f import run_c15f
    run_c15f(ctx)
    # with matrix_stability_test = Some(tol) the routine's Ok/Err outcome goes through l21_norm, the identity constructor and Sub: a
    # wrong helper rejects (or accepts) every matrix (restated from C16-d)
    from .kernels import run_c16d
    run_c16d(ctx, "C15-g")

    # the formulas above are written in the scalar type's own operations; for the f64 instantiation those are decided by C20-a — restated
    # here for exactly the operations this code calls: a `powf` / `sqrt` / `cos` of `impl MomTropFloat for f64` that is not std's breaks
    # this property with every anchored line untouched
    from .restate import restate_f64_primitives
    restate_f64_primitives(ctx, [lambda: ctx.roles.decompose()], "the decomposition")
    # through a sample the routine's inputs and outputs are the caller's: the matrix decomposed is the L matrix itself and determinant /
    # factors / inverse reach the result and the metadata unscaled and unpermuted (restated from C08-b: a normalising or pivoting wrapper at
    # the call site breaks what a user observes of this routine with the routine untouched)
    from .restate import run_restated
    run_restated(ctx, [("C08", {"C08-b": "sample hands L to the decomposition and reports its determinant / result unchanged"})])
