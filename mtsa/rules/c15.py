"""C15 — matrix routine: structural clauses (wiring, product formula, triangularity, storage offsets) by the kernel engine."""
from .kernels import run_c15


def run(ctx):
    run_c15(ctx)
