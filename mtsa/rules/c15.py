"""C15 — matrix routine: structural clauses (wiring, product formula, triangularity, storage offsets, recurrences) by the kernel engine."""
from .kernels import run_c15, run_c15e


def run(ctx):
    run_c15(ctx)
    run_c15e(ctx)
    from .c15f import run_c15f
    run_c15f(ctx)
