"""C15 — matrix routine: structural clauses (wiring, product formula, triangularity, storage offsets, recurrences) by the kernel engine."""
from .kernels import run_c15, run_c15e


def run(ctx):
    run_c15(ctx)
    run_c15e(ctx)
    from .c15f import run_c15f
    run_c15f(ctx)
    # with matrix_stability_test = Some(tol) the routine's Ok/Err outcome goes through l21_norm, the identity constructor and Sub: a
    # wrong helper rejects (or accepts) every matrix (restated from C16-d)
    from .kernels import run_c16d
    run_c16d(ctx, "C15-g")
