"""E5 rules: code ≡ formula over the reals, for all sizes (kernel algebra on typed HIR).

Each clause evaluates the relevant function(s) once with role-named symbolic inputs, and compares the summarised outputs with a
reference formula transcribed from the property statement, modulo AC, bound-variable renaming, exponent arithmetic, declared
symmetries and triangular-vs-full summation.  Nothing is executed and no concrete size is ever chosen.
"""
import sympy as sp

from ..vals import Vals, callee_is, norm_path, bool_edges, Root
from ..roles import RoleLost
from .. import pat
from ..kern.expr import Expr, fresh, equal_modulo_order, sym
from ..kern import expr as X
from ..kern.interp import Interp, Undecided, Num, Arr, Struct, Tup, Opt, Cond, Opaque, num_const, num_size, opaque_by_type
from ..kern import world, models
from .. import idroles


def role_hooks(ctx):
    """Hooks for the abstract subgraph id (by role, not by name)."""
    idr = idroles.id_roles(ctx)
    try:
        gr = idroles.graph_roles(ctx)
    except RoleLost:
        gr = {}
    return world.id_hooks(idr, gr.get("full_id"))

D, L, DOD = sym("D"), sym("L"), sym("dod")


def leaf(name, *idx):
    return Expr.leaf(name, *idx)


def ssum(body, var, cls, guards=()):
    return body.sum_over(var, cls, guards)


class SampleWorld:
    """Symbolic evaluation of `sample` with role hooks; the kernels it calls are evaluated from their own bodies and their
    results recorded and renamed, so every later formula is phrased in the quantities the statements name."""

    def __init__(self, ctx):
        self.ctx = ctx
        self.R = ctx.roles
        self.f = ctx.facts
        self.rec = {}
        self.calls = {}
        self.ok = False
        self.error = None
        self.undecided = []
        self.run()

    def kernel_roles(self):
        R = self.R
        s = R.sample()
        v = Vals(s)
        roles = {"quantile": R.quantile(), "decompose": R.decompose(), "reader_ctor": R.reader_adt()["ctor"], "read": R.read_fn()}
        # by result-field provenance
        from .common import built_structs as _bs
        aggs = list(_bs(self.f, R, s, "TropicalSampleResult"))
        from .common import built_structs
        mds = list(built_structs(self.f, R, s, "Metadata"))
        if len(aggs) < 1 or len(mds) < 1:
            from ..roles import builds_adt
            raise RoleLost("TropicalSampleResult / Metadata aggregates in sample", wanted=builds_adt("TropicalSampleResult", "Metadata"))

        def producer1(rv, field):
            if field not in rv["fields"]:
                return None       # computed where the struct is built (inside a closure): no producer in this body
            op = rv["ops"][rv["fields"].index(field)]
            t = v.call_term(v.deep_root(op))
            return R.body_of_callee(t.get("callee")) if t is not None else None

        def producer(sts, field):
            """The same producing kernel on every path that builds the struct (an early exit without metadata builds the result twice)."""
            ps = [producer1(st[2]["rv"], field) for st in sts]
            if any(p is not ps[0] for p in ps):
                raise RoleLost("the %d aggregates that build the result disagree on the producer of `%s`" % (len(sts), field))
            return ps[0]

        roles["momenta"] = producer(aggs, "loop_momenta")
        roles["vpoly"] = producer(aggs, "v")
        roles["lmatrix"] = producer(mds, "l_matrix")
        roles["gauss"] = producer(mds, "q_vectors")
        # sector: producer of the Feynman parameters handed to the L-matrix kernel
        roles["sector"] = None
        for bi, t, cb in R.local_callees(s):
            if cb is roles["lmatrix"]:
                r0 = v.root(t["args"][0])
                if r0.kind == "call":
                    roles["sector"] = R.body_of_callee(s.blocks[r0.base[1]]["term"].get("callee"))
        for k in ("gauss", "sector"):
            if roles[k] is None:
                raise RoleLost("kernel role `%s` (no local producer found)" % k)
        roles["uvec"] = producer(mds, "u_vectors")
        roles["shift"] = producer(mds, "shift")
        for k in ("lmatrix", "vpoly", "uvec"):
            if roles[k] is None:
                raise RoleLost("kernel role `%s` (no local producer found)" % k)
        # the momentum map / shift kernels are only named in reports: when the value is assembled on several paths the
        # enclosing function stands in for them
        for k in ("momenta", "shift"):
            if roles[k] is None:
                roles[k] = s
        return roles

    def run(self):
        ctx = self.ctx
        try:
            self.roles = self.kernel_roles()
        except RoleLost as e:
            self.error = str(e)
            return
        roles = self.roles
        X.POSITIVE_LEAVES |= {"u", "v", "lambda", "ut", "vt", "cached", "x"}
        rec = self.rec

        def record_and_rename(key, rename):
            body = roles[key]

            def hook(I, c, args):
                val = I.run_fn(body.path, args, None)
                rec[key] = val
                rec[key + "_args"] = args
                return rename
            return body.path, hook

        hooks = {}
        hooks[roles["sector"].path] = lambda I, c, a: Struct("SectorResult", self.sector_fields())
        hooks[roles["decompose"].path] = self.hook_decompose
        hooks[roles["quantile"].path] = self.hook_quantile
        hooks[roles["gauss"].path] = lambda I, c, a: world.vector_seq("q", "L")
        hooks[roles["reader_ctor"].path] = lambda I, c, a: Opaque("reader")
        hooks[roles["read"].path] = lambda I, c, a: Num(Expr.leaf("read", fresh("site")))
        for key, rename in (("lmatrix", world.matrix("Lmat")), ("uvec", world.vector_seq("u", "L")), ("vpoly", Num(Expr.symbol("v")))):
            p, h = record_and_rename(key, rename)
            hooks[p] = h
        # reader builders (zero/one on the opaque reader)
        rd_adt = ctx.roles.reader_adt()["adt"]
        for key, b in self.f.mir.items():
            fi = self.f.fns.get(b.path) or {}
            if (self.f.ty(fi.get("impl_self") or "") or {}).get("path") == rd_adt and b is not roles["read"] and b is not roles["reader_ctor"]:
                val = reader_constant(ctx, ctx.roles.reader_adt(), b)      # decided from the body, not from the name
                if val is not None:
                    hooks[b.path] = (lambda v_: (lambda I, c, a: num_const(v_)))(val)
        hooks.update(vector_spec_hooks(self.f))
        try:
            hooks.update(role_hooks(ctx))
        except RoleLost:
            pass
        # count how often each kernel role is reached on the modelled path (compared with the static call sites, see sites_modelled)
        self.ncalls = {}

        def counted(path, h):
            def hook(I, c, a):
                r = h(I, c, a)
                if r is not NotImplemented:
                    self.ncalls[path] = self.ncalls.get(path, 0) + 1
                return r
            return hook
        for k in ("sector", "decompose", "quantile", "gauss", "lmatrix", "uvec", "vpoly"):
            pth = roles[k].path
            hooks[pth] = counted(pth, hooks[pth])
        I = Interp(self.f, models=hooks)
        self.I = I
        s = roles and ctx.roles.sample()
        ctx.fn(s.path, *sorted(set(roles[k].path for k in ("lmatrix", "uvec", "vpoly", "momenta", "shift"))))
        # bind sample's parameters by type
        args = []
        for l in s.locals[1:s.arg_count + 1]:
            ty = l["ty"]
            if "TropicalSubgraphTable" in ty:
                args.append(world.table())
            elif "TropicalSamplingSettings" in ty:
                args.append(world.settings())
            elif "alloc::vec::Vec<isize>" in ty:
                args.append(world.signature())
            elif "core::option::Option<" in ty and "Vector" in ty:
                args.append(world.edge_data())
            elif ty.startswith("&[") and self.f.ty(self.f.ty(self.f.ty(ty)["t"])["t"]).get("k") == "param":
                args.append(Opaque("x_space_point"))
            else:
                args.append(Opaque(l.get("name") or "arg"))
        try:
            res = I.run_fn(s.path, args)
        except Undecided as u:
            self.error = "sample could not be summarised: %s" % u.what
            return
        self.undecided = I.undecided
        if not (isinstance(res, Opt) and res.some is not False and isinstance(res.payload, Struct)):   # Ok, possibly under the error exits' negated conditions
            self.error = "sample's result is not Ok(TropicalSampleResult{..}) on the main path"
            return
        self.result = res.payload
        self.ok = True

    def sector_fields(self):
        """Fields of the sector routine's result by type: the Vec of scalars is `x`, the scalars keep their field names."""
        body = self.roles["sector"]
        rty = self.f.ty(body.local_ty(0)) or {}
        adt = self.f.adts.get(rty.get("path"))
        out = {}
        if adt is None:
            raise Undecided("sector result type")
        for fl in adt["variants"][0]["fields"]:
            if fl["ty"].startswith("alloc::vec::Vec<"):
                out[fl["name"]] = world.scalar_seq("x", "E")
                self.x_field = fl["name"]
            else:
                out[fl["name"]] = Num(Expr.symbol({"u_trop": "ut", "v_trop": "vt"}.get(fl["name"], fl["name"])))
        return out

    def hook_decompose(self, I, c, args):
        self.calls["decompose"] = args
        return Opt(True, world.decomposition())

    def hook_quantile(self, I, c, args):
        self.calls["quantile"] = args
        return Opt(True, Num(Expr.symbol("lambda")))


def vector_spec_hooks(f):
    """Vector's primitives by their definitions (decided separately under C20-b): the formulas of C08-C11 then do not depend on how
    the primitives are coded (assume-guarantee)."""
    def elems(v):
        if isinstance(v, Struct) and "elements" in v.fields:
            return v.fields["elements"]
        raise Undecided("not a vector")

    def mk(fn):
        return Struct("Vector", {"elements": Arr(("D",), fn, name="vec")})

    def h_add(I, c, a):
        x, y = elems(a[0]), elems(a[1])
        return mk(lambda i: Num(x.at(i).expr + y.at(i).expr))

    def h_sub(I, c, a):
        x, y = elems(a[0]), elems(a[1])
        return mk(lambda i: Num(x.at(i).expr - y.at(i).expr))

    def h_mul(I, c, a):
        x = elems(a[0])
        if not isinstance(a[1], Num):
            raise Undecided("vector scaled by a non-scalar")
        return mk(lambda i: Num(x.at(i).expr * a[1].expr))

    def h_dot(I, c, a):
        x, y = elems(a[0]), elems(a[1])
        i = fresh("i")
        return Num((x.at(i).expr * y.at(i).expr).sum_over(i, "D"))

    def h_sq(I, c, a):
        x = elems(a[0])
        i = fresh("i")
        return Num((x.at(i).expr * x.at(i).expr).sum_over(i, "D"))

    def h_zero(I, c, a):
        return mk(lambda i: num_const(0))
    out = {}
    for b in f.mir.values():
        fi = f.fns.get(b.path) or {}
        if "vector::Vector" not in (fi.get("impl_self") or ""):
            continue
        tr, nm = (fi.get("impl_trait") or ""), fi.get("name")
        if tr.endswith("arith::Add") and nm == "add":
            out[b.path] = h_add
        elif tr.endswith("arith::Sub") and nm == "sub":
            out[b.path] = h_sub
        elif tr.endswith("arith::Mul") and nm == "mul":
            out[b.path] = h_mul
        elif not tr and nm == "dot":
            out[b.path] = h_dot
        elif not tr and nm == "squared":
            out[b.path] = h_sq
        elif not tr and nm in ("new", "new_from_num"):
            out[b.path] = h_zero
    return out


_worlds = {}


def sample_world(ctx):
    key = (id(ctx.facts),)
    if key not in _worlds:
        _worlds[key] = SampleWorld(ctx)
    return _worlds[key]


def compare(ctx, rule, desc, got, want, fn, construct, classes, symmetric=("Linv",), stmt=None):
    ok, why = equal_modulo_order(got, want, classes, set(symmetric))
    ctx.ob(rule, desc, ok, fn, construct,
           detail=None if ok else "code ≠ reference formula (%s).\n        code:      %s\n        reference: %s" % (why, got.simplified().key()[:700], want.simplified().key()[:700]))
    return ok


def need_world(ctx, rule):
    w = sample_world(ctx)
    if not w.ok:
        ctx.ob(rule, "sample summarised by the kernel engine", False, "sampling::sample", "kernel-undecided",
               detail="kernel-undecided: %s" % w.error)
        return None
    return w


def sites_modelled(ctx, w, rule, keys):
    """Every static call site of a kernel in `sample` lies on the path the engine summarised: a second site (retry, fallback,
    alternative branch) whose result could reach the outputs is not covered by the formulas and is reported."""
    s = ctx.roles.sample()
    for k in keys:
        body = w.roles[k]
        static = [t for bi, t, cb in ctx.roles.local_callees(s) if cb is body]
        seen = w.ncalls.get(body.path, 0)
        ctx.ob(rule, "every call of the %s kernel in sample is on the summarised path (%d site(s), %d evaluated)" % (k, len(static), seen),
               len(static) >= 1 and seen >= len(static), s.path, "kernel-sites:" + k,
               where=pat.where(static[-1]) if static else None,
               detail="%d call site(s) of %s in sample but %d on the success path that was summarised: the result of the other site(s) "
                      "(a retry or fallback) can reach the returned values without satisfying the formula" % (len(static), body.path, seen))


def scalar_of(v, what):
    if isinstance(v, Num):
        return v.expr
    raise Undecided("%s is not a scalar formula (%r)" % (what, v))


def comp(vec, c):
    """component c of a Vector value"""
    if isinstance(vec, Struct) and "elements" in vec.fields:
        return scalar_of(vec.fields["elements"].at(c), "vector component")
    raise Undecided("not a vector: %r" % (vec,))


def restated_clause(ctx, rule, fn, construct, thunk):
    """A clause borrowed from another property's rule: decided here too when its anchors can be located; when they cannot (RoleLost),
    the OWNING property fails closed and this one only notes the omission (no second alarm for the same lost anchor)."""
    try:
        thunk()
    except RoleLost as e:
        ctx.note("%s: restated clause `%s` skipped — anchor not located (%s); the owning rule reports it" % (rule, construct, e))
    except Undecided as u:
        ctx.ob(rule, "kernel summarised", False, fn, "kernel-undecided:" + construct,
               detail="kernel-undecided: %s (a construct outside the summarisation model lies on the path to a compared output)" % u.what)


def guarded_clause(ctx, rule, fn, construct, thunk):
    try:
        thunk()
    except RoleLost as e:
        ctx.lost(rule, str(e), fn)
    except Undecided as u:
        ctx.ob(rule, "kernel summarised", False, fn, "kernel-undecided:" + construct,
               detail="kernel-undecided: %s (a construct outside the summarisation model lies on the path to a compared output)" % u.what)
    except (AttributeError, KeyError, TypeError, IndexError) as ex:
        # a compared output does not have the shape the clause reads (an opaque value where a struct / matrix is expected): the
        # summary of that output failed upstream — undecided, not an internal error
        ctx.ob(rule, "kernel summarised", False, fn, "kernel-undecided:" + construct,
               detail="kernel-undecided: a compared output is not summarised in the expected shape (%s: %s)" % (type(ex).__name__, ex))


# ---------------------------------------------------------------------------------------------------
# C08

def run_c08(ctx):
    ctx.rule("C08-a", "matrix handed to the decomposition: L[a,b] = Σ_e x_e·s[e,a]·s[e,b] for every (a,b) incl. a>b (mirrored write), all E, L")
    ctx.rule("C08-b", "TropicalSampleResult.u is the determinant of the decomposition of that same matrix; Metadata.l_matrix is that matrix")
    w = need_world(ctx, "C08-a")
    if w is None:
        return
    fn = w.roles["lmatrix"].path

    def a():
        Lm = w.rec["lmatrix"]
        e = fresh("e")
        want = ssum(leaf("x", e) * leaf("sig", e, "a") * leaf("sig", e, "b"), e, "E")
        compare(ctx, "C08-a", "L[a,b] == Σ_e x_e s[e,a] s[e,b] in the regions a<b, a=b, a>b", scalar_of(Lm.at("a", "b"), "L entry"), want, fn,
                "l-matrix-entry", {"a": "L", "b": "L"})
        # the matrix builder's inputs are the sector's x and the caller's signature
        args = w.rec["lmatrix_args"]
        x_ok = isinstance(args[0], Arr) and scalar_of(args[0].at("e0"), "x") == leaf("x", "e0")
        s_ok = isinstance(args[1], Arr) and scalar_of(args[1].at("e0").at("l0"), "sig") == leaf("sig", "e0", "l0")
        ctx.ob("C08-a", "the matrix is built from the sector's Feynman parameters and the caller's signature", x_ok and s_ok, fn, "l-matrix-inputs")
    guarded_clause(ctx, "C08-a", fn, "l-matrix", a)

    def b():
        dargs = w.calls.get("decompose")
        ok = dargs is not None and isinstance(dargs[0], Arr) and scalar_of(dargs[0].at("a", "b"), "arg") == leaf("Lmat", "a", "b")
        ctx.ob("C08-b", "the decomposition receives the matrix built by the L-matrix kernel", ok, "sampling::sample", "decompose-receives-l-matrix")
        u = scalar_of(w.result.fields["u"], "u")
        ctx.ob("C08-b", "result.u is the decomposition's determinant", u == Expr.symbol("u"), "sampling::sample", "u-is-determinant",
               detail="u = %s" % u.key())
        md = w.result.fields["metadata"]
        lm = md.payload.fields["l_matrix"]
        ctx.ob("C08-b", "Metadata.l_matrix is that matrix", scalar_of(lm.at("a", "b"), "l_matrix") == leaf("Lmat", "a", "b"), "sampling::sample",
               "metadata-l-matrix")
        sites_modelled(ctx, w, "C08-b", ("sector", "lmatrix", "decompose"))
        from .common import signature_wiring
        signature_wiring(ctx, ctx.roles, "C08-b")
    guarded_clause(ctx, "C08-b", "sampling::sample", "u-wiring", b)
    ctx.rule("C08-c", "the determinant returned as u is (Π_i q[i,i])² of the factor defined by the Cholesky–Banachiewicz recurrence on that matrix")
    determinant_clause(ctx, "C08-c")


def determinant_clause(ctx, RID):
    cholesky_clause(ctx, RID)
    mw = matrix_world(ctx)
    if mw.ok:
        def detc():
            qt = scalar_of(mw.result.fields["q_transposed"].at("a", "b"), "q_transposed")
            names = single_matrix_leaf(qt)
            if len(names) != 1:
                raise Undecided("factor matrix not identified")
            Q = sorted(names)[0]
            i = fresh("i")
            compare(ctx, RID, "determinant == (Π_i q[i,i])²", scalar_of(mw.result.fields["determinant"], "determinant"),
                    Expr.atom(("prod", i, "n", leaf(Q, i, i))).powf(2), mw.dec.path, "determinant-wiring", {}, ())
        guarded_clause(ctx, RID, mw.dec.path, "determinant", detc)


def run_c16e(ctx):
    ctx.rule("C16-e", "[restated from C08-c / C15-e] the value whose zero test guards Ok (C16-a) is (Π_i q[i,i])² with q[i,i] = (A[i,i] − Σ_{k<i} q[i,k]²)^½ the "
                      "Cholesky pivots of the input matrix itself: nothing between the matrix and the test replaces a zero pivot")
    determinant_clause(ctx, "C16-e")


# ---------------------------------------------------------------------------------------------------
# C09

def mhat(e):
    return Expr.atom(("ite", "has_mass[«%s»]" % e, leaf("m", e), Expr.zero()))


def run_c09(ctx):
    ctx.rule("C09-a", "u_l.c = Σ_e x_e·s[e,l]·p_e.c")
    ctx.rule("C09-b", "v = Σ_e x_e·(m_e² + Σ_c p_e.c²) − Σ_{l,l'} (Σ_c u_l.c·u_l'.c)·L⁻¹[l,l'], m_e = 0 for None, L⁻¹ = the decomposition's `inverse`; result.v is that value")
    w = need_world(ctx, "C09-a")
    if w is None:
        return
    guarded_clause(ctx, "C09-b", "sampling::sample", "kernel-sites", lambda: sites_modelled(ctx, w, "C09-b", ("uvec", "vpoly", "decompose")))

    def a():
        fn = w.roles["uvec"].path
        e = fresh("e")
        want = ssum(leaf("x", e) * leaf("sig", e, "l") * leaf("p", e, "c"), e, "E")
        compare(ctx, "C09-a", "u_l.c == Σ_e x_e s[e,l] p_e.c", comp(w.rec["uvec"].at("l"), "c"), want, fn, "u-vector", {"l": "L", "c": "D"})
        md = w.result.fields["metadata"].payload
        ctx.ob("C09-a", "Metadata.u_vectors are those vectors", comp(md.fields["u_vectors"].at("l"), "c") == leaf("u", "l", "c"), "sampling::sample",
               "metadata-u-vectors")
    guarded_clause(ctx, "C09-a", w.roles["uvec"].path, "u-vector", a)

    def b():
        fn = w.roles["vpoly"].path
        e, c, l1, l2, c2 = fresh("e"), fresh("c"), fresh("l"), fresh("l"), fresh("c")
        masses = ssum(leaf("x", e) * (mhat(e) * mhat(e) + ssum(leaf("p", e, c) * leaf("p", e, c), c, "D")), e, "E")
        cross = ssum(ssum(ssum(leaf("u", l1, c2) * leaf("u", l2, c2), c2, "D") * leaf("Linv", l1, l2), l1, "L"), l2, "L")
        want = masses - cross
        compare(ctx, "C09-b", "v == Σ x(m²+p²) − uᵀL⁻¹u (diagonal + 2·upper ≡ full square, L⁻¹ symmetric)", scalar_of(w.rec["vpoly"], "v"), want, fn,
                "v-polynomial", {})
        ctx.ob("C09-b", "result.v is that value", scalar_of(w.result.fields["v"], "v") == Expr.symbol("v"), "sampling::sample", "v-wiring")
    guarded_clause(ctx, "C09-b", w.roles["vpoly"].path, "v-polynomial", b)
    ctx.rule("C09-c", "the matrix whose determinant (u) and inverse (L⁻¹) enter V·U is L[a,b] = Σ_e x_e·s[e,a]·s[e,b], with orientation signs")

    def c():
        fn = w.roles["lmatrix"].path
        e = fresh("e")
        want = ssum(leaf("x", e) * leaf("sig", e, "a") * leaf("sig", e, "b"), e, "E")
        compare(ctx, "C09-c", "L[a,b] == Σ_e x_e s[e,a] s[e,b]", scalar_of(w.rec["lmatrix"].at("a", "b"), "L entry"), want, fn, "l-matrix-entry",
                {"a": "L", "b": "L"})
        dargs = w.calls.get("decompose")
        ok = dargs is not None and isinstance(dargs[0], Arr) and scalar_of(dargs[0].at("a", "b"), "arg") == leaf("Lmat", "a", "b")
        ctx.ob("C09-c", "u and L⁻¹ come from the decomposition of that matrix", ok, "sampling::sample", "decompose-receives-l-matrix")
        from .common import signature_wiring
        signature_wiring(ctx, ctx.roles, "C09-c")
    guarded_clause(ctx, "C09-c", w.roles["lmatrix"].path, "l-matrix", c)
    # the Vector primitives the u vectors and V are written in (restated from C20-b: the formulas above use them by definition)
    ctx.rule("C09-e", "the Vector primitives used by the u vectors and V are componentwise: a+b, a·s, dot = Σ_i a_i·b_i, squared = Σ_i a_i²")
    run_c20b(ctx, "C09-e", only=("add", "mul-by-value", "mul-by-ref", "dot"))
    # d: the `inverse` that enters V is the inverse of that matrix (Cholesky recurrence, nilpotent series, assembly, product wiring)
    run_c15e(ctx, "C09-d")
    matrix_wiring_clause(ctx, "C09-d", "L⁻¹ in V")


# ---------------------------------------------------------------------------------------------------
# C10

def run_c10(ctx):
    ctx.rule("C10-a", "k_l.c = Σ_l' ( (v/(2λ))^½ · Q⁻ᵀ[l,l'] · q_l'.c − L⁻¹[l,l'] · u_l'.c ), Q⁻ᵀ = field q_transposed_inverse indexed (output, summed)")
    ctx.rule("C10-b", "Metadata.shift_l.c = Σ_l' L⁻¹[l,l'] · u_l'.c; Metadata.lambda / q_vectors are the quantile's result / the Gaussian vectors")
    w = need_world(ctx, "C10-a")
    if w is None:
        return
    guarded_clause(ctx, "C10-b", "sampling::sample", "kernel-sites", lambda: sites_modelled(ctx, w, "C10-b", ("quantile", "gauss", "decompose")))

    def a():
        fn = w.roles["momenta"].path
        lp = fresh("l")
        pref = (Expr.symbol("v") * Expr.symbol("lambda").inv() * Expr.const(sp.Rational(1, 2))).powf(sp.Rational(1, 2))
        want = ssum(pref * leaf("QTi", "l", lp) * leaf("q", lp, "c") - leaf("Linv", "l", lp) * leaf("u", lp, "c"), lp, "L")
        got = comp(w.result.fields["loop_momenta"].at("l"), "c")
        compare(ctx, "C10-a", "k_l.c == Σ_l' (√(v/2λ)·QTi[l,l']·q_l'.c − Linv[l,l']·u_l'.c)", got, want, fn, "loop-momenta", {"l": "L", "c": "D"})
    guarded_clause(ctx, "C10-a", w.roles["momenta"].path, "loop-momenta", a)

    def b():
        fn = w.roles["shift"].path
        md = w.result.fields["metadata"].payload
        lp = fresh("l")
        want = ssum(leaf("Linv", "l", lp) * leaf("u", lp, "c"), lp, "L")
        compare(ctx, "C10-b", "shift_l.c == Σ_l' Linv[l,l']·u_l'.c (positive sign)", comp(md.fields["shift"].at("l"), "c"), want, fn, "shift", {"l": "L", "c": "D"})
        ctx.ob("C10-b", "Metadata.lambda is the Gamma variate used in the momenta", scalar_of(md.fields["lambda"], "lambda") == Expr.symbol("lambda"),
               "sampling::sample", "metadata-lambda")
        ctx.ob("C10-b", "Metadata.q_vectors are the Gaussian vectors used in the momenta", comp(md.fields["q_vectors"].at("l"), "c") == leaf("q", "l", "c"),
               "sampling::sample", "metadata-q-vectors")
        dr = md.fields.get("decompoisiton_result") or md.fields.get("decomposition_result")
        if isinstance(dr, Struct):
            bad_ = []
            for fld_, nm_ in (("q_transposed_inverse", "QTi"), ("inverse", "Linv"), ("q_transposed", "QT")):
                v_ = dr.fields.get(fld_)
                if not (isinstance(v_, Arr) and scalar_of(v_.at("a", "b"), fld_) == leaf(nm_, "a", "b")):
                    bad_.append(fld_)
            d_ = dr.fields.get("determinant")
            if not (isinstance(d_, Num) and d_.expr == Expr.symbol("u")):
                bad_.append("determinant")
            ctx.ob("C10-b", "Metadata's decomposition result is the one used, field by field (a copy made for the metadata copies every field from itself)",
                   not bad_, "sampling::sample", "metadata-decomposition", detail="fields that are not the decomposition's own: %s" % bad_)
        else:
            ctx.ob("C10-b", "Metadata carries the decomposition result", False, "sampling::sample", "metadata-decomposition", detail="field not found / not summarised")
    guarded_clause(ctx, "C10-b", w.roles["shift"].path, "shift", b)
    ctx.rule("C10-c", "the two decomposition fields the momentum map consumes are consistent: inverse = Q⁻ᵀ·(Q⁻ᵀ)ᵀ, so the covariance (v/2λ)·Q⁻ᵀQ⁻¹ is (v/2λ)·L⁻¹")
    matrix_wiring_clause(ctx, "C10-c", "covariance")
    run_c15e(ctx, "C10-d")
    # e: the u vectors and the v that enter the map are the statement's (restated from C09)
    ctx.rule("C10-e", "the centre uses u_l.c = Σ_e x_e·s[e,l]·p_e.c and the scale uses v = Σ x(m²+p²) − uᵀL⁻¹u")

    def e_():
        e = fresh("e")
        want = ssum(leaf("x", e) * leaf("sig", e, "l") * leaf("p", e, "c"), e, "E")
        compare(ctx, "C10-e", "u_l.c == Σ_e x_e s[e,l] p_e.c", comp(w.rec["uvec"].at("l"), "c"), want, w.roles["uvec"].path, "u-vector", {"l": "L", "c": "D"})
        e2, c, l1, l2, c2 = fresh("e"), fresh("c"), fresh("l"), fresh("l"), fresh("c")
        masses = ssum(leaf("x", e2) * (mhat(e2) * mhat(e2) + ssum(leaf("p", e2, c) * leaf("p", e2, c), c, "D")), e2, "E")
        cross = ssum(ssum(ssum(leaf("u", l1, c2) * leaf("u", l2, c2), c2, "D") * leaf("Linv", l1, l2), l1, "L"), l2, "L")
        compare(ctx, "C10-e", "v == Σ x(m²+p²) − uᵀL⁻¹u", scalar_of(w.rec["vpoly"], "v"), masses - cross, w.roles["vpoly"].path, "v-polynomial", {})
        # the matrix whose inverse and Cholesky factor enter the map (Q·Qᵀ = L of the statement)
        e3 = fresh("e")
        compare(ctx, "C10-e", "L[a,b] == Σ_e x_e s[e,a] s[e,b]", scalar_of(w.rec["lmatrix"].at("a", "b"), "L entry"),
                ssum(leaf("x", e3) * leaf("sig", e3, "a") * leaf("sig", e3, "b"), e3, "E"), w.roles["lmatrix"].path, "l-matrix-entry", {"a": "L", "b": "L"})
        from .common import signature_wiring
        signature_wiring(ctx, ctx.roles, "C10-e")
    guarded_clause(ctx, "C10-e", w.roles["vpoly"].path, "u-and-v", e_)


# ---------------------------------------------------------------------------------------------------
# C11 (jacobian part; the rescaling identity lives with C07)

def run_c11_jacobian(ctx):
    ctx.rule("C11-a", "jacobian = cached_factor · u_trop^(D/2) · u^(−D/2) · v_trop^dod · v^(−dod) with D, dod, cached_factor read from the table")
    w = need_world(ctx, "C11-a")
    if w is None:
        return
    guarded_clause(ctx, "C11-a", "sampling::sample", "kernel-sites", lambda: sites_modelled(ctx, w, "C11-a", ("sector", "decompose", "vpoly")))

    def a():
        ut, vt, u, v, cached = (Expr.symbol(n) for n in ("ut", "vt", "u", "v", "cached"))
        want = cached * ut.powf(D / 2) * u.powf(-D / 2) * vt.powf(DOD) * v.powf(-DOD)
        got = scalar_of(w.result.fields["jacobian"], "jacobian")
        compare(ctx, "C11-a", "jacobian == cached·(u_trop/u)^(D/2)·(v_trop/v)^dod (symbolic exponents)", got, want, "sampling::sample", "jacobian", {})
        ok = scalar_of(w.result.fields["u_trop"], "u_trop") == ut and scalar_of(w.result.fields["v_trop"], "v_trop") == vt
        ctx.ob("C11-a", "returned u_trop / v_trop are the sector routine's", ok, "sampling::sample", "trop-wiring")
        q = w.calls.get("quantile")
        if q is not None:
            ctx.ob("C11-a", "the Gamma shape is the table's dod", scalar_of(q[0], "shape") == Expr.symbol("dod"), "sampling::sample", "gamma-shape-dod",
                   detail="shape = %s" % scalar_of(q[0], "shape").key())
    guarded_clause(ctx, "C11-a", "sampling::sample", "jacobian", a)


# ---------------------------------------------------------------------------------------------------
# C15 / C16-d: the matrix routine

class MatrixWorld:
    def __init__(self, ctx):
        self.ctx = ctx
        self.f = ctx.facts
        self.ok = False
        self.error = None
        try:
            self.dec = ctx.roles.decompose()
        except RoleLost as e:
            self.error = str(e)
            return
        X.POSITIVE_LEAVES |= {"q", "A"}
        I = Interp(self.f)
        I.matrix_level = True       # the nilpotent series is summarised as a polynomial in the matrix N (see run_c15e)
        self.I = I
        try:
            res = I.run_fn(self.dec.path, [world.matrix("A", "n"), world.settings()])
        except Undecided as u:
            self.error = "decompose_for_tropical could not be summarised: %s" % u.what
            return
        if not (isinstance(res, Opt) and res.some is not False and isinstance(res.payload, Struct)):   # Ok, possibly under the error exits' negated conditions
            self.error = "no Ok(DecompositionResult{..}) on the main path"
            return
        self.result = res.payload
        self.ok = True


_mworlds = {}


def matrix_world(ctx):
    key = id(ctx.facts)
    if key not in _mworlds:
        _mworlds[key] = MatrixWorld(ctx)
    return _mworlds[key]


def single_matrix_leaf(expr):
    """Names of two-index leaves occurring in expr."""
    names = set()

    def visit(a):
        if a[0] == "leaf" and len(a) == 4:
            names.add(a[1])
        return False
    expr.has_atom(visit)
    return names


def find_local_impl(ctx, trait_suffix, self_contains, name):
    out = []
    for key, b in ctx.facts.mir.items():
        fi = ctx.facts.fns.get(b.path) or {}
        if fi.get("name") == name and (fi.get("impl_trait") or "").endswith(trait_suffix) and self_contains in (fi.get("impl_self") or ""):
            out.append(b)
    return out


def run_c15(ctx):
    ctx.rule("C15-a", "Mul for &SquareMatrix: (A·B)[r,c] = Σ_k A[r,k]·B[k,c]")
    ctx.rule("C15-b", "outputs' wiring: determinant = (Π_i Q[i,i])², q_transposed[r,c] = Q[c,r] for one factor matrix Q, "
                      "inverse[a,b] = Σ_k QTI[a,k]·QTI[b,k] with QTI the returned q_transposed_inverse (= Q⁻ᵀ·Q⁻¹ in this operand order)")
    ctx.rule("C15-c", "the factor is written only on and below the diagonal (q_transposed upper-triangular) and every diagonal write is a square root")
    ctx.rule("C15-d", "Index and IndexMut of SquareMatrix address the same flat offset r·dim + c")
    f = ctx.facts
    # a. Mul
    muls = [b for b in find_local_impl(ctx, "arith::Mul", "&", "mul") if "SquareMatrix" in (f.fns[b.path].get("impl_self") or "")]
    if len(muls) != 1:
        ctx.lost("C15-a", "impl Mul<&SquareMatrix> for &SquareMatrix (found %d)" % len(muls))
    else:
        def a():
            I = Interp(f)
            ctx.fn(muls[0].path)
            res = I.run_fn(muls[0].path, [world.matrix("A", "n"), world.matrix("B", "n")])
            k = fresh("k")
            want = ssum(leaf("A", "r", k) * leaf("B", k, "c"), k, "n")
            compare(ctx, "C15-a", "(A·B)[r,c] == Σ_k A[r,k] B[k,c]", scalar_of(res.at("r", "c"), "entry"), want, muls[0].path, "matrix-product",
                    {"r": "n", "c": "n"}, symmetric=())
        guarded_clause(ctx, "C15-a", muls[0].path, "matrix-product", a)
    # b. wiring
    w = matrix_world(ctx)
    if not w.ok:
        ctx.ob("C15-b", "decompose_for_tropical summarised", False, "matrix::SquareMatrix::decompose_for_tropical", "kernel-undecided", detail=w.error)
    else:
        fn = w.dec.path
        ctx.fn(fn)

        def b():
            r = w.result
            det = scalar_of(r.fields["determinant"], "determinant")
            qt = scalar_of(r.fields["q_transposed"].at("a", "b"), "q_transposed")
            qti = r.fields["q_transposed_inverse"]
            inv = scalar_of(r.fields["inverse"].at("a", "b"), "inverse")
            names = single_matrix_leaf(qt)
            ok_q = len(names) == 1
            Q = sorted(names)[0] if names else "?"
            ctx.ob("C15-b", "q_transposed[a,b] == Q[b,a] for a single factor matrix Q (= `%s`)" % Q, ok_q and qt == leaf(Q, "b", "a"), fn,
                   "q-transposed-wiring", detail="q_transposed[a,b] = %s" % qt.key()[:300])
            i = fresh("i")
            want_det = Expr.atom(("prod", i, "n", leaf(Q, i, i))).powf(2)
            compare(ctx, "C15-b", "determinant == (Π_i Q[i,i])²", det, want_det, fn, "determinant-wiring", {}, symmetric=())
            k = fresh("k")
            want_inv = ssum(scalar_of(qti.at("a", k), "qti") * scalar_of(qti.at("b", k), "qti"), k, "n")
            compare(ctx, "C15-b", "inverse[a,b] == Σ_k QTI[a,k]·QTI[b,k] (inverse = q_transposed_inverse · its transpose)", inv, want_inv, fn,
                    "inverse-product-wiring", {"a": "n", "b": "n"}, symmetric=())
        guarded_clause(ctx, "C15-b", fn, "wiring", b)

        def c():
            recs = [r for r in w.I.recurrences]
            # the factor's name: the matrix read by q_transposed
            names = single_matrix_leaf(scalar_of(w.result.fields["q_transposed"].at("a", "b"), "q_transposed"))
            if len(names) != 1:
                raise Undecided("factor matrix not identified")
            writes = []
            for rec in recs:
                for (var, path, op, val, gs, bs) in rec["effects"]:
                    mid = [p for p in path if p[0] == "midx"]
                    if mid and any(nm in str(var) or True for nm in names):
                        writes.append((var, mid[0][1], gs, val, rec))
            # writes to the variable that became the factor: identify by the opaque name used in outputs
            fwrites = [wr for wr in writes if w.I.var_names.get(wr[0]) in names]
            ok = bool(fwrites)
            det = []
            for (var, (r_, c_), gs, val, rec) in fwrites:
                lower = (r_ == c_) or ("<", c_, r_) in [tuple(g) for g in gs] or ("<=", c_, r_) in [tuple(g) for g in gs]
                if not lower:
                    ok = False
                    det.append("write at (%s,%s) under guards %s is not on/below the diagonal" % (r_, c_, gs))
                if r_ == c_:
                    e = scalar_of(val, "diagonal write")
                    is_sqrt = len(e.terms) == 1 and any(str(x) == "1/2" for a, x in e.terms[0].atoms)
                    if not is_sqrt:
                        ok = False
                        det.append("diagonal write is not a square root: %s" % e.key()[:120])
            ctx.ob("C15-c", "factor `%s`: %d writes, all at (i,i) or (j,i) with j>i; diagonal writes are square roots" % (sorted(names)[0], len(fwrites)), ok, fn,
                   "factor-triangular", detail="; ".join(det) or "no writes to the factor were found")
        guarded_clause(ctx, "C15-c", fn, "triangular", c)
    # d. Index / IndexMut offsets
    index_offset_clause(ctx, "C15-d")

    zero_constructor_clause(ctx, "C15-d")


def index_offset_clause(ctx, RID):
    f = ctx.facts

    def d():
        offs = {}
        for tr, nm in (("index::Index", "index"), ("index::IndexMut", "index_mut")):
            bs = [b for b in find_local_impl(ctx, tr, "SquareMatrix", nm)]
            if len(bs) != 1:
                raise Undecided("impl %s for SquareMatrix (found %d)" % (tr, len(bs)))
            ctx.fn(bs[0].path)
            I = Interp(f)
            me = Struct("SquareMatrix", {"data": Arr(("?",), lambda i: Num(Expr.leaf("data", i)), name="data"), "dim": Num(Expr.symbol("dim"))})
            res = I.run_fn(bs[0].path, [me, Tup([Num(Expr.leaf("$ix", "r"), ent="r"), Num(Expr.leaf("$ix", "c"), ent="c")])])
            from ..kern.interp import PlaceRef
            if isinstance(res, PlaceRef):
                idx = [p for p in res.path if p[0] == "idx"]
                offs[nm] = idx[0][1] if idx else None
            else:
                e = scalar_of(res, "element")
                offs[nm] = e.terms[0].atoms[0][0][2] if e.terms and e.terms[0].atoms else None
        want = "⟨%s⟩" % (Expr.leaf("$ix", "r") * Expr.symbol("dim") + Expr.leaf("$ix", "c")).key()
        ctx.ob(RID, "Index offset is r·dim + c", offs.get("index") == want, "matrix::SquareMatrix::index", "index-offset",
               detail="offset %s, expected %s" % (offs.get("index"), want))
        ctx.ob(RID, "IndexMut offset is r·dim + c (sibling agreement)", offs.get("index_mut") == want, "matrix::SquareMatrix::index_mut", "index-mut-offset",
               detail="offset %s, expected %s" % (offs.get("index_mut"), want))
    guarded_clause(ctx, RID, "matrix::SquareMatrix", "index-offset", d)


def zero_constructor_clause(ctx, RID):
    f = ctx.facts

    def zeros():
        # the storage abstraction reads `new_zeros(dim)` / `new_zeros_from_num(_, dim)` as the dim×dim zero matrix: decided here from the bodies
        n_ = 0
        for fn_ in f.items["fns"]:
            if fn_.get("name") in ("new_zeros", "new_zeros_from_num") and "SquareMatrix" in (fn_.get("impl_self") or "") and fn_["path"] in f.mir:
                b_ = f.mir[fn_["path"]]
                ctx.fn(b_.path)
                I = Interp(f)
                I.no_storage_model = True      # the constructors are evaluated from their bodies here, one delegating to the other included
                me = Struct("SquareMatrix", {"data": Arr(("?",), lambda i: Num(Expr.leaf("data", i)), name="data"), "dim": Num(Expr.symbol("dim0"))})
                first = me if fn_["name"] == "new_zeros" else Num(Expr.leaf("builder"))
                res = I.run_fn(b_.path, [first, Num(Expr.symbol("dim"))])
                ok = isinstance(res, Struct) and isinstance(res.fields.get("data"), Arr)
                det = "result %r" % (res,)
                if ok:
                    d_ = res.fields["data"]
                    size = I.derived_sizes.get(d_.classes[0])
                    el = d_.at("i")
                    ok = (isinstance(el, Num) and el.expr.simplified() == Expr.zero() and size is not None
                          and size.simplified() == (Expr.symbol("dim") * Expr.symbol("dim")).simplified()
                          and scalar_of(res.fields["dim"], "dim") == Expr.symbol("dim"))
                    det = "element %s, extent %s, dim %s" % (el.expr.key() if isinstance(el, Num) else el, size.key() if size is not None else d_.classes[0],
                                                           scalar_of(res.fields["dim"], "dim").key())
                ctx.ob(RID, "%s builds dim·dim zeros with the given dim" % fn_["name"], ok, b_.path, "zero-constructor:" + fn_["name"], detail=det)
                n_ += 1
        if n_ == 0:
            ctx.note("%s: no constructor is abstracted by name on this tree (bodies are evaluated where they are called)" % RID)

    guarded_clause(ctx, RID, "matrix::SquareMatrix", "zero-constructor", zeros)


def top_local(I, name):
    """Final value of a local of the top-level function, by name."""
    for env in I.block_envs:
        for vid, val in env.vars.items():
            if I.var_names.get(vid) == name:
                return val
    return None


def cholesky_clause(ctx, RID):
    zero_constructor_clause(ctx, RID)
    if RID != "C15-e":          # C15 decides it under C15-d
        index_offset_clause(ctx, RID)
    w = matrix_world(ctx)
    if not w.ok:
        return ctx.ob(RID, "decompose_for_tropical summarised", False, "matrix::SquareMatrix::decompose_for_tropical", "kernel-undecided", detail=w.error)
    fn = w.dec.path
    I = w.I
    ctx.fn(fn)

    def chol():
        names = single_matrix_leaf(scalar_of(w.result.fields["q_transposed"].at("a", "b"), "q_transposed"))
        if len(names) != 1:
            raise Undecided("factor matrix not identified")
        Q = sorted(names)[0]
        recs = [r for r in I.recurrences if Q in r.get("names", []) and "equations" in r]
        if len(recs) != 1:
            raise Undecided("the factor `%s` is not defined by exactly one recurrence loop (%d; %s)" % (Q, len(recs), [r.get("pass2_error") for r in I.recurrences]))
        rec = recs[0]
        i, cls, og = rec["outer"]
        eqs = [e for e in rec["equations"] if e[0] == Q]
        diag = [e for e in eqs if e[1][0][1] == (i, i)]
        off = [e for e in eqs if e[1][0][1] != (i, i)]
        ctx.ob(RID, "one diagonal and one sub-diagonal write per outer iteration", len(diag) == 1 and len(off) == 1 and all(e[2] == "=" for e in eqs), fn,
               "cholesky-write-pattern", detail="writes %s" % [(e[1], e[2], e[4]) for e in eqs])
        if len(diag) != 1 or len(off) != 1:
            return
        k = fresh("k")
        Di = leaf("A", i, i) - ssum(leaf(Q, i, k) * leaf(Q, i, k), k, cls, [("<", k, i)])
        want_d = Di.powf(sp.Rational(1, 2))
        compare(ctx, RID, "q[i,i] == (A[i,i] − Σ_{k<i} q[i,k]²)^½", scalar_of(diag[0][3], "diagonal write"), want_d, fn, "cholesky-diagonal", {i: cls}, ("A",))
        (jr, jc) = off[0][1][0][1]
        j_ok = jc == i and (("<", i, jr) in off[0][4]) and any(b[0] == jr for b in off[0][5])
        ctx.ob(RID, "the sub-diagonal write goes to (j,i) for every j > i", j_ok, fn, "cholesky-offdiagonal-index", detail="index (%s,%s) guards %s" % (jr, jc, off[0][4]))
        k2 = fresh("k")
        num = leaf("A", i, jr) - ssum(leaf(Q, i, k2) * leaf(Q, jr, k2), k2, cls, [("<", k2, i)])
        want_o = num * Di.powf(sp.Rational(-1, 2))
        compare(ctx, RID, "q[j,i] == (A[i,j] − Σ_{k<i} q[i,k]·q[j,k]) / q[i,i]", scalar_of(off[0][3], "sub-diagonal write"), want_o, fn, "cholesky-offdiagonal",
                {i: cls, jr: cls}, ("A",))
        # dependences: every read of the factor is in a column strictly left of the current one
        bad = [r for r in rec["reads"] if r[0] == Q and ("<", r[1][1], i) not in r[2]]
        ctx.ob(RID, "every read of the factor (%d reads) is in a column k < i, written in an earlier iteration" % len(rec["reads"]), not bad and bool(rec["reads"]), fn,
               "cholesky-read-before-write", detail="reads not provably earlier: %s" % bad[:3])

    guarded_clause(ctx, RID, fn, "cholesky", chol)


def run_c15e(ctx, RID="C15-e"):
    ctx.rule(RID, "the factor loop is the Cholesky–Banachiewicz recurrence q[i,i] = (A[i,i] − Σ_{k<i} q[i,k]²)^½, q[j,i] = (A[i,j] − Σ_{k<i} q[i,k]·q[j,k])/q[i,i] (j>i), "
                      "every read refers to a column written in an earlier iteration; N = D⁻¹Q − I strictly lower; Q⁻¹ = (I + Σ_{t≥1} (−N)^t)·D⁻¹ with the powers "
                      "N¹..N^(dim−1) built by repeated multiplication and alternating signs")
    from ..vals import Vals
    from .. import cfg
    w = matrix_world(ctx)
    if not w.ok:
        return ctx.ob(RID, "decompose_for_tropical summarised", False, "matrix::SquareMatrix::decompose_for_tropical", "kernel-undecided", detail=w.error)
    fn = w.dec.path
    I = w.I

    cholesky_clause(ctx, RID)

    def nmat():
        names = single_matrix_leaf(scalar_of(w.result.fields["q_transposed"].at("a", "b"), "q_transposed"))
        Q = sorted(names)[0]
        # inverse of the triangular factor: QTI[a,b] = inverse_q[b,a] = (S[b,a] + [a=b]) / q[a,a] for one matrix S (the series sum)
        qti = scalar_of(w.result.fields["q_transposed_inverse"].at("a", "b"), "qti")
        snames = single_matrix_leaf(qti) - {Q}
        if len(snames) != 1:
            raise Undecided("series-sum matrix not identified in q_transposed_inverse (%s)" % sorted(snames))
        Sn = sorted(snames)[0]
        want = (leaf(Sn, "b", "a") + Expr.const(1).guarded([("=", "a", "b")])) * leaf(Q, "a", "a").inv()
        compare(ctx, RID, "Q⁻¹[r,c] == (S[r,c] + [r=c])/q[c,c]  (S = `%s`, the series sum)" % Sn, qti, want, fn, "inverse-assembly", {"a": "n", "b": "n"}, ())
        # N: the matrix whose powers are taken (the base of the matrix-level polynomials)
        base = I.mat_base
        ok_n = False
        if base is not None:
            e_ = scalar_of(base.at("r", "c"), "entry")
            want_n = (leaf(Q, "r", "c") * leaf(Q, "r", "r").inv()).guarded([("<", "c", "r")])
            ok_n, _why = equal_modulo_order(e_, want_n, {"r": "n", "c": "n"}, set())
            if not ok_n:
                # rows start at 1 in the code (0 <= c < r makes r >= 1 anyway)
                ok_n, _why = equal_modulo_order(e_, want_n.guarded([("<=", 1, "r")]), {"r": "n", "c": "n"}, set())
        ctx.ob(RID, "the matrix whose powers are taken is N[r,c] = [c<r]·q[r,c]/q[r,r] (strictly lower part of D⁻¹Q)", ok_n, fn, "n-matrix",
               detail="no matrix is multiplied with itself" if base is None else "entries of the multiplied matrix: %s" % scalar_of(base.at("r", "c"), "entry").key()[:300])
        # the series: S as a polynomial in N, decided at matrix level (powers of one matrix commute; the operator impls used are verified below)
        from ..kern.models import matpow
        from ..kern.interp import _assume
        poly = I.mat_defs.get(Sn)
        lrs = list(I.list_recurrences)
        nm1 = (Expr.symbol("n") - Expr.const(1)).simplified()
        ok_len = len(lrs) == 1 and lrs[0]["length"].simplified() == nm1
        ctx.ob(RID, "powers of N: the list starts with N and every iteration appends (previous power)·N — by induction element t is N^(t+1), "
                    "t = 0..dim−2 (N¹..N^(dim−1); for dim = 1 the single element is the empty strictly-lower matrix)", ok_len, fn, "nilpotent-powers",
               detail="closed forms found: %s" % [(r_["var"], r_["length"].key()) for r_ in lrs])
        ok_s, det = False, "the series sum `%s` is not a polynomial in N" % Sn
        if poly is not None:
            ts = poly.simplified().terms
            det = "S = %s" % poly.key()[:400]
            if len(ts) == 1 and ts[0].coeff == 1 and len(ts[0].binders) == 1 and not [g for g in ts[0].guards if g != ("true",)]:
                t_, tcls = ts[0].binders[0]
                bodyx = Expr([ts[0].drop_binder(t_)])
                key = "even(«%s»)" % t_
                ev, od = _assume(bodyx, key, True), _assume(bodyx, key, False)
                term = matpow(Expr.leaf("$ix", t_) + Expr.const(1))
                size = I.derived_sizes.get(tcls)
                ok_s = (ev == -term and od == term and size is not None and size.simplified() == nm1)
                det += "; even t: %s, odd t: %s, t < %s" % (ev.key()[:120], od.key()[:120], size.key() if size is not None else tcls)
        ctx.ob(RID, "series sum: S = Σ_{t=0}^{dim−2} (−1)^(t+1)·N^(t+1) = Σ_{s=1}^{dim−1} (−N)^s, starting from the zero matrix", ok_s, fn, "alternating-series", detail=det)
        for opath in sorted(I.mat_ops_used):
            verify_matrix_op(ctx, RID, opath)
        w.n_name = None
        w.s_name = Sn
    guarded_clause(ctx, RID, fn, "n-matrix", nmat)


def verify_matrix_op(ctx, RID, path):
    """An operator impl on matrices that the series summary used at matrix level means what its symbol says, entry by entry."""
    f = ctx.facts
    fi = f.fns.get(path) or {}
    name = fi.get("name")
    I = Interp(f)
    res = I.run_fn(path, [world.matrix("A", "n"), world.matrix("B", "n")])
    got = scalar_of(res.at("r", "c"), "entry")
    if name == "mul":
        k = fresh("k")
        want = ssum(leaf("A", "r", k) * leaf("B", k, "c"), k, "n")
    elif name == "add":
        want = leaf("A", "r", "c") + leaf("B", "r", "c")
    else:
        want = leaf("A", "r", "c") - leaf("B", "r", "c")
    compare(ctx, RID, "operator used by the series: (A %s B)[r,c] is the matrix %s" % ({"mul": "·", "add": "+", "sub": "−"}.get(name, name), {"mul": "product"}.get(name, "sum / difference")),
            got, want, path, "matrix-op:%s" % name, {"r": "n", "c": "n"}, symmetric=())


def Root_strip(r):
    return r


def matrix_wiring_clause(ctx, rule, what):
    """inverse = QTI·QTIᵀ and q_transposed = Qᵀ, restated for properties whose formulas consume these fields."""
    w = matrix_world(ctx)
    if not w.ok:
        ctx.ob(rule, "decompose_for_tropical summarised", False, "matrix::SquareMatrix::decompose_for_tropical", "kernel-undecided", detail=w.error)
        return
    fn = w.dec.path
    ctx.fn(fn)

    def body():
        r = w.result
        qti = r.fields["q_transposed_inverse"]
        inv = scalar_of(r.fields["inverse"].at("a", "b"), "inverse")
        k = fresh("k")
        want_inv = ssum(scalar_of(qti.at("a", k), "qti") * scalar_of(qti.at("b", k), "qti"), k, "n")
        compare(ctx, rule, "%s: the fields consumed satisfy inverse[a,b] == Σ_k q_transposed_inverse[a,k]·q_transposed_inverse[b,k]" % what, inv, want_inv, fn,
                "inverse-vs-qti", {"a": "n", "b": "n"}, symmetric=())
    guarded_clause(ctx, rule, fn, "inverse-vs-qti", body)


def run_c16d(ctx, RID="C16-d"):
    ctx.rule(RID, "helpers of the stability test: l21_norm(M) = Σ_j √(Σ_i M[i,j]²), new_identity[i,j] = [i=j], Sub is element-wise")
    f = ctx.facts
    R = ctx.roles

    def find(name):
        bs = [b for b in f.mir.values() if (f.fns.get(b.path) or {}).get("name") == name and "SquareMatrix" in ((f.fns.get(b.path) or {}).get("impl_self") or "")]
        if len(bs) != 1:
            raise Undecided("SquareMatrix::%s (found %d)" % (name, len(bs)))
        return bs[0]

    def body():
        # role resolution through the decomposition's MIR: callee of the error value / the identity argument
        dec = R.decompose()
        from .c16 import _call_of
        from . import common
        norm = ident = None
        for bi, t, cb in R.local_callees(dec):
            if common.is_l21_norm(ctx, cb) and cb.arg_count == 1 and (f.ty(cb.local_ty(0)) or {}).get("k") == "param":
                norm = cb
            if common.is_identity_ctor(ctx, cb):
                ident = cb
        if norm is None or ident is None:
            raise Undecided("norm / identity helpers of the stability test")
        ctx.fn(norm.path, ident.path)
        I = Interp(f)
        res = I.run_fn(norm.path, [world.matrix("M", "n")])
        i, j = fresh("i"), fresh("j")
        want = ssum(ssum(leaf("M", i, j) * leaf("M", i, j), i, "n").powf(sp.Rational(1, 2)), j, "n")
        compare(ctx, RID, "l21_norm(M) == Σ_j (Σ_i M[i,j]²)^½", scalar_of(res, "norm"), want, norm.path, "l21-norm", {}, symmetric=())
        I = Interp(f)
        res = I.run_fn(ident.path, [world.matrix("M", "n"), num_size("n")])
        want = Expr.const(1).guarded([("=", "a", "b")])
        compare(ctx, RID, "new_identity[a,b] == [a=b]", scalar_of(res.at("a", "b"), "identity entry"), want, ident.path, "identity", {"a": "n", "b": "n"},
                symmetric=())
        subs = [b for b in find_local_impl(ctx, "arith::Sub", "SquareMatrix", "sub")]
        if len(subs) != 1:
            raise Undecided("impl Sub for &SquareMatrix")
        ctx.fn(subs[0].path)
        I = Interp(f)
        res = I.run_fn(subs[0].path, [world.matrix("A", "n"), world.matrix("B", "n")])
        compare(ctx, RID, "(A−B)[r,c] == A[r,c] − B[r,c]", scalar_of(res.at("r", "c"), "entry"), leaf("A", "r", "c") - leaf("B", "r", "c"), subs[0].path,
                "matrix-sub", {"r": "n", "c": "n"}, symmetric=())
        # the product `inverse · self` whose distance from the identity is measured: an operator that flushes small entries "as noise"
        # removes exactly the residue the test exists to see
        muls = [b for b in find_local_impl(ctx, "arith::Mul", "&", "mul") if "SquareMatrix" in (f.fns[b.path].get("impl_self") or "")]
        if len(muls) != 1:
            raise Undecided("impl Mul<&SquareMatrix> for &SquareMatrix (found %d)" % len(muls))
        ctx.fn(muls[0].path)
        verify_matrix_op(ctx, RID, muls[0].path)
    guarded_clause(ctx, RID, "matrix::SquareMatrix", "stability-helpers", body)


# ---------------------------------------------------------------------------------------------------
# C13 / C14-g: Box-Muller and the Gaussian block

def gauss_closure_and_bm(ctx):
    """(gauss body, reading closure, bm call terminator, bm body)"""
    from .c14 import find_gauss
    R = ctx.roles
    gauss = find_gauss(ctx, R)[2]
    read = R.read_fn()
    for cb in ctx.facts.closures_of(gauss.path):
        rs = [(bi, t) for bi, t, x in R.local_callees(cb) if x is read]
        if len(rs) >= 1:
            v = Vals(cb)
            for bi, t, x in R.local_callees(cb):
                if x is read:
                    continue
                roots = [v.root(a) for a in t["args"]]
                if sum(1 for r in roots if r.kind == "call" and any(r.base[1] == rb for rb, _ in rs)) >= 2:
                    return gauss, cb, (bi, t), x, rs
    from ..roles import calls_body
    raise RoleLost("bm: callee inside the Gaussian routine's closure that receives two read-site values", wanted=calls_body(R, read))


def gaussian_pair_count(ctx, gauss):
    """Extent of the range the pair closure is flat-mapped over, as a formula in D and L (kernel engine, nothing executed)."""
    cap = {}

    def fm(I, c, a):
        cap["range"] = a[0]
        raise Undecided("flat_map captured")
    I = Interp(ctx.facts, models={"flat_map": fm})
    rd_adt = ctx.roles.reader_adt()["adt"]
    args = []
    usz = ["D", "L"]
    names = []
    for l in gauss.locals[1:gauss.arg_count + 1]:
        if rd_adt in l["ty"]:
            args.append(Opaque("reader"))
        elif l["ty"] == "usize":
            args.append(None)
            names.append(l.get("name"))
        else:
            args.append(Opaque(l.get("name") or "arg"))
    # which usize parameter is the dimension / the loop count is decided by the call site in sample (argument provenance)
    s = ctx.roles.sample()
    v = Vals(s)
    site = [(bi, t) for bi, t, cb in ctx.roles.local_callees(s) if cb is gauss][0][1]
    for i, a in enumerate(site["args"]):
        if args[i] is None:
            r = v.root(a)
            if r.path[-1:] == ("dimension",):
                args[i] = Num(Expr.symbol("D"), size="D")
            elif r.path[-1:] == ("num_loops",):
                args[i] = num_size("L")
            else:
                raise Undecided("integer argument %d of the Gaussian routine has provenance %r (expected table.dimension / table.tropical_graph.num_loops)" % (i, r))
    for key, b in ctx.facts.mir.items():
        fi = ctx.facts.fns.get(b.path) or {}
        if (ctx.facts.ty(fi.get("impl_self") or "") or {}).get("path") == rd_adt:
            I.models[b.path] = lambda I_, c, a: num_const(0)
    try:
        I.run_fn(gauss.path, args)
    except Undecided:
        pass
    if "range" not in cap:
        raise Undecided("the Gaussian routine does not flat_map a pair closure over a range")
    cls = cap["range"].classes[0]
    e = I.derived_sizes.get(cls)
    if e is None:
        raise Undecided("pair count is not an arithmetic formula (%s)" % cls)
    return e


def run_c13(ctx):
    ctx.rule("C13-a", "Box-Muller helper returns ( cos(2π·b)·√(−2·ln a), sin(2π·b)·√(−2·ln a) )")
    ctx.rule("C13-b", "at its only call site a / b are the first / second of two consecutive reads and the pair is emitted as [.0, .1]")
    ctx.rule("C13-c", "the consumer takes one element per innermost iteration of `for _ in 0..L { for i in 0..D { v[i] = next } push }` and nowhere else")
    ctx.rule("C13-d", "number of pairs = (n + n mod 2)/2 with n = D·L (D, L from the table)")
    f = ctx.facts
    R = ctx.roles
    try:
        gauss, clo, (bbi, bt), bm, rs = gauss_closure_and_bm(ctx)
    except RoleLost as e:
        return ctx.lost("C13-a", str(e))
    ctx.fn(gauss.path, clo.path, bm.path)

    def a():
        I = Interp(f)
        res = I.run_fn(bm.path, [Num(Expr.symbol("a")), Num(Expr.symbol("b"))])
        A, B, PI = Expr.symbol("a"), Expr.symbol("b"), Expr.atom(("sym", "pi"))
        r = (Expr.const(-2) * A.fn("ln")).powf(sp.Rational(1, 2))
        th = Expr.const(2) * PI * B
        compare(ctx, "C13-a", "first component == cos(2πb)·√(−2 ln a)", scalar_of(res.items[0], "bm.0"), th.fn("cos") * r, bm.path, "box-muller-cos", {}, ())
        compare(ctx, "C13-a", "second component == sin(2πb)·√(−2 ln a)", scalar_of(res.items[1], "bm.1"), th.fn("sin") * r, bm.path, "box-muller-sin", {}, ())
    guarded_clause(ctx, "C13-a", bm.path, "box-muller", a)
    # b: call site
    from .. import cfg
    v = Vals(clo)
    idom = cfg.dominators(clo)
    sites = sorted(rs, key=lambda x: sum(1 for y in rs if cfg.dominates(idom, y[0], x[0])))
    r0, r1 = v.root(bt["args"][0]), v.root(bt["args"][1])
    order_ok = len(sites) == 2 and r0 == v.root_place({"l": sites[0][1]["dest"]["l"], "p": []}) and r1 == v.root_place({"l": sites[1][1]["dest"]["l"], "p": []}) \
        and cfg.dominates(idom, sites[0][0], sites[1][0])
    n_bm = [1 for bi, t, x in R.local_callees(clo) if x is bm]
    ctx.ob("C13-b", "helper(a = first read, b = second read), called once", order_ok and len(n_bm) == 1, clo.path, "bm-argument-order", where=pat.where(bt),
           detail="args %r, %r; read sites in dominance order %s" % (r0, r1, [s_[0] for s_ in sites]))
    emitted = None
    for bi, si, st in pat.stmts(clo):
        if st["place"]["l"] == 0 and st["rv"]["k"] == "aggregate" and st["rv"]["agg"] == "array":
            emitted = [v.root(o) for o in st["rv"]["ops"]]
    bmroot = v.root_place({"l": bt["dest"]["l"], "p": []})
    ok = emitted is not None and len(emitted) == 2 and emitted[0] == bmroot.with_path(("0",)) and emitted[1] == bmroot.with_path(("1",))
    ctx.ob("C13-b", "the closure emits [cos component, sin component] in this order", ok, clo.path, "bm-emission-order", detail="emitted %r" % (emitted,))
    consumption_nest(ctx, gauss, "C13-c")

    def d():
        e = gaussian_pair_count(ctx, gauss)
        n = Expr.symbol("D") * Expr.symbol("L")
        want = Expr.atom(("call", "idiv", n + Expr.atom(("call", "mod", n, Expr.const(2))), Expr.const(2)))
        compare(ctx, "C13-d", "pair count == (D·L + (D·L mod 2)) div 2", e, want, gauss.path, "pair-count", {}, ())
    guarded_clause(ctx, "C13-d", gauss.path, "pair-count", d)
    ctx.rule("C13-e", "the pairs are the TAIL of a get_dimension()-long point and the reported vectors are the routine's: 2·pairs equals the Gaussian "
                      "term of get_dimension (restated from C14-g), the Gaussian routine is the last reader in sample, Metadata.q_vectors is its result")

    def e_sibling():
        pairs = gaussian_pair_count(ctx, gauss)
        dimfn, dim = dimension_formula(ctx)
        n = Expr.symbol("D") * Expr.symbol("L")
        gterm = n + Expr.atom(("call", "mod", n, Expr.const(2)))
        compare(ctx, "C13-e", "get_dimension == 2E − 1 + D·L + (D·L mod 2)", dim, Expr.const(2) * Expr.symbol("E") - Expr.const(1) + gterm, dimfn.path,
                "dimension-formula", {}, ())
        compare(ctx, "C13-e", "pairs == (Gaussian term of get_dimension) div 2", pairs, Expr.atom(("call", "idiv", gterm, Expr.const(2))), gauss.path,
                "gaussian-count-sibling", {}, ())
    restated_clause(ctx, "C13-e", gauss.path, "tail-agreement", e_sibling)

    def e_():
        s_ = R.sample()
        sv = Vals(s_)
        from .common import built_structs
        gsites = [(bi, t) for bi, t, cb in R.local_callees(s_) if cb is gauss]
        sidom = cfg.dominators(s_)
        later = [pat.where(t) for bi, t, cb in R.local_callees(s_) if cb is not gauss and gsites and cfg.dominates(sidom, gsites[0][0], bi)
                 and any(rd_ in (cb.local_ty(i + 1)) for i in range(cb.arg_count) for rd_ in [R.reader_adt()["adt"]])]
        ctx.ob("C13-e", "the Gaussian routine is called once and no reader call follows it", len(gsites) == 1 and not later, s_.path, "gauss-is-last-reader",
               detail="calls %d, later reader calls %s" % (len(gsites), later))
        for bj, sj, st in built_structs(f, R, s_, "Metadata"):
            rv = st["rv"]
            if "q_vectors" in rv["fields"] and gsites:
                r_ = sv.root(rv["ops"][rv["fields"].index("q_vectors")])
                ctx.ob("C13-e", "Metadata.q_vectors is the Gaussian routine's result", r_ == Root(("call", gsites[0][0])), s_.path, "metadata-q-vectors",
                       where=pat.where(st), detail="Metadata.q_vectors has provenance %r, the Gaussian routine is called at bb%d" % (r_, gsites[0][0]))
    guarded_clause(ctx, "C13-e", gauss.path, "tail-and-report", e_)


def consumption_nest(ctx, gauss, RID="C13-c"):
    """One element of the pair stream per innermost (component) iteration, loop-major: component (l, i) is element l·D + i."""
    from .. import cfg
    from . import common
    gv = Vals(gauss)
    nexts = [(bi, t) for bi, t in gauss.calls() if callee_is(t, trait="Iterator", name="next") and "FlatMap" in (t["callee"].get("self_ty") or "")]
    heads = common.loop_next_sites(gauss, gv)
    range_heads = [h for h in heads if "Range" in (h[4]["callee"].get("self_ty") or "")]
    ok = len(nexts) == 1 and len(range_heads) == 2
    det = "%d next() calls on the pair iterator, %d range loops" % (len(nexts), len(range_heads))
    if ok:
        nb = nexts[0][0]
        lps = cfg.loops(gauss)
        depth = sum(1 for _h, bl in lps if nb in bl)
        # inner loop bound is the const parameter D, outer bound the loop-count parameter
        bounds = []
        for h in range_heads:
            itr = gv.root(h[4]["args"][0])
            rng_l = None
            for d in gv.defs.get(itr.base[1], []) if itr.kind == "local" else []:
                if d[0] == "stmt" and d[3]["k"] == "use":
                    r2 = gv.root(d[3]["op"])
                    t2 = gv.call_term(r2)
                    if t2 is not None and callee_is(t2, trait="IntoIterator", name="into_iter"):
                        r3 = gv.root(t2["args"][0])
                        rv = gv.rvalue_of(r3) if r3.kind == "local" else None
                        if rv is not None and rv["k"] == "aggregate" and "end" in rv.get("fields", []):
                            endop = rv["ops"][rv["fields"].index("end")]
                            startop = rv["ops"][rv["fields"].index("start")]
                            bounds.append((gv.root(startop), gv.root(endop), endop))
        ends = [b[2] for b in bounds]
        const_d = any(o["k"] == "const" and ("tyconst" in o or o.get("disp", "").replace("const ", "").strip() == "D") for o in ends)
        param_l = any(o["k"] in ("copy", "move") and gv.root(o).kind == "arg" for o in ends)
        starts_zero = all(b[0].kind == "const" and b[0].base[1] in ("0",) for b in bounds)
        # the element goes to vec[i] with i the inner loop variable, pushed once per outer iteration
        ok = depth == 2 and const_d and param_l and starts_zero and len(bounds) == 2
        det += "; nesting depth of next(): %d; bounds const-D:%s param-L:%s from zero:%s" % (depth, const_d, param_l, starts_zero)
        # the element is stored at component i (the innermost loop variable) and the vector is pushed once per outer iteration
        inner_head = [h for h in range_heads if any(h[0] in bl and nb in bl for _h, bl in lps)]
        inner_head = sorted(inner_head, key=lambda h: sum(1 for _h, bl in lps if h[0] in bl))[-1] if inner_head else None
        store_ok = push_ok = False
        if inner_head is not None:
            ivar = gv.root_place({"l": inner_head[4]["dest"]["l"], "p": []}).with_path(("as:Some", "0"))
            for bi2, t2 in gauss.calls():
                if callee_is(t2, trait="IndexMut", name="index_mut") and "Vector" in (t2["callee"].get("self_ty") or "") and len(t2["args"]) == 2:
                    if gv.root(t2["args"][1]) == ivar and sum(1 for _h, bl in lps if bi2 in bl) == 2:
                        store_ok = True
            pushes = [(bi2, t2) for bi2, t2 in gauss.calls() if (t2.get("callee") or {}).get("name") == "push"]
            push_ok = len(pushes) == 1 and sum(1 for _h, bl in lps if pushes[0][0] in bl) == 1
        ok = ok and store_ok and push_ok
        det += "; stored at vec[i]: %s; one push per loop vector: %s" % (store_ok, push_ok)
    if not ok:
        # the same nest with the outer loop written as `(0..L).map(|_| { for i in 0..D { v[i] = next } v }).collect()`: `map` over a
        # range evaluated by `collect` calls the closure once per loop, in order
        ok2, det2 = _consumption_nest_closure_form(ctx, gauss, gv)
        if ok2:
            ok, det = True, det2
        else:
            det += " | closure form: " + det2
    ctx.ob(RID, "one element is taken per innermost (component) iteration, loop-major", ok, gauss.path, "gaussian-consumption", detail=det)



def _consumption_nest_closure_form(ctx, gauss, gv):
    from . import common
    from .. import cfg
    f = ctx.facts
    closures = list(f.closures_of(gauss.path))
    sites = []
    for b in [gauss] + closures:
        for bi, t in b.calls():
            if callee_is(t, trait="Iterator", name="next") and "FlatMap" in (t["callee"].get("self_ty") or ""):
                sites.append((b, bi, t))
    if len(sites) != 1 or sites[0][0] is gauss:
        return False, "%d next() calls on the pair iterator in the routine and its closures" % len(sites)
    B, nb, nt = sites[0]
    vb = Vals(B)
    heads = [h for h in common.loop_next_sites(B, vb) if "Range" in (h[4]["callee"].get("self_ty") or "")]
    lps = cfg.loops(B)
    depth = sum(1 for _h, bl in lps if nb in bl)
    if len(heads) != 1 or depth != 1:
        return False, "the closure holding next() has %d range loops, next() at depth %d" % (len(heads), depth)
    h = heads[0]

    def range_of(body, v, head):
        itr = v.root(head[4]["args"][0])
        for d in v.defs.get(itr.base[1], []) if itr.kind == "local" else []:
            if d[0] == "stmt" and d[3]["k"] == "use":
                t2 = v.call_term(v.root(d[3]["op"]))
                if t2 is not None and callee_is(t2, trait="IntoIterator", name="into_iter"):
                    r3 = v.root(t2["args"][0])
                    rv = v.rvalue_of(r3) if r3.kind == "local" else None
                    if rv is not None and rv["k"] == "aggregate" and "end" in rv.get("fields", []):
                        return rv["ops"][rv["fields"].index("start")], rv["ops"][rv["fields"].index("end")]
        return None
    rg = range_of(B, vb, h)
    if rg is None:
        return False, "inner range not found"
    start, end = rg
    const_d = end["k"] == "const" and ("tyconst" in end or end.get("disp", "").replace("const ", "").strip() == "D")
    zero = start["k"] == "const" and start.get("int") == "0"
    ivar = vb.root_place({"l": h[4]["dest"]["l"], "p": []}).with_path(("as:Some", "0"))
    store_ok = any(callee_is(t2, trait="IndexMut", name="index_mut") and "Vector" in (t2["callee"].get("self_ty") or "") and len(t2["args"]) == 2
                   and vb.root(t2["args"][1]) == ivar and sum(1 for _h, bl in lps if bi2 in bl) == 1 for bi2, t2 in B.calls())
    # the closure returns the vector it filled, once per call
    ret_vec = "Vector" in B.local_ty(0)
    # in the routine: map(Range{0, L-parameter}, this closure) then collect
    maps = []
    for bi, t in gauss.calls():
        if callee_is(t, trait="Iterator", name="map") and len(t["args"]) == 2:
            cr = gv.root(t["args"][1])
            rv = gv.rvalue_of(cr) if cr.kind == "local" else None
            if rv and rv["k"] == "aggregate" and rv.get("agg") == "closure" and rv.get("closure") == B.path:
                maps.append((bi, t))
    if len(maps) != 1:
        return False, "the closure is not the argument of exactly one map()"
    src = gv.root(maps[0][1]["args"][0])
    srv = gv.rvalue_of(src) if src.kind == "local" else None
    outer_ok = False
    if srv is not None and srv["k"] == "aggregate" and "end" in srv.get("fields", []):
        s0, e0 = srv["ops"][srv["fields"].index("start")], srv["ops"][srv["fields"].index("end")]
        outer_ok = s0["k"] == "const" and s0.get("int") == "0" and e0["k"] in ("copy", "move") and gv.root(e0).kind == "arg"
    collected = any(callee_is(t, trait="Iterator", name=("collect", "collect_vec")) or (t.get("callee") or {}).get("name") in ("collect", "collect_vec")
                    for _bi, t in gauss.calls())
    ok = const_d and zero and store_ok and ret_vec and outer_ok and collected
    return ok, ("closure form: inner 0..D:%s/%s, stored at vec[i]:%s, closure returns the vector:%s, mapped over 0..L(parameter):%s, collected:%s"
                % (zero, const_d, store_ok, ret_vec, outer_ok, collected))


def is_all_edges(e):
    """the sequence 0, 1, …, E−1 in this order: the range itself, or a list whose k-th element is k"""
    if not (isinstance(e, Arr) and e.classes == ("E",)):
        return False
    if e.name == "range":
        return True
    try:
        v = e.at("§id")
    except Exception:
        return False
    return isinstance(v, Num) and (v.ent == "§id" or v.expr == Expr.leaf("$ix", "§id"))


def dimension_formula(ctx):
    """get_dimension() as a formula (kernel engine): evaluates the callee of the public getter."""
    R = ctx.roles
    gd = R.get_dimension()
    callees = [cb for bi, t, cb in R.local_callees(gd)]
    if len(callees) != 1:
        raise Undecided("dimension_fn: callee of get_dimension")
    dimfn = callees[0]
    ctx.fn(dimfn.path)

    def loops_hook(I, c, args):
        edges = args[1] if len(args) > 1 else None
        if isinstance(edges, Arr) and edges.classes == ("E",) and (edges.name in ("range", "map") or is_all_edges(edges)):
            return num_size("L")
        return Num(Expr.atom(("call", "loops", "?")))
    hooks = {idroles.graph_roles(ctx)["loopnum"].path: loops_hook}
    I = Interp(ctx.facts, models=hooks)
    res = I.run_fn(dimfn.path, [world.table()])
    return dimfn, scalar_of(res, "dimension")


def run_c06d(ctx):
    ctx.rule("C06-d", "the scan adds p_e = J[g∖e]/(J[g]·ω[g∖e]) to its running sum for the edges e of g, with both table indices as stated, "
                      "and the pair returned in the loop is (e, g∖e)")
    from .c06 import find_scan
    try:
        sector, scan_site = find_scan(ctx, ctx.roles)
    except RoleLost as e:
        return ctx.lost("C06-d", str(e))
    scan = scan_site[2]
    f = ctx.facts

    def body():
        I = Interp(f, models=role_hooks(ctx))
        idty = f.adts[idroles.id_roles(ctx)["adt"]]["self_ty"]
        args = []
        for l in scan.locals[1:scan.arg_count + 1]:
            ty = l["ty"]
            if "TropicalSubgraphTable" in ty:
                args.append(world.table())
            elif idty in ty:
                args.append(world.GraphIdVal("g"))
            else:
                args.append(Num(Expr.symbol("uniform")))
        I.fold_early = False      # the in-loop return is accounted for below: every early return must be the pair (e, g∖e)
        try:
            I.run_fn(scan.path, args)
        except Undecided:
            pass
        adds = [(var, val, conds) for (var, path, op, val, conds) in I.write_log if op == "+" and not path and isinstance(val, Num)]
        if len(adds) != 1:
            raise Undecided("the scan does not add to exactly one running sum (%d additive updates)" % len(adds))
        got = adds[0][1].expr.simplified()
        names = set()
        got.has_atom(lambda a: names.add(a[2]) if a[0] == "call" and a[1] == "J" and isinstance(a[2], str) and a[2].startswith("pop(") else False)
        if len(names) != 1:
            raise Undecided("p_e does not mention J of exactly one reduced graph (%s)" % sorted(names))
        gk = sorted(names)[0]
        ok_key = gk.startswith("pop(g,«") and gk.endswith("»)")
        want = Expr.atom(("call", "J", gk)) * Expr.atom(("call", "J", "g")).inv() * Expr.atom(("call", "omega", gk)).inv()
        ctx.ob("C06-d", "p_e == J[g∖e]·J[g]⁻¹·ω[g∖e]⁻¹ with e an edge of g", ok_key and got == want, scan.path, "edge-probability",
               detail="running sum += %s (expected %s)" % (got.key()[:300], want.key()[:300]))
        e_name = gk[len("pop(g,«"):-2]
        rets = [v_ for c_, v_ in I.early_returns]
        ok_ret = bool(rets) and all(isinstance(r_, Tup) and len(r_.items) == 2 and isinstance(r_.items[0], Num) and r_.items[0].ent == e_name
                                    and isinstance(r_.items[1], world.GraphIdVal) and r_.items[1].key_ == gk for r_ in rets)
        ctx.ob("C06-d", "every early return of the scan is (e, g∖e) for the edge e just added", ok_ret, scan.path, "edge-probability-return",
               detail="returns %s" % [repr(r_)[:80] for r_ in rets])
    guarded_clause(ctx, "C06-d", scan.path, "edge-probability", body)


def run_c14h(ctx):
    """Bit-level definitions of the subgraph id: together they make the sector loop run exactly E times."""
    ctx.rule("C14-h", "subgraph id as a bit mask: full = (1<<E)−1 with E = number of edges; is_empty ⇔ id = 0; has_one_edge ⇔ popcount(id) = 1; contains_edges = "
                      "{i < E : id & (1<<i) ≠ 0} ascending; pop_edge(g,e).id = g.id XOR (1<<e). Since every removed edge comes from contains_edges of the "
                      "current graph (C06-b/c), each iteration clears exactly one set bit: the sector loop runs E times and reads (E−1)+(E−1) coordinates; with "
                      "the λ read and 2 per Gaussian pair the total is 2E−1+DL+(DL mod 2) = get_dimension() (C14-g)")
    f = ctx.facts

    try:
        idr = idroles.id_roles(ctx)
        gr = idroles.graph_roles(ctx)
    except RoleLost as e:
        return ctx.lost("C14-h", str(e))

    def meth(name):
        if name not in idr:
            raise Undecided("subgraph-id method playing the role `%s`" % name)
        ctx.fn(idr[name].path)
        return idr[name]

    G = Expr.symbol("g")
    MF, EF = idr["mask_field"], idr["extent_field"]
    me = Struct("TropicalSubGraphId", {MF: Num(G), EF: num_size("E")})
    one = Expr.const(1)

    def body():
        e_ = Num(Expr.leaf("$ix", "e"), ent="e")
        i_ = Num(Expr.leaf("$ix", "i"), ent="i")
        r = Interp(f).run_fn(meth("pop_edge").path, [me, e_])
        want = X.bitop("bitxor", G, Expr.atom(("call", "shl", one, Expr.leaf("$ix", "e"))))
        ok = isinstance(r, Struct) and scalar_of(r.fields[MF], "id") == want and scalar_of(r.fields[EF], "n") == Expr.symbol("E")
        ctx.ob("C14-h", "pop_edge(g,e).id == g.id XOR (1<<e), extent unchanged", ok, idr["pop_edge"].path, "pop-edge-xor")
        r = Interp(f).run_fn(meth("has_edge").path, [me, i_])
        from ..kern import boolean
        zero_k = Expr.zero().key()

        def cond_is(c, want_tree):
            try:
                return isinstance(c, Cond) and boolean.prop_equiv(c.tree, want_tree)[0]
            except boolean.NotComparable:
                return False
        bit = ("cmp", "Ne", X.bitop("bitand", G, Expr.atom(("call", "shl", one, Expr.leaf("$ix", "i")))).key(), zero_k)
        ctx.ob("C14-h", "has_edge(g,i) ⇔ g.id & (1<<i) ≠ 0", cond_is(r, bit), "preprocessing::TropicalSubGraphId::has_edge", "has-edge-bit",
               detail="got %s" % (r.key() if isinstance(r, Cond) else r))
        r = Interp(f).run_fn(meth("is_empty").path, [me])
        ctx.ob("C14-h", "is_empty(g) ⇔ g.id == 0", cond_is(r, ("cmp", "Eq", G.key(), zero_k)), "preprocessing::TropicalSubGraphId::is_empty", "is-empty-zero")
        r = Interp(f).run_fn(meth("has_one_edge").path, [me])
        ctx.ob("C14-h", "has_one_edge(g) ⇔ popcount(g.id) == 1", cond_is(r, ("cmp", "Eq", Expr.atom(("call", "popcount", G)).key(), one.key())),
               "preprocessing::TropicalSubGraphId::has_one_edge", "one-edge-popcount")
        r = Interp(f).run_fn(meth("new").path, [num_size("E")])
        wantn = Expr.atom(("call", "shl", one, Expr.symbol("E"))) - one
        ctx.ob("C14-h", "new(E).id == (1<<E) − 1 (E set bits)", isinstance(r, Struct) and scalar_of(r.fields[MF], "id") == wantn
               and scalar_of(r.fields[EF], "n") == Expr.symbol("E"), idr["new"].path, "full-id")
        r = Interp(f).run_fn(meth("contains_edges").path, [me])
        bitq = ("cmp", "Ne", X.bitop("bitand", G, Expr.atom(("call", "shl", one, Expr.leaf("$ix", "§")))).key(), zero_k)
        fo = getattr(r, "filter_of", None)
        ok = (isinstance(r, Arr) and fo is not None and fo[0].classes == ("E",) and cond_is(fo[1], bitq)
              and scalar_of(r.at("k"), "elem") == Expr.leaf("$ix", "k"))
        ctx.ob("C14-h", "contains_edges(g) = ascending {i < E : has_edge(g,i)}", ok, "preprocessing::TropicalSubGraphId::contains_edges", "contains-edges-set",
               detail="class %s" % (r.classes if isinstance(r, Arr) else r,))
        # the full id is built on the number of edges of the topology
        if "full_id" in gr:
            tg = Struct("TropicalGraph", {"topology": Arr(("E",), lambda e: Opaque("edge"), name="topology")})
            r = Interp(f).run_fn(gr["full_id"].path, [tg])
            ctx.ob("C14-h", "the sector loop starts from new(len(topology))", isinstance(r, Struct) and scalar_of(r.fields[MF], "id") == wantn, gr["full_id"].path,
                   "full-id-of-topology")
        else:
            ctx.lost("C14-h", "full-id constructor of the graph")
    guarded_clause(ctx, "C14-h", "preprocessing::TropicalSubGraphId", "bit-mask-definitions", body)


def run_c14i(ctx):
    """Iteration count of the sector loop by a ranking argument over decided premises (no execution): the number of edges of the
    current graph starts at E and drops by exactly one per iteration, so the loop body runs E times, E−1 times in the multi-edge
    branch (two reads each) and once in the single-edge branch (no read)."""
    RID = "C14-i"
    ctx.rule(RID, "sector loop runs exactly E times and reads 2E−2 coordinates: graph starts as the full id (E set bits), the loop runs while it is "
                  "non-empty, every iteration replaces it by graph∖e with e a member of it (the scan's result / its first edge), the single-edge branch "
                  "is taken iff one edge is left and breaks before any read, every multi-edge iteration performs exactly two reads")
    w = sector_world(ctx)
    fn = "sampling::permatuhedral_sampling"
    if not w.ok:
        ctx.ob(RID, "sector routine summarised", False, fn, "kernel-undecided", detail="kernel-undecided: %s" % w.error)
        return
    fn = w.sector.path

    def body():
        pre = getattr(w, "pre_loop", {})
        graphs = [(n, v) for n, v in pre.items() if isinstance(v, world.GraphIdVal)]
        if len(graphs) != 1:
            raise Undecided("loop state: expected one graph variable before the loop (%d)" % len(graphs))
        gname, g0 = graphs[0]
        ctx.ob(RID, "before the loop the graph is the full subgraph id (E edges)", g0.key_ == "full", fn, "loop-starts-full", detail="initial graph %s" % g0.key_)
        cond = w.loop_cond.key() if w.loop_cond is not None else None
        ctx.ob(RID, "the loop continues exactly while the graph is non-empty", cond == "!(empty(%s))" % gname, fn, "loop-while-nonempty", detail="loop condition %s" % cond)
        for case, label, member, reads in ((True, "single-edge", "first∈edges(%s)" % gname, 0), (False, "multi-edge", "scan(%s)" % gname, 2)):
            tr = w.transfers.get(case)
            if tr is None or tr["error"]:
                raise Undecided("iteration body (%s case): %s" % (label, tr and tr["error"]))
            gv = tr["post"].get(gname)
            want = "pop(%s,«%s»)" % (gname, member)
            if case and tr["always_breaks"]:
                # the single-edge iteration leaves the loop unconditionally: it is the last one whatever it does to the graph
                ctx.ob(RID, "[single-edge] the iteration leaves the loop unconditionally, without reading a coordinate", tr["reads"] == 0, fn,
                       "single-edge-reads", detail="reads in the last iteration: %s" % tr["reads"])
                continue
            ctx.ob(RID, "[%s] the graph loses exactly one of its own edges: graph := graph∖%s" % (label, member), isinstance(gv, world.GraphIdVal) and gv.key_ == want,
                   fn, "rank-decreases:" + label, detail="graph becomes %s, expected %s (an edge that is not a member would toggle a bit ON: the count would not drop)"
                   % (getattr(gv, "key_", gv), want))
            ctx.ob(RID, "[%s] the only way out of an iteration is the emptiness test of the new graph" % label,
                   tr["breaks"] in (["empty(%s)" % want], []) and not tr["always_breaks"], fn, "exit-only-when-empty:" + label,
                   detail="break conditions %s" % tr["breaks"])
            if case:
                # one edge left: graph∖e is empty, the break is taken; reads before it must be zero
                rb = tr["reads_at_break"]
                # without an explicit break the loop condition ends the loop before the next iteration: the whole iteration must be read-free
                ok_rb = rb == [0] if rb else tr["reads"] == 0
                ctx.ob(RID, "[single-edge] no coordinate is read before the loop is left", ok_rb, fn, "single-edge-reads",
                       detail="reads before the break: %s; reads in the iteration: %s" % (rb, tr["reads"]))
            else:
                # >= 2 edges: graph∖e is non-empty, the iteration runs to its end
                ctx.ob(RID, "[multi-edge] exactly two coordinates are read per iteration (edge choice, ξ)", tr["reads"] == reads, fn, "multi-edge-reads",
                       detail="reads on the continuing path: %s" % tr["reads"])
        ctx.note("C14-i: by the ranking |edges(graph)| = E, E−1, …, 1, 0 the sector loop reads (E−1)·2 + 0 = 2E−2 coordinates; with C14-f (one λ read) and "
                 "C14-g (D·L + (D·L mod 2) Gaussian reads) a sample reads exactly get_dimension() = 2E−1+D·L+(D·L mod 2) coordinates")
    guarded_clause(ctx, RID, fn, "iteration-count", body)


def run_c14g(ctx):
    ctx.rule("C14-g", "sibling agreement: the Gaussian routine reads 2·pairs = D·L + (D·L mod 2) coordinates, the Gaussian term of get_num_variables; "
                      "get_dimension = 2E − 1 + D·L + (D·L mod 2)")
    try:
        gauss, clo, (bbi, bt), bm, rs = gauss_closure_and_bm(ctx)
    except RoleLost as e:
        return ctx.lost("C14-g", str(e))

    def g():
        pairs = gaussian_pair_count(ctx, gauss)
        dimfn, dim = dimension_formula(ctx)
        n = Expr.symbol("D") * Expr.symbol("L")
        gterm = n + Expr.atom(("call", "mod", n, Expr.const(2)))
        want = Expr.const(2) * Expr.symbol("E") - Expr.const(1) + gterm
        compare(ctx, "C14-g", "get_dimension == 2E − 1 + D·L + (D·L mod 2)", dim, want, dimfn.path, "dimension-formula", {}, ())
        compare(ctx, "C14-g", "pairs of the Gaussian routine == (Gaussian term of get_dimension) div 2 (two reads per pair; the term is even)", pairs,
                Expr.atom(("call", "idiv", gterm, Expr.const(2))), gauss.path, "gaussian-count-sibling", {}, ())
    guarded_clause(ctx, "C14-g", gauss.path, "gaussian-count", g)
    # the L of both formulas is the graph's loop number (restated from C03-a)
    restated_clause(ctx, "C14-g", "preprocessing::TropicalGraph::from_graph", "graph-dod", lambda: graph_dod_clause(ctx, "C14-g"))
    run_c03_loops(ctx, "C14-g", soft=True)


# ---------------------------------------------------------------------------------------------------
# C07 / C11 (rescaling): the sector routine

def reader_constant(ctx, rd, body):
    """0 / 1 when the reader method `body` returns that constant of the scalar type for every reader; None otherwise."""
    f = ctx.facts
    adt = f.adts.get(rd["adt"]) or {}
    flds = {}
    try:
        for fl in adt["variants"][0]["fields"]:
            flds[fl["name"]] = opaque_by_type(fl["ty"], fl["name"], f.types)
    except (KeyError, IndexError):
        return None
    I = Interp(f)
    try:
        res = I.run_fn(body.path, [Struct(rd["adt"].split("::")[-1], flds)] + [Opaque("arg")] * (body.arg_count - 1))
    except Undecided:
        return None
    if isinstance(res, Num):
        e = res.expr.simplified()
        if e == Expr.zero():
            return 0
        if e == Expr.const(1):
            return 1
    return None


class SectorWorld:
    """Per-iteration transfer function of the sector loop (case split on the single-edge condition only) and the
    straight-line tail (rescaling), with the loop state as named unknowns."""

    def __init__(self, ctx):
        from .c06 import find_scan
        from ..kern.interp import snapshot, restore, BreakSignal
        self.ctx = ctx
        self.ok = False
        self.error = None
        f = ctx.facts
        R = ctx.roles
        try:
            sector, scan_site = find_scan(ctx, R)
            read = R.read_fn()
            rd = R.reader_adt()
        except RoleLost as e:
            self.error = str(e)
            return
        self.sector = sector
        scan = scan_site[2]
        X.POSITIVE_CALLS |= {"loops", "omega"}
        self.transfers = {}
        sites = [0]
        world_self = self

        def on_while(I, cond, body, env, muts):
            world_self.muts = muts
            world_self.loop_cond = None
            try:
                world_self.loop_cond = I.eval(cond, env)
            except Undecided:
                pass
            for case in (True, False):
                snap = snapshot(env)
                I.models[one_edge_path] = (lambda I_, c, a, _c=case: Cond("const", _c))
                I.in_transfer = True
                I.breaks = []
                sites0 = sites[0]
                benv = Interp.Env(env)
                brk = False
                err = None
                try:
                    I.eval(body, benv)
                except BreakSignal:
                    brk = True
                except Undecided as u:
                    err = u.what
                finally:
                    I.in_transfer = False
                post = {name: env.get(vid) for (vid, name, ty) in muts}
                def at_break(snap_):
                    out_ = {}
                    for (vid, name, ty) in muts:
                        for _e, vars_ in snap_:
                            if vid in vars_:
                                out_[name] = vars_[vid]
                                break
                    return out_
                world_self.transfers[case] = {"post": post, "always_breaks": brk, "breaks": [b[0] for b in I.breaks], "reads": sites[0] - sites0, "error": err,
                                              "state_at_break": [at_break(b[1]) for b in I.breaks],
                                              "reads_at_break": [b[2] - sites0 if b[2] is not None else None for b in I.breaks]}
                world_self.pre_loop = dict(I.pre_while_state or {})
                restore(env, snap)
            I.models[one_edge_path] = default_one_edge

        def read_hook(I, c, a):
            sites[0] += 1
            return Num(Expr.leaf("read", "s%d" % sites[0]))

        def scan_hook(I, c, a):
            g = [x for x in a if isinstance(x, world.GraphIdVal)]
            if len(g) != 1:
                raise Undecided("scan call without a subgraph argument")
            k = g[0].key_
            return Tup([Num(Expr.zero(), ent="scan(%s)" % k), world.GraphIdVal("pop(%s,«scan(%s)»)" % (k, k))])

        hooks = {read.path: read_hook, scan.path: scan_hook}
        hooks.update(role_hooks(ctx))
        one_edge_path = idroles.id_roles(ctx)["has_one_edge"].path
        default_one_edge = hooks[one_edge_path]
        for key, b in f.mir.items():
            fi = f.fns.get(b.path) or {}
            if (f.ty(fi.get("impl_self") or "") or {}).get("path") == rd["adt"] and b is not read and b is not rd["ctor"]:
                # the reader's constant builders (`rng.zero()`, `rng.one()`): what they return is decided from their bodies on a reader
                # whose slice holds abstract scalars — a builder that hands back anything but the constant 0 / 1 makes the routine undecided
                val = reader_constant(ctx, rd, b)
                if val is None:
                    continue
                hooks[b.path] = (lambda v_: (lambda I_, c, a: num_const(v_)))(val)
        I = Interp(f, models=hooks)
        I.on_while = on_while
        I.probe = lambda: sites[0]
        self.I = I
        args = []
        for l in sector.locals[1:sector.arg_count + 1]:
            ty = l["ty"]
            if "TropicalSubgraphTable" in ty:
                args.append(world.table())
            elif "TropicalSamplingSettings" in ty:
                args.append(world.settings())
            elif rd["adt"] in ty:
                args.append(Opaque("reader"))
            else:
                args.append(Opaque(l.get("name") or "arg"))
        names = set()
        for l in sector.locals:
            if l.get("name"):
                names.add(l["name"])
        X.POSITIVE_LEAVES |= names | {"read"}
        try:
            self.result = I.run_fn(sector.path, args)
        except Undecided as u:
            self.error = "sector routine could not be summarised: %s" % u.what
            return
        if not isinstance(self.result, Struct):
            self.error = "sector result is not a struct"
            return
        if len(I.while_loops) != 1 or not self.transfers:
            self.error = "expected exactly one while loop in the sector routine (found %d)" % len(I.while_loops)
            return
        self.ok = True


_sworlds = {}


def sector_world(ctx):
    key = id(ctx.facts)
    if key not in _sworlds:
        _sworlds[key] = SectorWorld(ctx)
    return _sworlds[key]


def run_c07(ctx):
    iteration_clauses(ctx, "C07-a", "C07-b", True)
    run_rescaling(ctx, "C07")


def iteration_clauses(ctx, RA, RB, emit_a):
    if emit_a:
        ctx.rule(RA, "one iteration of the sector loop: x[edge] := κ; graph := graph∖edge; if edges remain κ := κ·ξ^(1/ω[graph∖edge]) with ξ a fresh read")
    ctx.rule(RB, "in EVERY iteration (last edge included) u_trop *= x[edge] exactly when the loop number drops; v_trop := x[edge] exactly when spanning → not "
                 "spanning (table flags of graph and graph∖edge)")
    w = sector_world(ctx)
    if not w.ok:
        ctx.ob(RB, "sector routine summarised", False, "sampling::permatuhedral_sampling", "kernel-undecided", detail="kernel-undecided: %s" % w.error)
        return
    fn = w.sector.path
    ctx.fn(fn)
    for case in (True, False):
        tr = w.transfers.get(case)
        label = "single-edge" if case else "multi-edge"

        def body(tr=tr, label=label):
            if tr["error"]:
                raise Undecided("iteration body (%s case): %s" % (label, tr["error"]))
            post = tr["post"]
            arrs = [(n, v) for n, v in post.items() if isinstance(v, Arr) and v.rules]
            graphs = [(n, v) for n, v in post.items() if isinstance(v, world.GraphIdVal)]
            if len(arrs) != 1 or len(graphs) != 1:
                raise Undecided("iteration state: expected one parameter array and one graph (%d, %d)" % (len(arrs), len(graphs)))
            xname, xv = arrs[0]
            gname, gv = graphs[0]
            ok_x = len(xv.rules) == 1 and xv.rules[0].op == "=" and not xv.rules[0].binders and not xv.rules[0].guards
            edge = xv.rules[0].index[0] if ok_x else None
            kap = scalar_of(xv.rules[0].value, "stored value") if ok_x else None
            kap_ok = ok_x and kap.is_monomial() and len(kap.terms[0].atoms) == 1 and kap.terms[0].coeff == 1
            kname = kap.terms[0].atoms[0][0][1] if kap_ok else None
            (ctx.ob if emit_a else (lambda *a_, **k_: None))(RA, "[%s] exactly one parameter is written per iteration: x[edge] := κ (κ = `%s`)" % (label, kname), bool(kap_ok), fn,
                   "x-edge-gets-kappa:" + label, detail="rules %s" % [(r.index, r.op) for r in xv.rules])
            if not kap_ok:
                return
            g2 = "pop(%s,«%s»)" % (gname, edge)
            (ctx.ob if emit_a else (lambda *a_, **k_: None))(RA, "[%s] graph := graph∖edge for the same edge" % label, gv.key_ == g2, fn, "graph-pop-edge:" + label,
                   detail="graph becomes %s, expected %s" % (gv.key_, g2))
            # break exactly when the remaining graph is empty
            (ctx.ob if emit_a else (lambda *a_, **k_: None))(RA, "[%s] the loop is left right after the removal iff the remaining graph is empty" % label,
                   tr["breaks"] == ["empty(%s)" % g2] and not tr["always_breaks"], fn, "break-iff-empty:" + label, detail="break conditions %s" % tr["breaks"])
            # kappa update on the continuing path
            kpost = scalar_of(post[kname], "κ'")
            ratio = (kpost * Expr.leaf(kname).inv()).simplified()
            ok_k = False
            det = "κ'/κ = %s" % ratio.key()
            if ratio.is_monomial() and len(ratio.terms[0].atoms) == 1 and ratio.terms[0].coeff == 1:
                a, ex = ratio.terms[0].atoms[0]
                want_ex = 1 / sp.Symbol("omega(%s)" % g2, positive=True)
                ok_k = a[0] == "leaf" and a[1] == "read" and sp.simplify(ex - want_ex) == 0
            (ctx.ob if emit_a else (lambda *a_, **k_: None))(RA, "[%s] κ' = κ·ξ^(1/ω[graph∖edge]) with ξ a read of this iteration" % label, ok_k, fn, "kappa-recurrence:" + label, detail=det)
            # b: tropical bookkeeping
            span_key = "(spanning(%s) And !(spanning(%s)))" % (gname, g2)
            loops_key = "%s Lt %s" % (Expr.atom(("call", "loops", g2)).key(), Expr.atom(("call", "loops", gname)).key())
            K = Expr.leaf(kname)
            vnames = [n for n, v in post.items() if isinstance(v, Num) and n not in (kname,)]
            found_v = found_u = None
            for n in vnames:
                e = scalar_of(post[n], n)
                nested = Expr.atom(("ite", "spanning(%s)" % gname, Expr.atom(("ite", "spanning(%s)" % g2, Expr.leaf(n), K)), Expr.leaf(n)))
                nested2 = Expr.atom(("ite", "spanning(%s)" % g2, Expr.leaf(n), Expr.atom(("ite", "spanning(%s)" % gname, K, Expr.leaf(n)))))
                if e == Expr.atom(("ite", span_key, K, Expr.leaf(n))) or e == nested or e == nested2:
                    found_v = n
                if e == Expr.atom(("ite", loops_key, K * Expr.leaf(n), Expr.leaf(n))):
                    found_u = n
            ctx.ob(RB, "[%s] V_tr bookkeeping: v := x[edge] iff spanning(graph) ∧ ¬spanning(graph∖edge) (`%s`)" % (label, found_v), found_v is not None, fn,
                   "v-trop-update:" + label, detail="state after the iteration: %s" % {n: scalar_of(post[n], n).key()[:200] for n in vnames})
            ctx.ob(RB, "[%s] U_tr bookkeeping: u *= x[edge] iff loops(graph∖edge) < loops(graph) (`%s`)" % (label, found_u), found_u is not None, fn,
                   "u-trop-update:" + label, detail="state after the iteration: %s" % {n: scalar_of(post[n], n).key()[:200] for n in vnames})
            others = [n for n in vnames if n not in (found_u, found_v) and scalar_of(post[n], n) != Expr.leaf(n)]
            ctx.ob(RB, "[%s] no other scalar state changes in an iteration" % label, not others, fn, "other-state:" + label, detail="also modified: %s" % others)
            # the state the loop hands over is the state AT THE EXIT: the same writes must have happened there
            def same(a_, b_):
                if isinstance(a_, Arr) and isinstance(b_, Arr):
                    return [(r.index, r.op, scalar_of(r.value, "x").key(), len(r.binders), len(r.guards)) for r in a_.rules] == \
                           [(r.index, r.op, scalar_of(r.value, "x").key(), len(r.binders), len(r.guards)) for r in b_.rules]
                if isinstance(a_, Num) and isinstance(b_, Num):
                    return a_.expr == b_.expr
                return False
            for k_, st in enumerate(tr.get("state_at_break") or []):
                stale = [n for n in (xname, found_u, found_v) if n is not None and not same(st.get(n), post.get(n))]
                ctx.ob(RB, "[%s] where the loop is left, the parameter write and the tropical bookkeeping of this iteration have already happened "
                           "(state at the exit == state at the end of the iteration for x, U_tr, V_tr)" % label, not stale, fn, "state-at-exit:" + label,
                       detail="at the exit under %s these differ from the end-of-iteration state: %s" % (tr["breaks"][k_], stale))
            w.names = {"x": xname, "kappa": kname, "u": found_u, "v": found_v, "graph": gname}
            # the recurrences start from κ = 1, U_tr = 1, V_tr = 1 (the empty products): what the constant builders hand back is decided
            # from their bodies, not from their names
            pre = getattr(w, "pre_loop", None) or {}
            if case:
                init_bad = []
                for nm_ in (kname, found_u, found_v):
                    v0 = pre.get(nm_)
                    if nm_ is None or not isinstance(v0, Num) or v0.expr.simplified() != Expr.const(1):
                        init_bad.append("%s = %s" % (nm_, v0.expr.key() if isinstance(v0, Num) else v0))
                ctx.ob(RB, "before the first iteration κ = U_tr = V_tr = 1", not init_bad, fn, "initial-state", detail="; ".join(init_bad))
        guarded_clause(ctx, RA if emit_a else RB, fn, "iteration:" + label, body)


def run_rescaling(ctx, pid):
    rc, rd_ = pid + "-c", pid + "-d"
    ctx.rule(rc, "rescaling: every x_e is multiplied by one factor s with s^(L·D/2+dod)·U_tr^(D/2)·V_tr^dod = 1 (L = the full graph's stored loop number), "
                 "so the returned tropical polynomials are 1")
    w = sector_world(ctx)
    if not w.ok:
        ctx.ob(rc, "sector routine summarised", False, "sampling::permatuhedral_sampling", "kernel-undecided", detail="kernel-undecided: %s" % w.error)
        return
    fn = w.sector.path
    ctx.fn(fn)

    def body():
        res = w.result
        xs = [(n, v) for n, v in res.fields.items() if isinstance(v, Arr)]
        scal = [(n, v) for n, v in res.fields.items() if isinstance(v, Num)]
        if len(xs) != 1 or len(scal) != 2:
            raise Undecided("sector result fields")
        xe = scalar_of(xs[0][1].at("e"), "x[e]")
        # the loop's array state is a named unknown; divide it out
        names = set()
        xe.has_atom(lambda a: names.add(a[1]) if a[0] == "leaf" and len(a) == 3 and a[2] == "e" else False)
        if len(names) != 1:
            raise Undecided("x[e] does not factor as (loop state)[e] · s: %s" % xe.key()[:200])
        xname = sorted(names)[0]
        s_ = (xe * Expr.leaf(xname, "e").inv()).simplified()
        ok_s = s_.is_monomial() and "e" not in s_.free_vars()
        ctx.ob(rc, "x[e] = x_loop[e]·s with one common factor s", ok_s, fn, "common-rescaling-factor", detail="x[e]/x_loop[e] = %s" % s_.key()[:300])
        if not ok_s:
            return
        trop = sorted(a[1] for a, _x in s_.terms[0].atoms if a[0] == "leaf" and len(a) == 2)
        ok_two = len(trop) == 2
        ctx.ob(rc, "s is a monomial in the two tropical polynomials (%s)" % trop, ok_two and s_.terms[0].coeff == 1 and len(s_.terms[0].atoms) == 2, fn,
               "scaling-monomial", detail="s = %s" % s_.key())
        if not ok_two:
            return
        Lf = sp.Symbol("loops(full)", positive=True)
        names = getattr(w, "names", None) or {}
        un, vn = names.get("u"), names.get("v")
        if un not in trop or vn not in trop:
            # fall back: decide which is U by the identity itself (try both assignments)
            cands = [(trop[0], trop[1]), (trop[1], trop[0])]
        else:
            cands = [(un, vn)]
        good = None
        for (u_, v_) in cands:
            ident = s_.powf(Lf * D / 2 + DOD) * Expr.leaf(u_).powf(D / 2) * Expr.leaf(v_).powf(DOD)
            if ident.simplified() == Expr.const(1):
                good = (u_, v_)
        ctx.ob(rc, "s^(L·D/2+dod)·U_tr^(D/2)·V_tr^dod == 1 with L the stored loop number of the full graph", good is not None, fn, "rescaling-identity",
               detail="s = %s; identity does not reduce to 1 for (U_tr, V_tr) in %s" % (s_.key(), cands))
        ones = all(scalar_of(v, n) == Expr.const(1) for n, v in scal)
        ctx.ob(rc, "the returned tropical polynomials are the constant 1", ones, fn, "returned-trop-one",
               detail="%s" % {n: scalar_of(v, n).key() for n, v in scal})
    guarded_clause(ctx, rc, fn, "rescaling", body)


# ---------------------------------------------------------------------------------------------------
# C03 / C04: the table builder

def edges_of(ent):
    cls = "edges(«%s»)" % ent
    return Arr((cls,), lambda k: Num(Expr.leaf("$ix", k), ent=k), name="edges")


def graph_hooks(ctx, seen):
    """Abstractions of the graph-algorithm routines (their correctness is NOT decided): loop number and spanning flag of an edge set."""
    def loops_hook(I, c, a):
        e = a[1]
        seen.setdefault("loops", []).append(e.classes[0] if isinstance(e, Arr) else None)
        if is_all_edges(e):
            return num_size("L")
        if isinstance(e, Arr):
            return Num(Expr.atom(("call", "loops", str(e.classes[0]))))
        raise Undecided("loop-number routine applied to %r" % (e,))

    def span_hook(I, c, a):
        e = a[1]
        seen.setdefault("span", []).append(e.classes[0] if isinstance(e, Arr) else None)
        if isinstance(e, Arr):
            return Cond("key", "spanning(%s)" % str(e.classes[0]))
        raise Undecided("spanning routine applied to %r" % (e,))

    def contains_hook(I, c, a):
        g = a[0]
        mf = idroles.id_roles(ctx).get("mask_field", "id")
        if isinstance(g, Struct) and mf in g.fields and isinstance(g.fields[mf], Num) and g.fields[mf].ent is not None:
            return edges_of(g.fields[mf].ent)
        if isinstance(g, world.GraphIdVal):
            return Arr(("edges(%s)" % g.key_,), lambda k: Num(Expr.leaf("$ix", k), ent=k), name="edges(%s)" % g.key_)
        return NotImplemented
    gr = idroles.graph_roles(ctx)
    idr = idroles.id_roles(ctx)
    hooks = {gr["loopnum"].path: loops_hook, gr["spanning"].path: span_hook, idr["contains_edges"].path: contains_hook}
    return hooks


def builder_roles(ctx):
    R = ctx.roles
    bs = R.build_sampler()
    fg = tb = None
    for bi, t, cb in R.local_callees(bs):
        if cb.local_ty(0).startswith("core::result::Result<"):
            tb = cb
        elif "TropicalGraph" in cb.local_ty(0):
            fg = cb
    if fg is None or tb is None:
        from ..roles import builds_adt
        raise RoleLost("from_graph / table_builder: the two callees of build_sampler", wanted=builds_adt("SampleGenerator"))
    jrec = None
    for bi, t, cb in R.local_callees(tb):
        bodies = [cb] + list(ctx.facts.closures_of(cb.path))
        if any(x is cb for b_ in bodies for _b, _t, x in R.local_callees(b_)):
            jrec = cb
    if jrec is None:
        raise RoleLost("jrec: the self-recursive callee of the table builder")
    return bs, fg, tb, jrec


def graph_param():
    return world.Model("Graph", {
        "edges": lambda: Arr(("E",), lambda e: world.Model("Edge", {
            "vertices": lambda _e=e: Tup([Num(Expr.leaf("vl", _e)), Num(Expr.leaf("vr", _e))]),
            "is_massive": lambda _e=e: Cond("key", "massive[«%s»]" % _e),
            "weight": lambda _e=e: Num(Expr.leaf("w", _e))}), name="edges"),
        "externals": lambda: Opaque("externals")})


def run_c03(ctx):
    ctx.rule("C03-a", "from_graph: dod = Σ_e w_e − L·D/2 with L the loop-number routine on all edges and D the dimension argument; num_loops = L; "
                      "TropicalEdge fields copied from the like-named Edge fields; num_massive_edges = |{e: is_massive}|; external_vertices = externals")
    ctx.rule("C03-b", "table builder, entry of subset i: generalized dod = [i≠∅]·(Σ_{e∈i} w_e − ℓ(i)·D/2 − [spanning(i)]·dod) + [i=∅]·1, and the stored "
                      "loop number / spanning flag are the values of the same routines on the same edge set")
    ctx.rule("C03-c", "get_dimension = 2E − 1 + D·L + (D·L mod 2)")
    ctx.rule("C03-d", "getters return the stored quantities (get_dod, get_num_edges, iter_edge_weights in index order)")
    f = ctx.facts
    try:
        bs, fg, tb, jrec = builder_roles(ctx)
    except RoleLost as e:
        return ctx.lost("C03-a", str(e))
    ctx.fn(fg.path, tb.path)
    seen = {}
    hooks = graph_hooks(ctx, seen)

    def a():
        I = Interp(f, models=dict(hooks))
        res = I.run_fn(fg.path, [graph_param(), Num(Expr.symbol("D"), size="D")])
        if not isinstance(res, Struct):
            raise Undecided("from_graph result")
        e = fresh("e")
        want = ssum(leaf("w", e), e, "E") - Expr.symbol("L") * Expr.symbol("D") * Expr.const(sp.Rational(1, 2))
        compare(ctx, "C03-a", "dod == Σ_e w_e − L·D/2", scalar_of(res.fields["dod"], "dod"), want, fg.path, "dod-formula", {}, ())
        ctx.ob("C03-a", "num_loops is the loop-number routine's value on all edges", scalar_of(res.fields["num_loops"], "num_loops") == Expr.symbol("L")
               and seen.get("loops", [None])[0] == "E", fg.path, "num-loops")
        te = res.fields["topology"].at("e")
        ok = (scalar_of(te.fields["weight"], "weight") == leaf("w", "e") and scalar_of(te.fields["left"], "left") == leaf("vl", "e")
              and scalar_of(te.fields["right"], "right") == leaf("vr", "e") and isinstance(te.fields["is_massive"], Cond)
              and te.fields["is_massive"].key() == "massive[«e»]" and scalar_of(te.fields["edge_id"], "edge_id") == leaf("$ix", "e"))
        ctx.ob("C03-a", "topology[e] = (id e, left, right, weight, is_massive) of input edge e", ok, fg.path, "edge-field-copy")
        nm = scalar_of(res.fields["num_massive_edges"], "num_massive_edges")
        ctx.ob("C03-a", "num_massive_edges counts the massive edges", nm == Expr.atom(("call", "count", "{§∈E | massive[«§»]}")), fg.path, "num-massive",
               detail="num_massive_edges = %s" % nm.key())
        ev = res.fields["external_vertices"]
        ctx.ob("C03-a", "external_vertices is the input's externals", isinstance(ev, Opaque) and ev.name == "externals", fg.path, "externals-copy")
        from .common import builder_forwards_graph
        builder_forwards_graph(ctx, ctx.roles, "C03-a", fg)
    guarded_clause(ctx, "C03-a", fg.path, "from-graph", a)

    def b():
        gdod_clause(ctx, "C03-b", tb)
    guarded_clause(ctx, "C03-b", tb.path, "table-entry", b)

    def c():
        dimfn, dim = dimension_formula(ctx)
        n = Expr.symbol("D") * Expr.symbol("L")
        want = Expr.const(2) * Expr.symbol("E") - Expr.const(1) + n + Expr.atom(("call", "mod", n, Expr.const(2)))
        compare(ctx, "C03-c", "get_dimension == 2E − 1 + D·L + (D·L mod 2)", dim, want, dimfn.path, "dimension-formula", {}, ())
    guarded_clause(ctx, "C03-c", "SampleGenerator::get_dimension", "dimension", c)
    run_c03_tail(ctx, f)


def graph_dod_clause(ctx, RID, topology=False):
    """dod and L of the whole graph as from_graph computes them (restated where a property's formula consumes them); with `topology`
    also that the stored edges, mass count and externals are the caller's, edge by edge in the caller's order."""
    f = ctx.facts
    bs, fg, tb, jrec = builder_roles(ctx)
    seen = {}
    hooks = graph_hooks(ctx, seen)
    ctx.fn(fg.path)
    I = Interp(f, models=dict(hooks))
    res = I.run_fn(fg.path, [graph_param(), Num(Expr.symbol("D"), size="D")])
    if not isinstance(res, Struct):
        raise Undecided("from_graph result")
    e = fresh("e")
    want = ssum(leaf("w", e), e, "E") - Expr.symbol("L") * Expr.symbol("D") * Expr.const(sp.Rational(1, 2))
    compare(ctx, RID, "dod == Σ_e w_e − L·D/2", scalar_of(res.fields["dod"], "dod"), want, fg.path, "dod-formula", {}, ())
    ctx.ob(RID, "num_loops is the loop-number routine's value on all edges (sum over connected components)",
           scalar_of(res.fields["num_loops"], "num_loops") == Expr.symbol("L") and seen.get("loops", [None])[0] == "E", fg.path, "num-loops")
    if topology:
        te = res.fields["topology"].at("e")
        ok = (isinstance(te, Struct) and scalar_of(te.fields["weight"], "weight") == leaf("w", "e") and scalar_of(te.fields["left"], "left") == leaf("vl", "e")
              and scalar_of(te.fields["right"], "right") == leaf("vr", "e") and isinstance(te.fields["is_massive"], Cond)
              and te.fields["is_massive"].key() == "massive[«e»]" and scalar_of(te.fields["edge_id"], "edge_id") == leaf("$ix", "e"))
        ctx.ob(RID, "topology[e] = (id e, left, right, weight, is_massive) of the caller's edge e, in the caller's order", ok, fg.path, "edge-field-copy")
        nm = scalar_of(res.fields["num_massive_edges"], "num_massive_edges")
        ctx.ob(RID, "num_massive_edges counts the massive edges", nm == Expr.atom(("call", "count", "{§∈E | massive[«§»]}")), fg.path, "num-massive",
               detail="num_massive_edges = %s" % nm.key())
        ev = res.fields["external_vertices"]
        ctx.ob(RID, "external_vertices is the input's externals", isinstance(ev, Opaque) and ev.name == "externals", fg.path, "externals-copy")
        from .common import builder_forwards_graph
        builder_forwards_graph(ctx, ctx.roles, RID, fg)


def normalisation_clause(ctx, RID):
    """cached_factor = J(full)·Γ(dod)/Π_e Γ(w_e)·π^(D·L/2) (restated from C04-b where the jacobian consumes it)."""
    bs, fg, tb, jrec = builder_roles(ctx)
    tw = table_world(ctx)
    got = scalar_of(tw.result.fields["cached_factor"], "cached_factor")
    e = fresh("e")
    want = (Expr.atom(("call", "J", ("ix", "last"))) * Expr.symbol("dod").fn("gamma") * Expr.atom(("prod", e, "E", leaf("w", e).fn("gamma"))).inv()
            * Expr.atom(("sym", "pi")).powf(D * L / 2))
    compare(ctx, RID, "normalisation == J(last)·Γ(dod)·(Π_e Γ(w_e))⁻¹·π^(D·L/2)", got, want, tb.path, "cached-factor", {}, ())


def gdod_clause(ctx, RID, tb):
    if True:
        tw = table_world(ctx)
        r = tw.result
        ent = tw.entry_from_writes("i")
        cls = "edges(«i»)"
        k = fresh("k")
        W = ssum(leaf("w", k), k, cls)
        ell = Expr.atom(("call", "loops", cls))
        half = Expr.const(sp.Rational(1, 2))
        base = W - ell * Expr.symbol("D") * half
        want = Expr.atom(("ite", "spanning(%s)" % cls, base - Expr.symbol("dod"), base)).guarded([("!=", "i", 0)]) + Expr.const(1).guarded([("=", "i", 0)])
        compare(ctx, RID, "generalized_dod(i) == [i≠0]·ite(spanning, W−ℓD/2−dod, W−ℓD/2) + [i=0]·1", scalar_of(ent.fields["generalized_dod"], "gdod"), want,
                tb.path, "generalized-dod", {"i": "2^E"}, ())
        ctx.ob(RID, "stored loop_number is ℓ(edges of i)", scalar_of(ent.fields["loop_number"], "loop_number") == ell, tb.path, "stored-loop-number")
        sp_ = ent.fields["mass_momentum_spanning"]
        ctx.ob(RID, "stored flag is spanning(edges of i)", isinstance(sp_, Cond) and sp_.key() == "spanning(%s)" % cls, tb.path, "stored-spanning-flag")
        dim = r.fields["dimension"]
        ctx.ob(RID, "the table stores the dimension argument", scalar_of(dim, "dimension") == Expr.symbol("D"), tb.path, "stored-dimension")
        # what is written in the subset loop is what the finished table holds: the conversion of the working table (`to_entry`, a map, a
        # clamp "for rounding") changes no field
        tbl = r.fields["table"]
        fin = tbl.at("i") if isinstance(tbl, Arr) else None
        ok_f, det_f = False, "the finished table is not a sequence of entries"
        if isinstance(fin, Struct):
            diffs = []
            for fld_ in ("generalized_dod", "loop_number"):
                if fld_ not in fin.fields or scalar_of(fin.fields[fld_], fld_) != scalar_of(ent.fields[fld_], fld_):
                    diffs.append(fld_)
            fs_ = fin.fields.get("mass_momentum_spanning")
            if not (isinstance(fs_, Cond) and isinstance(sp_, Cond) and fs_.key() == sp_.key()):
                diffs.append("mass_momentum_spanning")
            jf = fin.fields.get("j_function")
            if not (isinstance(jf, Num) and jf.expr == Expr.atom(("call", "J", ("ix", "i")))):
                diffs.append("j_function")
            ok_f, det_f = not diffs, "fields that differ between the entry written in the subset loop and the finished table: %s" % diffs
        ctx.ob(RID, "the finished table holds, entry by entry, exactly what the subset loop and the J recursion wrote", ok_f, tb.path, "table-conversion",
               detail=det_f)


def run_c03_tail(ctx, f):

    def d():
        sg = world.Model("SampleGenerator", {"table": world.table, "loop_signature": world.signature})
        for name, want in (("get_dod", Expr.symbol("dod")), ("get_num_edges", Expr.symbol("E"))):
            bs_ = [b for b in f.mir.values() if (f.fns.get(b.path) or {}).get("name") == name and "SampleGenerator" in ((f.fns.get(b.path) or {}).get("impl_self") or "")]
            if len(bs_) != 1:
                raise Undecided("getter %s" % name)
            ctx.fn(bs_[0].path)
            I = Interp(f)
            res = I.run_fn(bs_[0].path, [sg])
            ctx.ob("C03-d", "%s returns the stored quantity" % name, scalar_of(res, name) == want, bs_[0].path, "getter:" + name, detail="returns %s" % scalar_of(res, name).key())
        bs_ = [b for b in f.mir.values() if (f.fns.get(b.path) or {}).get("name") == "iter_edge_weights"]
        if len(bs_) == 1:
            I = Interp(f)
            res = I.run_fn(bs_[0].path, [sg])
            ok = isinstance(res, Arr) and res.classes == ("E",) and scalar_of(res.at("e"), "weight") == leaf("w", "e")
            ctx.ob("C03-d", "iter_edge_weights yields topology[e].weight in index order", ok, bs_[0].path, "getter:iter_edge_weights")
    guarded_clause(ctx, "C03-d", "SampleGenerator", "getters", d)
    run_c03_flags(ctx)
    run_c03_loops(ctx)
    run_c03_adjacency(ctx)


def shares_endpoint(cond, a, b):
    """Is the condition equivalent to `edges a and b share an endpoint` for EVERY equality pattern among the endpoint labels?
    (The labels are touched only through ==/!=, so the finitely many set partitions of the operands are exhaustive.)"""
    from ..kern import boolean
    la, ra, lb, rb = leaf("vl", a).key(), leaf("vr", a).key(), leaf("vl", b).key(), leaf("vr", b).key()
    want = ("or", ("or", ("cmp", "Eq", la, lb), ("cmp", "Eq", ra, lb)), ("or", ("cmp", "Eq", la, rb), ("cmp", "Eq", ra, rb)))
    try:
        return boolean.prop_equiv(cond.tree, want)
    except boolean.NotComparable as e:
        raise Undecided("adjacency predicate not comparable: %s" % e)


def run_c03_adjacency(ctx, RID="C03-g"):
    ctx.rule(RID, "the helpers the connected-components routine delegates to: adjacency(e,i) ⇔ edges e and i share an endpoint (all equality "
                  "patterns of the four labels); neighbours(e,S) = the members of S adjacent to e; component ids = ⋃_{e∈c} (1 << e) with the graph's extent")
    f = ctx.facts
    try:
        gr = idroles.graph_roles(ctx)
        if "components" not in gr:
            raise RoleLost("components routine")
        idr = idroles.id_roles(ctx)
    except RoleLost as e:
        return ctx.lost(RID, str(e))
    comp = gr["components"]
    ctx.fn(comp.path)
    # local callees reachable from the routine (through its closures), classified by signature shape
    seen, work, helpers = set(), [comp], []
    while work:
        b = work.pop()
        if id(b) in seen:
            continue
        seen.add(id(b))
        for cl in f.closures_of(b.path) if hasattr(f, "closures_of") else []:
            work.append(cl)
        for bi, t, cb in ctx.roles.local_callees(b):
            if cb is comp or id(cb) in seen:
                continue
            helpers.append(cb)
            work.append(cb)
    idty = f.adts[idr["adt"]]["self_ty"]
    topo = Arr(("E",), lambda e: Struct("TropicalEdge", {
        "edge_id": Num(Expr.leaf("$ix", e)), "left": Num(Expr.leaf("vl", e)), "right": Num(Expr.leaf("vr", e)),
        "weight": Num(Expr.leaf("w", e)), "is_massive": Cond("key", "massive[«%s»]" % e)}), name="topology")
    tg = Struct("TropicalGraph", {"dod": Num(Expr.symbol("dod")), "topology": topo, "num_massive_edges": Num(Expr.symbol("n_massive")),
                                  "external_vertices": Arr(("X",), lambda v: Num(Expr.leaf("ext", v)), name="externals"), "num_loops": num_size("L")})
    S = Arr(("S",), lambda k: Num(Expr.leaf("$ix", k), ent=k), name="subset")
    ea, eb = Num(Expr.leaf("$ix", "a"), ent="a"), Num(Expr.leaf("$ix", "b"), ent="b")
    counts = {"adjacency": 0, "neighbours": 0, "id-from-edges": 0}
    done = set()
    for h in helpers:
        if id(h) in done:
            continue
        done.add(id(h))
        fi = f.fns.get(h.path) or {}
        ins = fi.get("inputs", [])
        out = fi.get("output") or h.local_ty(0)
        graph_self = fi.get("has_self") and "TropicalGraph" in (fi.get("impl_self") or "")

        def clause(kind, thunk, _h=h):
            counts[kind] += 1
            ctx.fn(_h.path)
            guarded_clause(ctx, RID, _h.path, kind, thunk)
        if graph_self and out == "bool" and ins[1:] == ["usize", "usize"]:
            def adj(_h=h):
                r = Interp(f, models=dict(role_hooks(ctx))).run_fn(_h.path, [tg, ea, eb])
                if not isinstance(r, Cond):
                    raise Undecided("adjacency result is not a condition")
                ok, why = shares_endpoint(r, "a", "b")
                ctx.ob(RID, "adjacency(a,b) ⇔ {left,right}(a) ∩ {left,right}(b) ≠ ∅ (%s)" % why, ok, _h.path, "adjacency-relation",
                       detail="the edge-adjacency test is not `the two edges share an endpoint`: %s; code condition: %s" % (why, r.key()[:300]))
            clause("adjacency", adj)
        elif graph_self and out.startswith("alloc::vec::Vec<usize") and len(ins) == 3 and ins[1] == "usize":
            def nb(_h=h):
                r = Interp(f, models=dict(role_hooks(ctx))).run_fn(_h.path, [tg, ea, S])
                fo = getattr(r, "filter_of", None)
                if not isinstance(r, Arr) or fo is None:
                    raise Undecided("neighbour list is not a filter of the subset")
                base_ok = fo[0].classes == ("S",) and scalar_of(r.at("k"), "member") == Expr.leaf("$ix", "k")
                ctx.ob(RID, "neighbours(e,S) selects members of the subset S handed in (in its order)", base_ok, _h.path, "neighbours-of-subset")
                ok, why = shares_endpoint(fo[1], "a", "§")
                ctx.ob(RID, "neighbours(e,S) keeps i ⇔ i shares an endpoint with e (%s)" % why, ok, _h.path, "neighbours-relation",
                       detail="the neighbour filter is not `shares an endpoint with e`: %s; code condition: %s" % (why, fo[1].key()[:300]))
            clause("neighbours", nb)
        elif not fi.get("has_self") and out == idty and len(ins) == 2 and ins[1] == "usize" and ins[0].startswith("&[usize"):
            def ids(_h=h):
                r = Interp(f, models=dict(role_hooks(ctx))).run_fn(_h.path, [S, num_size("E")])
                if not isinstance(r, Struct):
                    raise Undecided("id constructor result")
                k = fresh("k")
                one = Expr.const(1)
                want = X.bitop("bitor", Expr.zero(), Expr.atom(("bitunion", k, "S", Expr.atom(("call", "shl", one, Expr.leaf("$ix", k))))))
                got = scalar_of(r.fields[idr["mask_field"]], "mask")
                ctx.ob(RID, "id(list) mask = 0 | ⋃_{k} (1 << list[k])", got == want, _h.path, "id-from-edges-mask", detail="mask = %s" % got.key()[:300])
                ctx.ob(RID, "id(list) extent = the extent argument", scalar_of(r.fields[idr["extent_field"]], "extent") == Expr.symbol("E"), _h.path,
                       "id-from-edges-extent")
            clause("id-from-edges", ids)
    ctx.note("%s: helpers of the components routine examined: %s" % (RID, counts))
    if not any(counts.values()):
        ctx.note("%s: the components routine delegates to no local helper of a recognised shape; nothing to decide here" % RID)


def run_c03_flags(ctx, RID="C03-e"):
    """Definition-level clause for the spanning flag, with the connected-components routine abstracted."""
    ctx.rule(RID, "spanning(S) = [#massive edges in S == #massive edges of the graph] ∧ ∃ component c of S: ∀ external v: ∃ edge i of c touching v "
                      "(connected-components routine abstracted, its correctness not decided)")
    f = ctx.facts
    try:
        gr = idroles.graph_roles(ctx)
        if "components" not in gr:
            raise RoleLost("components routine (callee of the spanning routine returning subgraph ids)")
    except RoleLost as e:
        return ctx.lost(RID, str(e))
    fn = gr["spanning"].path
    ctx.fn(fn)

    def body():
        def comps_hook(I, c, a):
            e = a[1]
            cls = e.classes[0] if isinstance(e, Arr) else "?"
            return Arr(("comps(%s)" % cls,), lambda j: world.GraphIdVal("comp(«%s»)" % j), name="components")
        hooks = dict(role_hooks(ctx))
        hooks[gr["components"].path] = comps_hook
        I = Interp(f, models=hooks)
        topo = Arr(("E",), lambda e: Struct("TropicalEdge", {
            "edge_id": Num(Expr.leaf("$ix", e)), "left": Num(Expr.leaf("vl", e)), "right": Num(Expr.leaf("vr", e)),
            "weight": Num(Expr.leaf("w", e)), "is_massive": Cond("key", "massive[«%s»]" % e)}), name="topology")
        tg = Struct("TropicalGraph", {"dod": Num(Expr.symbol("dod")), "topology": topo, "num_massive_edges": Num(Expr.symbol("n_massive")),
                                      "external_vertices": Arr(("X",), lambda v: Num(Expr.leaf("ext", v)), name="externals"), "num_loops": num_size("L")})
        S = Arr(("S",), lambda k: Num(Expr.leaf("$ix", k), ent=k), name="subset")
        res = I.run_fn(fn, [tg, S])
        if not isinstance(res, Cond):
            raise Undecided("spanning routine does not return a condition")
        from ..kern import boolean
        mass = ("cmp", "Eq", Expr.atom(("call", "count", "{§∈S | massive[«§»]}")).key(), Expr.symbol("n_massive").key())
        touch = ("or", ("cmp", "Eq", leaf("vl", "§q2").key(), leaf("ext", "§q1").key()), ("cmp", "Eq", leaf("vr", "§q2").key(), leaf("ext", "§q1").key()))
        mom = ("exists", "§q0", "comps(S)", ("forall", "§q1", "X", ("exists", "§q2", "edges(comp(«§q0»))", touch)))
        want = ("and", mass, mom)
        ok, why = boolean.equiv(res.tree, want)
        ctx.ob(RID, "spanning(S) is the conjunction of the mass condition and the momentum condition of the statement (%s)" % why[:160], ok, fn,
               "spanning-definition", detail="%s\n        code:      %s\n        reference: %s" % (why, boolean.normal_text(res.tree)[:900], boolean.normal_text(want)[:900]))
    guarded_clause(ctx, RID, fn, "spanning-definition", body)


def run_c03_loops(ctx, RID="C03-f", soft=False):
    if not soft:
        ctx.rule(RID, "loop number of an edge set S: 0 for the empty set, else Σ_{component c of S} (1 + |edges(c)| − |{endpoints of the edges of c}|) "
                      "(Euler's formula per component; connected-components routine abstracted, its correctness not decided)")
    f = ctx.facts
    try:
        gr = idroles.graph_roles(ctx)
        if "components" not in gr:
            raise RoleLost("components routine")
    except RoleLost as e:
        if soft:
            return ctx.note("%s: restated loop-number clause skipped — %s; the owning rule reports it" % (RID, e))
        return ctx.lost(RID, str(e))
    fn = gr["loopnum"].path
    ctx.fn(fn)

    def body():
        def comps_hook(I, c, a):
            e = a[1]
            cls = e.classes[0] if isinstance(e, Arr) else "?"
            return Arr(("comps(%s)" % cls,), lambda j: world.GraphIdVal("comp(«%s»)" % j), name="components")
        hooks = dict(role_hooks(ctx))
        hooks[gr["components"].path] = comps_hook
        I = Interp(f, models=hooks)
        topo = Arr(("E",), lambda e: Struct("TropicalEdge", {
            "edge_id": Num(Expr.leaf("$ix", e)), "left": Num(Expr.leaf("vl", e)), "right": Num(Expr.leaf("vr", e)),
            "weight": Num(Expr.leaf("w", e)), "is_massive": Cond("key", "massive[«%s»]" % e)}), name="topology")
        tg = Struct("TropicalGraph", {"dod": Num(Expr.symbol("dod")), "topology": topo, "num_massive_edges": Num(Expr.symbol("n_massive")),
                                      "external_vertices": Arr(("X",), lambda v: Num(Expr.leaf("ext", v)), name="externals"), "num_loops": num_size("L")})
        S = Arr(("S",), lambda k: Num(Expr.leaf("$ix", k), ent=k), name="subset")
        I.fold_early = False      # the only early exit allowed is `empty set -> 0`, checked strictly below
        res = I.run_fn(fn, [tg, S])
        got = scalar_of(res, "loop number")
        ers = [(c, v) for c, v in I.early_returns]
        ok_empty = len(ers) == 1 and ers[0][0] == "empty(S)" and isinstance(ers[0][1], Num) and ers[0][1].expr == Expr.zero()
        # without a guard the value for the empty set is the empty sum over the components of the empty set (the components routine is
        # abstracted: that the empty set has no component is part of what it is assumed to compute)
        no_guard = not ers
        # the guard written as an expression: `if S.is_empty() { 0 } else { Σ… }`
        ts_ = got.simplified().terms
        if no_guard and len(ts_) == 1 and ts_[0].coeff == 1 and not ts_[0].binders and not ts_[0].guards and len(ts_[0].atoms) == 1 and ts_[0].atoms[0][1] == 1:
            a_ = ts_[0].atoms[0][0]
            if a_[0] == "ite" and len(a_) == 4 and a_[1] == "empty(S)" and a_[2] == Expr.zero():
                got = a_[3]
                ok_empty = True
        ctx.ob(RID, "the empty set has loop number 0 (%s)" % ("explicit guard" if ok_empty else "empty sum over components(∅)"), ok_empty or no_guard, fn, "loops-empty",
               detail="early returns %s" % [c for c, _ in ers])
        j = fresh("j")
        ecls = "edges(comp(«%s»))" % j
        verts = "{%s}" % "; ".join(sorted(["%s : §s∈%s" % (leaf("vl", "§s").key(), ecls), "%s : §s∈%s" % (leaf("vr", "§s").key(), ecls)]))
        per = Expr.const(1) + Expr.atom(("sym", ecls)) - Expr.atom(("call", "card", verts))
        want = per.sum_over(j, "comps(S)")
        compare(ctx, RID, "loops(S) == Σ_c (1 + |edges(c)| − |vertices(c)|)", got, want, fn, "loops-euler", {}, ())
    guarded_clause(ctx, RID, fn, "loops-euler", body)


class TableWorld:
    def __init__(self, ctx):
        f = ctx.facts
        bs, fg, tb, jrec = builder_roles(ctx)
        self.seen = {}
        hooks = dict(role_hooks(ctx))
        hooks.update(graph_hooks(ctx, self.seen))

        def jhook(I, c, a):
            pr = None
            for x in I.raw_args:
                from ..kern.interp import PlaceRef
                if isinstance(x, PlaceRef):
                    pr = x
            if pr is None:
                raise Undecided("J recursion is not handed the table by &mut")
            cur = I.read_place(pr.var, pr.path, I.cur_env)
            from ..kern.interp import Rule
            newv = cur.with_rule(Rule(("jj",), "=", Opt(True, Num(Expr.atom(("call", "J", ("ix", "jj"))))), (("jj", cur.classes[0]),), (), ("j_function",)))
            I.update(pr.var, pr.path, "=", newv, I.cur_env)
            self.jcall_arg = a[0]
            return Num(Expr.symbol("Jfull"))
        hooks[jrec.path] = jhook
        I = Interp(f, models=hooks)
        self.I = I
        res = I.run_fn(tb.path, [world.tropical_graph(), Num(Expr.symbol("D"), size="D")])
        if not (isinstance(res, Opt) and res.some is not False and isinstance(res.payload, Struct)):   # Ok, possibly under the error exits' negated conditions
            raise Undecided("table builder has no Ok(table) main path")
        self.result = res.payload
        self.tb = tb


def _entry_from_writes(self, ent_name):
    """Entry fields of subset `ent_name` as written inside the subset loop (robust against whatever later statements do with the table)."""
    out = {}
    counts = {}
    log = []
    for (var, path, op, val, conds) in self.I.write_log:
        if len(path) == 1 and path[0][0] == "idx" and op == "=" and isinstance(val, Struct) and "generalized_dod" in val.fields:
            # the whole entry written at once: one write per field
            for fld_, v_ in val.fields.items():
                log.append((var, tuple(path) + (("field", fld_),), op, v_, conds))
        else:
            log.append((var, path, op, val, conds))
    for (var, path, op, val, conds) in log:
        if len(path) == 2 and path[0][0] == "idx" and path[1][0] == "field" and op == "=":
            fld = path[1][1]
            if fld not in ("generalized_dod", "loop_number", "mass_momentum_spanning"):
                continue
            counts[fld] = counts.get(fld, 0) + 1
            v = val.payload if isinstance(val, Opt) else val
            from ..kern.interp import subst_val
            out[fld] = subst_val(v, {path[0][1]: ent_name})
    if sorted(out) != ["generalized_dod", "loop_number", "mass_momentum_spanning"] or any(c != 1 for c in counts.values()):
        raise Undecided("the subset loop does not write generalized_dod / loop_number / mass_momentum_spanning exactly once each (%s)" % counts)
    return Struct("Entry", out)


TableWorld.entry_from_writes = _entry_from_writes
_tworlds = {}


def table_world(ctx):
    key = id(ctx.facts)
    if key not in _tworlds:
        _tworlds[key] = TableWorld(ctx)
    return _tworlds[key]


def run_c04(ctx):
    ctx.rule("C04-a", "J recursion as coded: J(∅) = 1 stored and returned; otherwise J(g) = Σ_{e∈edges(g)} J(g∖e)/ω(g∖e) with the same g∖e in both factors; "
                      "memo read key = memo write key = g; iteration over all edges of g")
    ctx.rule("C04-b", "cached_factor = J(last entry)·Γ(dod)/Π_e Γ(w_e)·π^(D·L/2)")
    f = ctx.facts
    try:
        bs, fg, tb, jrec = builder_roles(ctx)
    except RoleLost as e:
        return ctx.lost("C04-a", str(e))
    ctx.fn(jrec.path, tb.path)

    def a():
        def rec_hook(I, c, a):
            if I.depth >= 1:
                g = a[0]
                return Num(Expr.atom(("call", "Jrec", g.key_)))
            return NotImplemented
        hk = dict(role_hooks(ctx))
        hk[jrec.path] = rec_hook
        I = Interp(f, models=hk)
        table = Arr(("2^E",), lambda i: Struct("OptEntry", {
            "j_function": Opt(Cond("key", "memo(%s)" % i), Num(Expr.atom(("call", "Jmemo", str(i))))),
            "generalized_dod": Opt(True, Num(Expr.atom(("call", "omega", i if isinstance(i, str) else str(i))))),
            "loop_number": Opt(True, Num(Expr.atom(("call", "loops", str(i))))),
            "mass_momentum_spanning": Opt(True, Cond("key", "spanning(%s)" % i))}), name="table")
        g = world.GraphIdVal("g")
        # the table is handed over by &mut: bind it as a variable of a synthetic environment
        env = Interp.Env()
        env.define("T", table)
        from ..kern.interp import PlaceRef
        # early exits are folded into the value (whether written as nested if/else or as early returns); the writes through the table
        # reference are read from the write log with their conditions below, so writing after an exit is fine here
        I.allow_ref_writes_after_exit = True
        res = I.run_fn(jrec.path, [g, PlaceRef("T", [])], env)
        k = fresh("k")
        rec = ssum(Expr.atom(("call", "Jrec", "pop(g,«%s»)" % k)) * Expr.atom(("call", "omega", "pop(g,«%s»)" % k)).inv(), k, "edges(g)")
        got = scalar_of(res, "J(g)")
        memo = Expr.atom(("call", "Jmemo", "g"))
        want = Expr.atom(("ite", "empty(g)", Expr.const(1), Expr.atom(("ite", "memo(g)", memo, rec))))
        ok, why = equal_modulo_order(got, want, {}, set())
        ctx.ob("C04-a", "J(g) == ite(empty(g), 1, ite(memo(g), memo value at g, Σ_{e∈edges(g)} J(g∖e)/ω(g∖e)))", ok, jrec.path, "j-recursion",
               detail="code ≠ reference (%s)\n        code:      %s\n        reference: %s" % (why, got.simplified().key()[:600], want.simplified().key()[:600]))
        # memo: the only value-returning early exit besides the base case hands back the memo value at key g
        ers = [(c, v) for c, v in I.early_returns]
        memo_ok = any(c == "memo(g)" and isinstance(v, Num) and v.expr == memo for c, v in ers) and \
            all((c == "memo(g)" and isinstance(v, Num) and v.expr == memo) or (c == "empty(g)" and isinstance(v, Num) and v.expr == Expr.const(1)) for c, v in ers)
        ctx.ob("C04-a", "memoised value is read at key g and returned unchanged", memo_ok, jrec.path, "memo-read-key", detail="early returns %s" % [c for c, _v in ers])
        writes = [(path, val, conds) for (var, path, op, val, conds) in I.write_log if var == "T"]
        keys = set(p[0][1] for p, v, c in writes if p and p[0][0] == "idx")
        fields = set(p[1][1] for p, v, c in writes if len(p) > 1 and p[1][0] == "field")
        base = [v for p, v, c in writes if "empty(g)" in c and isinstance(v, Opt) and isinstance(v.payload, Num) and v.payload.expr == Expr.const(1)]
        ctx.ob("C04-a", "memo writes go to key g, field j_function only; the base case stores 1", keys == {"g"} and fields == {"j_function"} and len(base) == 1,
               jrec.path, "memo-write-key", detail="write keys %s fields %s base-case writes %d" % (keys, fields, len(base)))
    guarded_clause(ctx, "C04-a", jrec.path, "j-recursion", a)

    def b():
        tw = table_world(ctx)
        got = scalar_of(tw.result.fields["cached_factor"], "cached_factor")
        e = fresh("e")
        want = (Expr.atom(("call", "J", ("ix", "last"))) * Expr.symbol("dod").fn("gamma") * Expr.atom(("prod", e, "E", leaf("w", e).fn("gamma"))).inv()
                * Expr.atom(("sym", "pi")).powf(D * L / 2))
        compare(ctx, "C04-b", "cached_factor == J(last)·Γ(dod)·(Π_e Γ(w_e))⁻¹·π^(D·L/2)", got, want, tb.path, "cached-factor", {}, ())
        arg = getattr(tw, "jcall_arg", None)
        ctx.ob("C04-b", "the recursion is started on the full subgraph id", isinstance(arg, world.GraphIdVal) and arg.key_ == "full", tb.path, "j-start-full")
        # `last` IS the full graph's entry: the stored table has exactly 2^E entries (E = number of edges), entry i holding subset id i
        # (C03-b), so the last index is 2^E − 1 = (1 << E) − 1 = the full id's mask (C14-h)
        tbl = tw.result.fields.get("table")
        size = "⟨%s⟩" % Expr.atom(("call", "shl", Expr.const(1), Expr.symbol("E"))).key()
        ctx.ob("C04-b", "the stored table has 2^E entries, so `last` is the entry of the full id (1<<E)−1", isinstance(tbl, Arr) and tbl.classes == (size,),
               tb.path, "last-is-full", detail="table length class %s, expected %s" % (getattr(tbl, "classes", None), size))
    guarded_clause(ctx, "C04-b", tb.path, "cached-factor", b)
    ctx.rule("C04-c", "the dod and L that enter the normalisation are the graph's: dod = Σ_e w_e − L·D/2, L = loop number of all edges (restated from C03-a)")
    restated_clause(ctx, "C04-c", fg.path, "graph-dod", lambda: graph_dod_clause(ctx, "C04-c", topology=True))


# ---------------------------------------------------------------------------------------------------
# C20-b: Vector primitives

def run_c20b(ctx, RID="C20-b", only=None):
    if only is None:
        ctx.rule(RID, "Vector ops are componentwise with equal indices: (a±b)_i = a_i ± b_i, (a·s)_i = a_i·s, += updates every i < D, dot = 0 + Σ_i a_i·b_i "
                      "accumulated from index 0 upwards, squared(v) = dot(v,v), constructors / get_elements are element-wise identity")
    f = ctx.facts

    def vec_fn(name, trait=None, rhs=None):
        out = []
        for b in f.mir.values():
            fi = f.fns.get(b.path) or {}
            if fi.get("name") != name or "vector::Vector" not in (fi.get("impl_self") or ""):
                continue
            if trait is not None and not (fi.get("impl_trait") or "").endswith(trait):
                continue
            if trait is None and fi.get("impl_trait"):
                continue
            if rhs is not None and len(fi.get("inputs", [])) > 1:
                t1 = f.ty(fi["inputs"][1]) or {}
                kind = "T" if t1.get("k") == "param" else ("&T" if t1.get("k") == "ref" and (f.ty(t1.get("t", "")) or {}).get("k") == "param" else "other")
                if kind != rhs:
                    continue
            out.append(b)
        if len(out) != 1:
            raise Undecided("Vector::%s%s (found %d)" % (name, " as " + trait if trait else "", len(out)))
        return out[0]

    A, B = world.vector("a"), world.vector("b")
    S_ = Num(Expr.symbol("s"))

    def one(desc, construct, thunk):
        if only is not None and construct not in only:
            return
        guarded_clause(ctx, RID, "vector::Vector", construct, thunk)

    def binop(name, trait, rhs_val, rhs_ty, want_fn, label):
        def t():
            b = vec_fn(name, trait, rhs_ty)
            ctx.fn(b.path)
            I = Interp(f)
            res = I.run_fn(b.path, [A, rhs_val])
            compare(ctx, RID, "%s: component i" % label, comp(res, "i"), want_fn("i"), b.path, "vector-" + label, {"i": "D"}, ())
        one(label, label, t)

    binop("add", "arith::Add", B, None, lambda i: leaf("a", i) + leaf("b", i), "add")
    binop("sub", "arith::Sub", B, None, lambda i: leaf("a", i) - leaf("b", i), "sub")
    binop("mul", "arith::Mul", S_, "T", lambda i: leaf("a", i) * Expr.symbol("s"), "mul-by-value")
    binop("mul", "arith::Mul", S_, "&T", lambda i: leaf("a", i) * Expr.symbol("s"), "mul-by-ref")

    def dot():
        b = vec_fn("dot")
        ctx.fn(b.path)
        I = Interp(f)
        res = I.run_fn(b.path, [A, B])
        i = fresh("i")
        compare(ctx, RID, "dot(a,b) == 0 + Σ_i a_i·b_i", scalar_of(res, "dot"), ssum(leaf("a", i) * leaf("b", i), i, "D"), b.path, "vector-dot", {}, ())
        b2 = vec_fn("squared")
        ctx.fn(b2.path)
        res2 = I.run_fn(b2.path, [A])
        compare(ctx, RID, "squared(a) == Σ_i a_i·a_i (= dot(a,a))", scalar_of(res2, "squared"), ssum(leaf("a", i) * leaf("a", i), i, "D"), b2.path,
                "vector-squared", {}, ())
        # forward accumulation from index 0: no reversing / reordering adapter in the two pipelines
        for bb in (b, b2):
            names = []

            def walk(x):
                if isinstance(x, dict):
                    if x.get("k") == "match" and str(x.get("source", "")).startswith("ForLoopDesugar"):
                        names.append("for")
                    if x.get("k") == "call" and x.get("callee"):
                        names.append(x["callee"].get("name"))
                    for v_ in x.values():
                        walk(v_)
                elif isinstance(x, list):
                    for v_ in x:
                        walk(v_)
            walk(f.thir[bb.path]["body"])
            bad = [n for n in names if n in ("rev", "rfold", "next_back", "rposition", "sorted", "chunks", "step_by", "tree_fold1", "tree_reduce")]
            ctx.ob(RID, "%s accumulates in ascending index order (pipeline %s)" % (norm_path(bb.path), [n for n in names if n]), not bad and ("fold" in names or "for" in names or "sum" in names),
                   bb.path, "forward-accumulation", detail="adapters %s" % bad)
    one("dot", "dot", dot)

    def add_assign():
        b = vec_fn("add_assign", "arith::AddAssign")
        ctx.fn(b.path)
        I = Interp(f)
        from ..kern.interp import PlaceRef
        env = Interp.Env()
        env.define("V", A)
        I.run_fn(b.path, [PlaceRef("V", []), B], env)
        res = env.get("V")
        compare(ctx, RID, "a += b updates every component i < D", comp(res, "i"), leaf("a", "i") + leaf("b", "i"), b.path, "vector-add-assign", {"i": "D"}, ())
    one("add_assign", "add-assign", add_assign)

    def ctors():
        arr = Arr(("D",), lambda c: Num(Expr.leaf("a", c)), name="elems")
        for name, arg in (("from_array", arr), ("from_slice", arr), ("from_vec", arr)):
            b = vec_fn(name)
            ctx.fn(b.path)
            I = Interp(f)
            res = I.run_fn(b.path, [arg])
            ctx.ob(RID, "%s keeps every element in place" % name, comp(res, "i") == leaf("a", "i"), b.path, "vector-ctor:" + name)
        b = vec_fn("get_elements")
        I = Interp(f)
        res = I.run_fn(b.path, [A])
        ok = isinstance(res, Arr) and scalar_of(res.at("i"), "element") == leaf("a", "i")
        ctx.ob(RID, "get_elements returns the elements in place", ok, b.path, "vector-get-elements")
        for name in ("new", "new_from_num"):
            b = vec_fn(name)
            I = Interp(f)
            res = I.run_fn(b.path, [A if name == "new" else Num(Expr.symbol("s"))])
            ctx.ob(RID, "%s is the zero vector" % name, comp(res, "i") == Expr.zero(), b.path, "vector-zero:" + name)
    one("ctors", "ctors", ctors)

    # IEEE results follow from the arithmetic alone only if no operand VALUE is special-cased (signed zeros, NaN, infinities)
    def branch_free():
        bodies = []
        for b in f.mir.values():
            fi = f.fns.get(b.path) or {}
            root = b.j.get("root")
            owner = f.fns.get(root) if root else fi
            if owner and "vector::Vector" in (owner.get("impl_self") or "") and (owner.get("name") in ("add", "sub", "mul", "add_assign", "dot", "squared",
                                                                                                      "from_array", "from_vec", "from_slice", "get_elements", "new", "new_from_num")):
                bodies.append(b)
        bad = []
        for b in bodies:
            vb = Vals(b)
            for bi, blk in enumerate(b.blocks):
                t = blk["term"]
                if blk["cleanup"] or t["k"] != "switch":
                    continue
                c = vb.classify_bool(t["discr"])
                if not c:
                    continue
                if c[0] == "call" and (c[1].get("callee") or {}).get("name") in ("eq", "ne", "lt", "le", "gt", "ge") \
                        and ((c[1]["callee"].get("trait") or "").endswith(("PartialEq", "PartialOrd"))):
                    st_ = c[1]["callee"].get("self_ty") or ""
                    if st_ not in ("usize", "isize", "u8", "u32", "u64", "i32", "i64", "bool"):
                        bad.append("%s at %s" % (norm_path(b.path), pat.where(t)))
                elif c[0] == "binop" and c[1]["op"] in ("Eq", "Ne", "Lt", "Le", "Gt", "Ge"):
                    a_ = c[1]["a"]
                    ty_ = b.local_ty(a_["place"]["l"]) if a_["k"] in ("copy", "move") and not a_["place"]["p"] else a_.get("ty", "")
                    if ty_ in ("f64", "f32"):
                        bad.append("%s at %s" % (norm_path(b.path), pat.where(t)))
        ctx.ob(RID, "no Vector operation branches on a component / scalar VALUE (%d bodies)" % len(bodies), not bad and len(bodies) >= 10, "vector::Vector",
               "value-dependent-branch", detail="a value comparison decides the result in %s: for that value (e.g. ±0, NaN) the result is not the componentwise IEEE "
                                                "result (sign of zero, NaN propagation)" % bad)
    one("branch-free", "branch-free", branch_free)
