"""E5 rules: code ≡ formula over the reals, for all sizes (kernel algebra on typed HIR).

Each clause evaluates the relevant function(s) once with role-named symbolic inputs, and compares the summarised outputs with a
reference formula transcribed from the property statement, modulo AC, bound-variable renaming, exponent arithmetic, declared
symmetries and triangular-vs-full summation.  Nothing is executed and no concrete size is ever chosen.
"""
import sympy as sp

from ..vals import Vals, callee_is, norm_path
from ..roles import RoleLost
from .. import pat
from ..kern.expr import Expr, fresh, equal_modulo_order, sym
from ..kern import expr as X
from ..kern.interp import Interp, Undecided, Num, Arr, Struct, Tup, Opt, Cond, Opaque, num_const, num_size
from ..kern import world, models

D, L, DOD = sym("D"), sym("L"), sym("dod")


def leaf(name, *idx):
    return Expr.leaf(name, *idx)


def ssum(body, var, cls, guards=()):
    return body.sum_over(var, cls, guards)


class SampleWorld:
    """Symbolic evaluation of `sample` with role hooks; the kernels it calls are evaluated from their own bodies and their
    results recorded and renamed, so every later formula is phrased in the quantities the statements name."""

    def __init__(self, ctx):
        self.ctx = ctx
        self.R = ctx.roles
        self.f = ctx.facts
        self.rec = {}
        self.calls = {}
        self.ok = False
        self.error = None
        self.undecided = []
        self.run()

    def kernel_roles(self):
        R = self.R
        s = R.sample()
        v = Vals(s)
        from .c06 import find_sector
        from .c14 import find_gauss
        roles = {"sector": find_sector(self.ctx, R), "gauss": find_gauss(self.ctx, R)[2], "quantile": R.quantile(), "decompose": R.decompose(),
                 "reader_ctor": R.reader_adt()["ctor"], "read": R.read_fn()}
        # by result-field provenance
        aggs = list(pat.aggregates(s, "TropicalSampleResult"))
        mds = list(pat.aggregates(s, "Metadata"))
        if len(aggs) != 1 or len(mds) != 1:
            raise RoleLost("TropicalSampleResult / Metadata aggregates in sample")

        def producer(rv, field):
            op = rv["ops"][rv["fields"].index(field)]
            t = v.call_term(v.root(op))
            return R.body_of_callee(t.get("callee")) if t is not None else None

        roles["momenta"] = producer(aggs[0][2]["rv"], "loop_momenta")
        roles["vpoly"] = producer(aggs[0][2]["rv"], "v")
        roles["lmatrix"] = producer(mds[0][2]["rv"], "l_matrix")
        roles["uvec"] = producer(mds[0][2]["rv"], "u_vectors")
        roles["shift"] = producer(mds[0][2]["rv"], "shift")
        for k in ("lmatrix", "momenta", "vpoly", "uvec", "shift"):
            if roles[k] is None:
                raise RoleLost("kernel role `%s` (no local producer found)" % k)
        return roles

    def run(self):
        ctx = self.ctx
        try:
            self.roles = self.kernel_roles()
        except RoleLost as e:
            self.error = str(e)
            return
        roles = self.roles
        X.POSITIVE_LEAVES |= {"u", "v", "lambda", "ut", "vt", "cached", "x"}
        rec = self.rec

        def record_and_rename(key, rename):
            body = roles[key]

            def hook(I, c, args):
                val = I.run_fn(body.path, args, None)
                rec[key] = val
                rec[key + "_args"] = args
                return rename
            return body.path, hook

        hooks = {}
        hooks[roles["sector"].path] = lambda I, c, a: Struct("SectorResult", self.sector_fields())
        hooks[roles["decompose"].path] = self.hook_decompose
        hooks[roles["quantile"].path] = self.hook_quantile
        hooks[roles["gauss"].path] = lambda I, c, a: world.vector_seq("q", "L")
        hooks[roles["reader_ctor"].path] = lambda I, c, a: Opaque("reader")
        hooks[roles["read"].path] = lambda I, c, a: Num(Expr.leaf("read", fresh("site")))
        for key, rename in (("lmatrix", world.matrix("Lmat")), ("uvec", world.vector_seq("u", "L")), ("vpoly", Num(Expr.symbol("v")))):
            p, h = record_and_rename(key, rename)
            hooks[p] = h
        # reader builders (zero/one on the opaque reader)
        rd_adt = ctx.roles.reader_adt()["adt"]
        for key, b in self.f.mir.items():
            fi = self.f.fns.get(b.path) or {}
            if (self.f.ty(fi.get("impl_self") or "") or {}).get("path") == rd_adt and b is not roles["read"] and b is not roles["reader_ctor"]:
                hooks[b.path] = (lambda nm: (lambda I, c, a: num_const(0) if nm.endswith("zero") else num_const(1)))(b.path)
        I = Interp(self.f, models=hooks)
        self.I = I
        s = roles and ctx.roles.sample()
        ctx.fn(s.path, *[roles[k].path for k in ("lmatrix", "uvec", "vpoly", "momenta", "shift")])
        # bind sample's parameters by type
        args = []
        for l in s.locals[1:s.arg_count + 1]:
            ty = l["ty"]
            if "TropicalSubgraphTable" in ty:
                args.append(world.table())
            elif "TropicalSamplingSettings" in ty:
                args.append(world.settings())
            elif "alloc::vec::Vec<isize>" in ty:
                args.append(world.signature())
            elif "core::option::Option<" in ty and "Vector" in ty:
                args.append(world.edge_data())
            elif ty.startswith("&[") and self.f.ty(self.f.ty(self.f.ty(ty)["t"])["t"]).get("k") == "param":
                args.append(Opaque("x_space_point"))
            else:
                args.append(Opaque(l.get("name") or "arg"))
        try:
            res = I.run_fn(s.path, args)
        except Undecided as u:
            self.error = "sample could not be summarised: %s" % u.what
            return
        self.undecided = I.undecided
        if not (isinstance(res, Opt) and res.some is True and isinstance(res.payload, Struct)):
            self.error = "sample's result is not Ok(TropicalSampleResult{..}) on the main path"
            return
        self.result = res.payload
        self.ok = True

    def sector_fields(self):
        """Fields of the sector routine's result by type: the Vec of scalars is `x`, the scalars keep their field names."""
        body = self.roles["sector"]
        rty = self.f.ty(body.local_ty(0)) or {}
        adt = self.f.adts.get(rty.get("path"))
        out = {}
        if adt is None:
            raise Undecided("sector result type")
        for fl in adt["variants"][0]["fields"]:
            if fl["ty"].startswith("alloc::vec::Vec<"):
                out[fl["name"]] = world.scalar_seq("x", "E")
                self.x_field = fl["name"]
            else:
                out[fl["name"]] = Num(Expr.symbol({"u_trop": "ut", "v_trop": "vt"}.get(fl["name"], fl["name"])))
        return out

    def hook_decompose(self, I, c, args):
        self.calls["decompose"] = args
        return Opt(True, world.decomposition())

    def hook_quantile(self, I, c, args):
        self.calls["quantile"] = args
        return Opt(True, Num(Expr.symbol("lambda")))


_worlds = {}


def sample_world(ctx):
    key = (id(ctx.facts),)
    if key not in _worlds:
        _worlds[key] = SampleWorld(ctx)
    return _worlds[key]


def compare(ctx, rule, desc, got, want, fn, construct, classes, symmetric=("Linv",), stmt=None):
    ok, why = equal_modulo_order(got, want, classes, set(symmetric))
    ctx.ob(rule, desc, ok, fn, construct,
           detail=None if ok else "code ≠ reference formula (%s).\n        code:      %s\n        reference: %s" % (why, got.simplified().key()[:700], want.simplified().key()[:700]))
    return ok


def need_world(ctx, rule):
    w = sample_world(ctx)
    if not w.ok:
        ctx.ob(rule, "sample summarised by the kernel engine", False, "sampling::sample", "kernel-undecided",
               detail="kernel-undecided: %s" % w.error)
        return None
    return w


def scalar_of(v, what):
    if isinstance(v, Num):
        return v.expr
    raise Undecided("%s is not a scalar formula (%r)" % (what, v))


def comp(vec, c):
    """component c of a Vector value"""
    if isinstance(vec, Struct) and "elements" in vec.fields:
        return scalar_of(vec.fields["elements"].at(c), "vector component")
    raise Undecided("not a vector: %r" % (vec,))


def guarded_clause(ctx, rule, fn, construct, thunk):
    try:
        thunk()
    except Undecided as u:
        ctx.ob(rule, "kernel summarised", False, fn, "kernel-undecided:" + construct,
               detail="kernel-undecided: %s (a construct outside the summarisation model lies on the path to a compared output)" % u.what)


# ---------------------------------------------------------------------------------------------------
# C08

def run_c08(ctx):
    ctx.rule("C08-a", "matrix handed to the decomposition: L[a,b] = Σ_e x_e·s[e,a]·s[e,b] for every (a,b) incl. a>b (mirrored write), all E, L")
    ctx.rule("C08-b", "TropicalSampleResult.u is the determinant of the decomposition of that same matrix; Metadata.l_matrix is that matrix")
    w = need_world(ctx, "C08-a")
    if w is None:
        return
    fn = w.roles["lmatrix"].path

    def a():
        Lm = w.rec["lmatrix"]
        e = fresh("e")
        want = ssum(leaf("x", e) * leaf("sig", e, "a") * leaf("sig", e, "b"), e, "E")
        compare(ctx, "C08-a", "L[a,b] == Σ_e x_e s[e,a] s[e,b] in the regions a<b, a=b, a>b", scalar_of(Lm.at("a", "b"), "L entry"), want, fn,
                "l-matrix-entry", {"a": "L", "b": "L"})
        # the matrix builder's inputs are the sector's x and the caller's signature
        args = w.rec["lmatrix_args"]
        x_ok = isinstance(args[0], Arr) and scalar_of(args[0].at("e0"), "x") == leaf("x", "e0")
        s_ok = isinstance(args[1], Arr) and scalar_of(args[1].at("e0").at("l0"), "sig") == leaf("sig", "e0", "l0")
        ctx.ob("C08-a", "the matrix is built from the sector's Feynman parameters and the caller's signature", x_ok and s_ok, fn, "l-matrix-inputs")
    guarded_clause(ctx, "C08-a", fn, "l-matrix", a)

    def b():
        dargs = w.calls.get("decompose")
        ok = dargs is not None and isinstance(dargs[0], Arr) and scalar_of(dargs[0].at("a", "b"), "arg") == leaf("Lmat", "a", "b")
        ctx.ob("C08-b", "the decomposition receives the matrix built by the L-matrix kernel", ok, "sampling::sample", "decompose-receives-l-matrix")
        u = scalar_of(w.result.fields["u"], "u")
        ctx.ob("C08-b", "result.u is the decomposition's determinant", u == Expr.symbol("u"), "sampling::sample", "u-is-determinant",
               detail="u = %s" % u.key())
        md = w.result.fields["metadata"]
        lm = md.payload.fields["l_matrix"]
        ctx.ob("C08-b", "Metadata.l_matrix is that matrix", scalar_of(lm.at("a", "b"), "l_matrix") == leaf("Lmat", "a", "b"), "sampling::sample",
               "metadata-l-matrix")
    guarded_clause(ctx, "C08-b", "sampling::sample", "u-wiring", b)


# ---------------------------------------------------------------------------------------------------
# C09

def mhat(e):
    return Expr.atom(("ite", "has_mass[«%s»]" % e, leaf("m", e), Expr.zero()))


def run_c09(ctx):
    ctx.rule("C09-a", "u_l.c = Σ_e x_e·s[e,l]·p_e.c")
    ctx.rule("C09-b", "v = Σ_e x_e·(m_e² + Σ_c p_e.c²) − Σ_{l,l'} (Σ_c u_l.c·u_l'.c)·L⁻¹[l,l'], m_e = 0 for None, L⁻¹ = the decomposition's `inverse`; result.v is that value")
    w = need_world(ctx, "C09-a")
    if w is None:
        return

    def a():
        fn = w.roles["uvec"].path
        e = fresh("e")
        want = ssum(leaf("x", e) * leaf("sig", e, "l") * leaf("p", e, "c"), e, "E")
        compare(ctx, "C09-a", "u_l.c == Σ_e x_e s[e,l] p_e.c", comp(w.rec["uvec"].at("l"), "c"), want, fn, "u-vector", {"l": "L", "c": "D"})
        md = w.result.fields["metadata"].payload
        ctx.ob("C09-a", "Metadata.u_vectors are those vectors", comp(md.fields["u_vectors"].at("l"), "c") == leaf("u", "l", "c"), "sampling::sample",
               "metadata-u-vectors")
    guarded_clause(ctx, "C09-a", w.roles["uvec"].path, "u-vector", a)

    def b():
        fn = w.roles["vpoly"].path
        e, c, l1, l2, c2 = fresh("e"), fresh("c"), fresh("l"), fresh("l"), fresh("c")
        masses = ssum(leaf("x", e) * (mhat(e) * mhat(e) + ssum(leaf("p", e, c) * leaf("p", e, c), c, "D")), e, "E")
        cross = ssum(ssum(ssum(leaf("u", l1, c2) * leaf("u", l2, c2), c2, "D") * leaf("Linv", l1, l2), l1, "L"), l2, "L")
        want = masses - cross
        compare(ctx, "C09-b", "v == Σ x(m²+p²) − uᵀL⁻¹u (diagonal + 2·upper ≡ full square, L⁻¹ symmetric)", scalar_of(w.rec["vpoly"], "v"), want, fn,
                "v-polynomial", {})
        ctx.ob("C09-b", "result.v is that value", scalar_of(w.result.fields["v"], "v") == Expr.symbol("v"), "sampling::sample", "v-wiring")
    guarded_clause(ctx, "C09-b", w.roles["vpoly"].path, "v-polynomial", b)


# ---------------------------------------------------------------------------------------------------
# C10

def run_c10(ctx):
    ctx.rule("C10-a", "k_l.c = Σ_l' ( (v/(2λ))^½ · Q⁻ᵀ[l,l'] · q_l'.c − L⁻¹[l,l'] · u_l'.c ), Q⁻ᵀ = field q_transposed_inverse indexed (output, summed)")
    ctx.rule("C10-b", "Metadata.shift_l.c = Σ_l' L⁻¹[l,l'] · u_l'.c; Metadata.lambda / q_vectors are the quantile's result / the Gaussian vectors")
    w = need_world(ctx, "C10-a")
    if w is None:
        return

    def a():
        fn = w.roles["momenta"].path
        lp = fresh("l")
        pref = (Expr.symbol("v") * Expr.symbol("lambda").inv() * Expr.const(sp.Rational(1, 2))).powf(sp.Rational(1, 2))
        want = ssum(pref * leaf("QTi", "l", lp) * leaf("q", lp, "c") - leaf("Linv", "l", lp) * leaf("u", lp, "c"), lp, "L")
        got = comp(w.result.fields["loop_momenta"].at("l"), "c")
        compare(ctx, "C10-a", "k_l.c == Σ_l' (√(v/2λ)·QTi[l,l']·q_l'.c − Linv[l,l']·u_l'.c)", got, want, fn, "loop-momenta", {"l": "L", "c": "D"})
    guarded_clause(ctx, "C10-a", w.roles["momenta"].path, "loop-momenta", a)

    def b():
        fn = w.roles["shift"].path
        md = w.result.fields["metadata"].payload
        lp = fresh("l")
        want = ssum(leaf("Linv", "l", lp) * leaf("u", lp, "c"), lp, "L")
        compare(ctx, "C10-b", "shift_l.c == Σ_l' Linv[l,l']·u_l'.c (positive sign)", comp(md.fields["shift"].at("l"), "c"), want, fn, "shift", {"l": "L", "c": "D"})
        ctx.ob("C10-b", "Metadata.lambda is the Gamma variate used in the momenta", scalar_of(md.fields["lambda"], "lambda") == Expr.symbol("lambda"),
               "sampling::sample", "metadata-lambda")
        ctx.ob("C10-b", "Metadata.q_vectors are the Gaussian vectors used in the momenta", comp(md.fields["q_vectors"].at("l"), "c") == leaf("q", "l", "c"),
               "sampling::sample", "metadata-q-vectors")
        dr = md.fields.get("decompoisiton_result") or md.fields.get("decomposition_result")
        if isinstance(dr, Struct):
            ok = scalar_of(dr.fields["q_transposed_inverse"].at("a", "b"), "qti") == leaf("QTi", "a", "b") and \
                scalar_of(dr.fields["inverse"].at("a", "b"), "inv") == leaf("Linv", "a", "b")
            ctx.ob("C10-b", "Metadata's decomposition result is the one used", ok, "sampling::sample", "metadata-decomposition")
    guarded_clause(ctx, "C10-b", w.roles["shift"].path, "shift", b)


# ---------------------------------------------------------------------------------------------------
# C11 (jacobian part; the rescaling identity lives with C07)

def run_c11_jacobian(ctx):
    ctx.rule("C11-a", "jacobian = cached_factor · u_trop^(D/2) · u^(−D/2) · v_trop^dod · v^(−dod) with D, dod, cached_factor read from the table")
    w = need_world(ctx, "C11-a")
    if w is None:
        return

    def a():
        ut, vt, u, v, cached = (Expr.symbol(n) for n in ("ut", "vt", "u", "v", "cached"))
        want = cached * ut.powf(D / 2) * u.powf(-D / 2) * vt.powf(DOD) * v.powf(-DOD)
        got = scalar_of(w.result.fields["jacobian"], "jacobian")
        compare(ctx, "C11-a", "jacobian == cached·(u_trop/u)^(D/2)·(v_trop/v)^dod (symbolic exponents)", got, want, "sampling::sample", "jacobian", {})
        ok = scalar_of(w.result.fields["u_trop"], "u_trop") == ut and scalar_of(w.result.fields["v_trop"], "v_trop") == vt
        ctx.ob("C11-a", "returned u_trop / v_trop are the sector routine's", ok, "sampling::sample", "trop-wiring")
        q = w.calls.get("quantile")
        if q is not None:
            ctx.ob("C11-a", "the Gamma shape is the table's dod", scalar_of(q[0], "shape") == Expr.symbol("dod"), "sampling::sample", "gamma-shape-dod",
                   detail="shape = %s" % scalar_of(q[0], "shape").key())
    guarded_clause(ctx, "C11-a", "sampling::sample", "jacobian", a)


def run_c20b(ctx):
    pass
