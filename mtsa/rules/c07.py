"""C07 — sector formula and tropical normalisation: per-iteration transfer function + rescaling identity (kernel engine)."""
from .kernels import run_c07


def run(ctx):
    run_c07(ctx)
    # the table quantities the sector formula consumes — ω(g) of every subset, dod and L of the whole graph — are the statement's
    # (restated from C03-a/b/f: an error in them changes the exponents 1/ω(g_j) and the rescaling root)
    from .kernels import graph_dod_clause, gdod_clause, run_c03_loops, builder_roles, restated_clause
    from ..roles import RoleLost
    ctx.rule("C07-d", "ω(g) = [g≠∅]·(Σ_{e∈g} w_e − ℓ(g)·D/2 − [spanning(g)]·dod) + [g=∅]·1 with ℓ the Euler sum over components (0 for ∅), "
                      "dod = Σ w − L·D/2, L = ℓ(all edges)")
    try:
        bs, fg, tb, jrec = builder_roles(ctx)
    except RoleLost as e:
        return ctx.note("C07-d: restated clauses skipped — %s; the owning rules report it" % e)
    restated_clause(ctx, "C07-d", tb.path, "generalized-dod", lambda: gdod_clause(ctx, "C07-d", tb))
    restated_clause(ctx, "C07-d", fg.path, "graph-dod", lambda: graph_dod_clause(ctx, "C07-d", topology=True))
    run_c03_loops(ctx, "C07-d", soft=True)
    # which subsets count as mass-momentum spanning decides where ω loses the −ω(G) term and where V_tr is picked up
    from .kernels import run_c03_flags
    try:
        run_c03_flags(ctx, "C07-d")
    except RoleLost as e:
        ctx.note("C07-d: spanning definition skipped — %s" % e)

    # the formulas above are written in the scalar type's own operations; for the f64 instantiation those are decided by C20-a — restated
    # here for exactly the operations this code calls: a `powf` / `sqrt` / `cos` of `impl MomTropFloat for f64` that is not std's breaks
    # this property with every anchored line untouched
    from .restate import restate_f64_primitives
    from .c06 import find_sector
    restate_f64_primitives(ctx, [lambda: find_sector(ctx, ctx.roles)], "the sector routine")

    # "the coordinate" in the statement is the one the reader hands out: the k-th read returns element k of the caller's slice and
    # advances by one (restated from C14-a / C14-b — a reader that skips, repeats or offsets breaks this property from mimic_rng.rs)
    from .restate import run_restated
    run_restated(ctx, [("C14", {"C14-a": "the caller's slice reaches only the reader; its fields are touched only by its own methods",
                                "C14-b": "the k-th read returns cache[k] and advances the counter by exactly one"})])
