"""C07 — sector formula and tropical normalisation: per-iteration transfer function + rescaling identity (kernel engine)."""
from .kernels import run_c07


def run(ctx):
    run_c07(ctx)
