"""C16 — matrix failures are reported (structural, whole).

a. ZeroDet guard tests the value returned as `determinant`.
b. the stability test is NaN-rejecting and on the right operands.
c. the Err of the decomposition never reaches an Ok sample; caller's settings are passed.
d. helper formulas (l21_norm, new_identity, Sub, product order) -- decided by the kernel engine (see c16d in kernels).
"""
from ..vals import Vals, callee_is, bool_edges, norm_path
from ..roles import RoleLost
from .. import pat, cfg
from . import common

PID = "C16"


def is_zero_value(v, root):
    t = v.call_term(root)
    if t is None:
        return False
    if callee_is(t, trait="MomTropFloat", name="zero"):
        return True
    if callee_is(t, trait="MomTropFloat", name=("from_f64", "from_isize")) and len(t["args"]) > 1:
        a = t["args"][1]
        if a["k"] == "const":
            bits = a.get("bits")
            if bits in ("0", str(1 << 63)):
                return True
    return False


def rule_a(ctx, R):
    ctx.rule("C16-a", "every path to Ok(DecompositionResult{determinant: d,..}) takes the non-zero edge of a test "
                      "`X == zero` whose zero edge only returns Err(ZeroDet), and X is the value moved into `determinant`")
    try:
        body = R.decompose()
    except RoleLost as e:
        return ctx.lost("C16-a", str(e))
    fn = body.path
    ctx.fn(fn)
    v = Vals(body)
    oks = pat.result_ctor_sites(body, "Ok")
    if not oks:
        return ctx.lost("C16-a", "no Ok(..) construction in decompose_for_tropical", fn)
    zsites = [bi for bi, si, s in pat.aggregates(body, "matrix::MatrixError", "ZeroDet")]
    if not zsites:
        return ctx.ob("C16-a", "an Err(ZeroDet) return exists", False, fn, "no-ZeroDet-return",
                      detail="decompose_for_tropical never constructs MatrixError::ZeroDet: a singular factor cannot be reported")
    # candidate guards: switches on a comparison of X (or |X|) with a constant c such that X == 0 takes the Err(ZeroDet) edge
    guards = []
    for bi, b in enumerate(body.blocks):
        if b["cleanup"] or b["term"]["k"] != "switch":
            continue
        c = v.classify_bool(b["term"]["discr"])
        cm = common.cmp_of(v, c)
        if cm is None:
            continue
        op, la, ra, wh = cm
        cl, cr = common.const_value_of(v, la), common.const_value_of(v, ra)
        if cr is not None and cl is None:
            x, _abs = common.strip_abs(v, v.root(la))
            at_zero = common.eval_cmp(op, 0.0, cr)
        elif cl is not None and cr is None:
            x, _abs = common.strip_abs(v, v.root(ra))
            at_zero = common.eval_cmp(op, cl, 0.0)
        else:
            continue
        te, fe = bool_edges(body, bi)
        zero_edge = te if at_zero else fe
        nonzero_edge = fe if at_zero else te
        reach = body.reachable_from(zero_edge)
        if not any(z in reach for z in zsites):
            continue
        guards.append({"bb": bi, "x": x, "zero": zero_edge, "nonzero": nonzero_edge, "where": wh or pat.where(b["term"])})
    if not guards:
        return ctx.ob("C16-a", "a test that sends X == 0 to Err(ZeroDet) exists", False, fn, "no-zero-test",
                      detail="no comparison of a value with a constant sends the zero case to Err(ZeroDet)")
    for bi, si, s in oks:
        op = s["rv"]["ops"][0]
        droot = v.deep_root({"k": "move", "place": {"l": op["place"]["l"], "p": op["place"]["p"] + [{"k": "field", "name": "determinant"}]}}) \
            if op["k"] in ("copy", "move") else None
        if droot is None:
            ctx.lost("C16-a", "Ok payload is not a place", fn)
            continue
        good = None
        why = []
        for g in guards:
            if g["x"] != droot:
                why.append("the singularity guard at %s tests %s, but the value returned as `determinant` is %s: a determinant that is zero "
                           "while the tested value is not (e.g. underflow of a square) is returned as Ok" % (g["where"], v.describe(g["x"]), v.describe(droot)))
                continue
            # zero edge never reaches Ok
            if bi in body.reachable_from(g["zero"]):
                why.append("zero edge of guard at %s can still reach Ok" % g["where"])
                continue
            # zero edge always passes through a ZeroDet construction before returning
            esc = body.reachable_from(g["zero"], avoid=frozenset(zsites))
            if any(r in esc for r in body.return_blocks()):
                why.append("zero edge of guard at %s can return without Err(ZeroDet)" % g["where"])
                continue
            # every path to Ok crosses the non-zero edge
            r = body.reachable_from(0, avoid_edges=frozenset([(g["bb"], g["nonzero"])]))
            if bi in r:
                why.append("a path reaches Ok without passing the test at %s" % g["where"])
                continue
            good = g
            break
        ctx.ob("C16-a", "Ok site at bb%d: ZeroDet guard tests the returned determinant (%r)" % (bi, droot),
               good is not None, fn, "zero-guard-on-returned-determinant", where=pat.where(s),
               detail="; ".join(why) or None)


ORDERED = ("lt", "le", "gt", "ge")


def rule_b(ctx, R):
    ctx.rule("C16-b", "with matrix_stability_test = Some(tol) every path to Ok takes the TRUE edge of an ordered comparison "
                      "establishing error <= tol (NaN-polarity), error = l21_norm(inverse*self - identity), inverse = the returned field")
    try:
        body = R.decompose()
    except RoleLost as e:
        return ctx.lost("C16-b", str(e))
    fn = body.path
    v = Vals(body)
    oks = pat.result_ctor_sites(body, "Ok")
    # settings parameter: the arg of reference type to TropicalSamplingSettings
    sarg = common.settings_arg(ctx.facts, body)
    if sarg is None:
        return ctx.lost("C16-b", "settings parameter of decompose_for_tropical", fn)
    opt = [(bi, root, pl, t) for bi, root, pl, t in pat.discr_switches(body, v)
           if root.kind == "arg" and root.base[1] == sarg and root.path == ("matrix_stability_test",)]
    if len(opt) != 1:
        return ctx.lost("C16-b", "the test on settings.matrix_stability_test (found %d discriminant switches)" % len(opt), fn)
    obi, _oroot, _pl, ot = opt[0]
    m = {val: tgt for val, tgt in ot["targets"]}
    some_t = m.get("1", ot["otherwise"] if "0" in m else None)
    if some_t is None:
        return ctx.lost("C16-b", "Some edge of the matrix_stability_test switch", fn)
    payload = None
    region = body.reachable_from(some_t)
    # comparison guards in the Some-region
    found = []
    for bi in sorted(region):
        b = body.blocks[bi]
        if b["term"]["k"] != "switch":
            continue
        c = v.classify_bool(b["term"]["discr"])
        if not c or c[0] != "call":
            continue
        t = c[1]
        if not callee_is(t, trait="PartialOrd", name=ORDERED):
            continue
        found.append((bi, t))
    cands = []
    for bi, t in found:
        name = t["callee"]["name"]
        r0, r1 = v.root(t["args"][0]), v.root(t["args"][1])

        def is_tol(r):
            ct = v.call_term(r)
            if ct is None or not callee_is(ct, trait="MomTropFloat", name="from_f64"):
                return False
            pr = v.root(ct["args"][1])
            return pr.kind == "arg" and pr.base[1] == sarg and pr.path[:1] == ("matrix_stability_test",)

        def is_err(r):
            ct = v.call_term(r) if r.kind == "call" else None
            if ct is None and r.kind == "local":
                # `error` may be a named local defined by the call
                d = v.single_def(r.base[1])
                if d and d[0] == "call":
                    ct = d[2]
            return ct

        if is_tol(r1):
            err_root, side = r0, "err_left"
        elif is_tol(r0):
            err_root, side = r1, "err_right"
        else:
            continue
        cands.append((bi, t, name, side, err_root))
    if not cands:
        return ctx.ob("C16-b", "an ordered comparison error-vs-from_f64(tolerance) guards Ok in the Some(tol) region", False, fn,
                      "no-stability-comparison",
                      detail="no PartialOrd comparison against from_f64(<Some payload of matrix_stability_test>) found in the Some region")
    m0 = {val: tgt for val, tgt in ot["targets"]}
    none_t = m0.get("0", ot["otherwise"] if "1" in m0 else None)
    good_edges = set()
    notes = []
    for bi, t, name, side, err_root in cands:
        te, fe = bool_edges(body, bi)
        le_like = (side == "err_left" and name in ("le", "lt")) or (side == "err_right" and name in ("ge", "gt"))
        if not le_like:
            notes.append("`%s` at %s is `error > tol` shaped: the Ok side is its FALSE edge, which a NaN error takes too"
                         % (name if side == "err_left" else name + " (operands swapped)", pat.where(t)))
            continue
        ok_chain, why = check_error_chain(ctx, body, v, err_root, oks[0][2])
        if not ok_chain:
            notes.append(why)
            continue
        good_edges.add((bi, te))
    avoid = set(good_edges)
    if none_t is not None:
        avoid.add((obi, none_t))
    for okbi, si, s in oks:
        r = body.reachable_from(0, avoid_edges=frozenset(avoid))
        passed = okbi not in r
        ctx.ob("C16-b", "Ok site bb%d: every path to it takes the None edge of the option or the TRUE edge of error<=tol" % okbi, passed, fn,
               "stability-guard-nan-rejecting", where=pat.where(s),
               detail="; ".join(notes) or "with matrix_stability_test = Some(tol) a path reaches this Ok(..) without passing the stability comparison "
                                           "(%d NaN-rejecting comparison(s) found)" % len(good_edges))


def _call_of(v, root):
    ct = v.call_term(root)
    if ct is not None:
        return ct
    if root.kind == "local" and not root.path:
        d = v.single_def(root.base[1])
        if d and d[0] == "call":
            return d[2]
    return None


def check_error_chain(ctx, body, v, err_root, ok_stmt):
    """error = l21_norm(&(mul(&INV, self) - identity)) with INV the local moved into Ok.inverse."""
    R = ctx.roles
    t = _call_of(v, err_root)
    if t is None:
        return False, "error operand is not a call result (%r)" % (err_root,)
    cb = R.body_of_callee(t.get("callee"))
    if cb is None or not common.is_l21_norm(ctx, cb):
        return False, "error is not the L_2,1 norm helper's result (callee %s)" % (t.get("callee", {}).get("path"))
    zr = v.root(t["args"][0])
    zt = _call_of(v, zr)
    if zt is None or not callee_is(zt, trait="Sub", name="sub"):
        return False, "norm argument is not a matrix difference"
    a, b = v.root(zt["args"][0]), v.root(zt["args"][1])
    ta, tb = _call_of(v, a), _call_of(v, b)

    def is_ident(tt):
        if tt is None:
            return False
        cb2 = R.body_of_callee(tt.get("callee"))
        return cb2 is not None and common.is_identity_ctor(ctx, cb2)

    def is_mul(tt):
        return tt is not None and callee_is(tt, trait="Mul", name="mul")

    if is_mul(ta) and is_ident(tb):
        mt = ta
    elif is_mul(tb) and is_ident(ta):
        mt = tb
    else:
        return False, "difference is not (inverse*matrix) - identity"
    inv_root = v.root(mt["args"][0])
    self_root = v.root(mt["args"][1])
    op = ok_stmt["rv"]["ops"][0]
    ret_inv = v.deep_root({"k": "move", "place": {"l": op["place"]["l"], "p": op["place"]["p"] + [{"k": "field", "name": "inverse"}]}})
    if inv_root != ret_inv:
        return False, "left factor of the tested product (%s) is not the value returned as `inverse` (%s)" % (v.describe(inv_root), v.describe(ret_inv))
    if not (self_root.kind == "arg" and self_root.base[1] == 1 and not self_root.path):
        return False, "right factor of the tested product is not the input matrix (self)"
    return True, ""


def rule_c(ctx, R):
    ctx.rule("C16-c", "in sample the Err of decompose_for_tropical never reaches the Ok aggregate; the settings argument is "
                      "the caller's parameter; both public entries forward settings and return the callee's Result unchanged")
    try:
        s = R.sample()
        dec = R.decompose()
    except RoleLost as e:
        return ctx.lost("C16-c", str(e))
    ctx.fn(s.path)
    v = Vals(s)
    sarg = common.settings_arg(ctx.facts, s)
    sites = [(bi, t) for bi, t, cb in R.local_callees(s) if cb is dec]
    if not sites:
        return ctx.lost("C16-c", "call of decompose_for_tropical in sample", s.path)
    for bi, t in sites:
        r = v.root(t["args"][1])
        ctx.ob("C16-c", "settings passed to the decomposition are sample's own settings parameter",
               r.kind == "arg" and r.base[1] == sarg and not r.path, s.path, "decompose-settings-arg", where=pat.where(t),
               detail="argument is %r" % (r,))
        ok, why = common.err_never_reaches_ok(s, v, bi)
        ctx.ob("C16-c", "Err of decompose_for_tropical never reaches Ok(sample)", ok, s.path, "decompose-err-discipline",
               where=pat.where(t), detail=why)
    common.entries_forward(ctx, R, "C16-c")


def run(ctx):
    R = ctx.roles
    rule_a(ctx, R)
    rule_b(ctx, R)
    rule_c(ctx, R)
    from .kernels import run_c16d, run_c16e
    run_c16d(ctx)
    run_c16e(ctx)
