"""C12 — Gamma quantile: failures are errors, not values (structural clauses).

a. in inverse_gamma_lr every path to Ok(v) has v = from_f64(r) with r proven not-NaN, finite and > 0 by guards;
b. in sample the shape argument is the table's dod and the probability argument is one hypercube read;
   the result is the lambda used by the momentum map and reported in the metadata;
c. the Err of the quantile never reaches an Ok sample.
"""
from ..vals import Vals, callee_is, norm_path, Root, bool_edges
from ..roles import RoleLost
from .. import pat
from ..f64facts import classes_at, POS
from . import common

PID = "C12"


def unwrap_result_chain(body, v, root):
    """Follow `(Try::branch(map_err(X)) as Continue).0` / match-Ok payloads back to the producing call."""
    r = root
    for _ in range(8):
        # strip a trailing ('as:Continue','0') or ('as:Ok','0')
        if len(r.path) >= 2 and r.path[-2] in ("as:Continue", "as:Ok") and r.path[-1] == "0":
            r = Root(r.base, r.path[:-2])
        t = v.call_term(r)
        if t is None and r.kind == "local" and not r.path:
            d = v.single_def(r.base[1])
            if d and d[0] == "call":
                t = d[2]
        if t is None:
            return r, None
        if callee_is(t, trait="Try", name="branch") or (callee_is(t, name=("map_err",)) and "Result" in t["callee"]["path"]):
            r = v.root(t["args"][0])
            continue
        return r, t
    return r, None


def rule_a(ctx, R):
    ctx.rule("C12-a", "inverse_gamma_lr: on every path to Ok(v), v = from_f64(r) and guards establish r not-NaN, finite and > 0")
    try:
        body = R.quantile()
    except RoleLost as e:
        return ctx.lost("C12-a", str(e))
    fn = body.path
    ctx.fn(fn)
    v = Vals(body)
    oks = pat.result_ctor_sites(body, "Ok")
    if not oks:
        return ctx.lost("C12-a", "no Ok(..) in inverse_gamma_lr", fn)
    for bi, si, s in oks:
        pr = v.root(s["rv"]["ops"][0])
        t = v.call_term(pr)
        if t is None or not callee_is(t, trait="MomTropFloat", name="from_f64"):
            ctx.ob("C12-a", "Ok payload is from_f64(r)", False, fn, "ok-payload-from_f64", where=pat.where(s),
                   detail="Ok payload root is %r, not a from_f64 conversion of the f64 result" % (pr,))
            continue
        r = v.root(t["args"][1])
        IN, guards, _out = classes_at(body, r, v)
        cls = IN.get(bi, frozenset())
        ok = cls <= frozenset([POS]) and bool(cls)
        ctx.ob("C12-a", "Ok site bb%d: returned value %r restricted to class {pos} by %d guard(s); classes reaching Ok = %s"
               % (bi, r, len(guards), sorted(cls)), ok, fn, "ok-value-finite-positive", where=pat.where(s),
               detail="value classes that can reach Ok: %s (needs only 'pos'): a %s result would be returned as Ok instead of Err"
                      % (sorted(cls), "/".join(sorted(cls - frozenset([POS])))))


def rule_bc(ctx, R):
    ctx.rule("C12-b", "sample: quantile(shape = from_f64(table.tropical_graph.dod), p = one read of the hypercube); its Ok payload is the "
                      "lambda passed to the momentum map and stored in Metadata.lambda")
    ctx.rule("C12-c", "sample: the Err of the quantile never reaches the Ok aggregate")
    try:
        s = R.sample()
        q = R.quantile()
        read = R.read_fn()
    except RoleLost as e:
        return ctx.lost("C12-b", str(e))
    fn = s.path
    ctx.fn(fn)
    v = Vals(s)
    sites = [(bi, t) for bi, t, cb in R.local_callees(s) if cb is q]
    if len(sites) != 1:
        from ..roles import want, calls_body
        want(calls_body(R, q))
        return ctx.lost("C12-b", "single call of inverse_gamma_lr in sample (found %d)" % len(sites), fn)
    bi, t = sites[0]
    table_arg = common.arg_of_type(ctx.facts, s, lambda tt, ts: common.ty_is_ref_to_adt(ctx.facts, ts, "TropicalSubgraphTable"))
    if len(table_arg) != 1:
        return ctx.lost("C12-b", "table parameter of sample", fn)
    # shape
    a0 = v.root(t["args"][0])
    ta = v.call_term(a0)
    shape_ok = False
    detail = "shape argument root %r" % (a0,)
    if ta is not None and callee_is(ta, trait="MomTropFloat", name="from_f64"):
        sr = v.root(ta["args"][1])
        detail = "shape = from_f64(%r)" % (sr,)
        shape_ok = sr.kind == "arg" and sr.base[1] == table_arg[0] and sr.path == ("tropical_graph", "dod")
    ctx.ob("C12-b", "shape argument is from_f64(table.tropical_graph.dod)", shape_ok, fn, "lambda-shape-is-dod", where=pat.where(t), detail=detail)
    # probability
    a1 = v.root(t["args"][1])
    t1 = v.call_term(a1)
    p_ok = t1 is not None and R.body_of_callee(t1.get("callee")) is read
    ctx.ob("C12-b", "probability argument is the value of one hypercube read", p_ok, fn, "lambda-p-is-one-read", where=pat.where(t),
           detail="probability argument root %r" % (a1,))
    # consumers: momentum map and Metadata.lambda
    lam_uses = 0
    for bj, t2, cb in R.local_callees(s):
        if cb is q:
            continue
        for a in t2["args"]:
            rr, tt = unwrap_result_chain(s, v, v.root(a))
            if tt is t:
                lam_uses += 1
                ctx.note("lambda flows into %s" % cb.path)
    ctx.ob("C12-b", "the quantile's Ok payload is passed to a sampling kernel (momentum map)", lam_uses >= 1, fn, "lambda-used-by-momenta",
           where=pat.where(t))
    md = list(common.built_structs(ctx.facts, R, s, "Metadata"))
    for bj, sj, st in md:
        rv = st["rv"]
        if "lambda" in rv["fields"]:
            op = rv["ops"][rv["fields"].index("lambda")]
            rr, tt = unwrap_result_chain(s, v, v.deep_root(op))
            ctx.ob("C12-b", "Metadata.lambda is the quantile's Ok payload", tt is t, fn, "metadata-lambda", where=pat.where(st),
                   detail="Metadata.lambda root %r" % (rr,))
    if not md:
        from ..roles import want, builds_adt
        want(builds_adt("Metadata", "TropicalSampleResult"))
        ctx.lost("C12-b", "Metadata aggregate in sample", fn)
    ok, why = common.err_never_reaches_ok(s, v, bi)
    ctx.ob("C12-c", "Err of inverse_gamma_lr never reaches Ok(sample)", ok, fn, "quantile-err-discipline", where=pat.where(t), detail=why)


def f64_routines(ctx, R, q):
    """Role quantile_f64: the non-trait local callee of the wrapper that computes the value — it returns f64 (a predicate or logging
    helper the wrapper also calls does not)."""
    cands = [cb for bi, t, cb in R.local_callees(q) if not t["callee"].get("trait")]
    vals = [cb for cb in cands if cb.local_ty(0) == "f64"]
    uniq = []
    for cb in (vals or cands):
        if all(cb is not x for x in uniq):
            uniq.append(cb)
    return uniq


def wrapper_forwards(ctx, R, rule):
    """The quantile wrapper hands its shape and probability to the f64 routine as they are: each f64 argument of that call is
    `to_f64()` of one of the wrapper's own parameters (or a parameter itself) — not a clamped / shifted / combined value."""
    try:
        q = R.quantile()
    except RoleLost as e:
        return ctx.lost(rule, str(e))
    impls = f64_routines(ctx, R, q)
    if len(impls) != 1:
        return ctx.lost(rule, "the f64 quantile routine (callee of inverse_gamma_lr)", q.path)
    v = Vals(q)
    sites = [(bi, t) for bi, t, cb in R.local_callees(q) if cb is impls[0]]
    if len(sites) != 1:
        return ctx.lost(rule, "single call of the f64 routine in the wrapper", q.path)
    bi, t = sites[0]
    bad = []
    for i, a in enumerate(t["args"]):
        if a.get("k") == "const":
            continue
        r = v.root(a)
        ct = v.call_term(r)
        if ct is not None and callee_is(ct, trait="MomTropFloat", name="to_f64"):
            r = v.root(ct["args"][0])
        r = common.through_identity_views(v, r)
        if r.kind != "arg":
            bad.append("argument %d is %r" % (i, r))
    ctx.ob(rule, "the wrapper passes to_f64 of its own parameters (shape, probability, tolerance) and its iteration bound to the f64 routine unmodified",
           not bad, q.path, "wrapper-forwards-arguments", where=pat.where(t), detail="; ".join(bad))


def rule_d(ctx, R):
    """Never panics: statrs' incomplete-gamma functions panic for x <= 0; every call must be reached only with x > 0 (or NaN)."""
    from ..f64facts import NEG, ZERO, NINF
    ctx.rule("C12-d", "in the f64 quantile routine every call of statrs' gamma_lr / gamma_ur (which panic for x <= 0) is reached only with a second "
                      "argument that guards / clamps have made > 0")
    try:
        q = R.quantile()
    except RoleLost as e:
        return ctx.lost("C12-d", str(e))
    impls = f64_routines(ctx, R, q)
    if len(impls) != 1:
        return ctx.lost("C12-d", "the f64 quantile routine (callee of inverse_gamma_lr)", q.path)
    body = impls[0]
    ctx.fn(body.path)
    v = Vals(body)
    sites = [(bi, t) for bi, t in body.calls() if (t.get("callee") or {}).get("crate") == "statrs" and t["callee"].get("name") in
             ("gamma_lr", "gamma_ur", "checked_gamma_lr", "checked_gamma_ur", "gamma_li", "gamma_ui")]
    for bi, t in sites:
        xr = v.root(t["args"][1])
        IN, guards, OUT = classes_at(body, xr, v)
        cls = OUT.get(bi, frozenset()) if xr.kind == "local" else IN.get(bi, frozenset())
        # the argument temp is copied from the variable inside the call's own block; OUT of the block is the value at the call
        bad = cls & frozenset([NEG, ZERO, NINF])
        ctx.ob("C12-d", "%s(a, x) at %s: x cannot be <= 0 (classes %s)" % (t["callee"]["name"], pat.where(t), sorted(cls)), not bad and bool(cls), body.path,
               "statrs-domain:" + t["callee"]["name"], where=pat.where(t),
               detail="x may be %s when %s is called: statrs panics for x <= 0, so the quantile (and the sample) would panic instead of returning Ok/Err"
                      % (sorted(bad), t["callee"]["name"]))
    ctx.ob("C12-d", "incomplete-gamma call sites found: %d (>= 2)" % len(sites), len(sites) >= 2, body.path, "statrs-site-floor")


PANIC_ASSERTS = ("BoundsCheck", "DivisionByZero", "RemainderByZero")
UNWRAPS = ("unwrap", "expect", "unwrap_err", "expect_err")


def panic_sites(facts, body):
    """[(kind, where, block)] of constructs in `body` that panic for some value: data-dependent compiler assertions, unwrap-family
    calls, container indexing through std's Index, explicit panics."""
    out = []
    has_f2i = any(s["rv"]["k"] == "cast" and s["rv"].get("kind") == "FloatToInt" for _bi, _si, s in pat.stmts(body))
    for bi, blk in enumerate(body.blocks):
        if blk["cleanup"]:
            continue
        t = blk["term"]
        if t["k"] == "assert":
            kind = t.get("msg_dbg", "").split("(")[0].split(" ")[0]
            if kind in PANIC_ASSERTS or (kind == "Overflow" and has_f2i):
                out.append(("assert:" + kind, pat.where(t), bi))
        elif t["k"] == "call":
            c = t.get("callee") or {}
            path, name, iself = c.get("path", ""), c.get("name"), c.get("impl_self") or ""
            if name in UNWRAPS and (iself.startswith("core::option::Option") or iself.startswith("core::result::Result")):
                out.append(("call:" + name, pat.where(t), bi))
            elif name == "index" and (c.get("trait") or "").endswith("Index") and c.get("crate") in ("core", "alloc", "std"):
                out.append(("call:index", pat.where(t), bi))
            elif path.startswith(("core::panicking::", "std::rt::begin_panic", "std::panicking::")) and c.get("crate") in ("core", "std"):
                out.append(("panic", pat.where(t), bi))
    return out


def rule_e(ctx, R):
    from ..f64facts import ZERO
    ctx.rule("C12-e", "never panics (besides C12-d): inverse_gamma_lr, the f64 routine and their local callees contain no bounds / division "
                      "assertion, no unwrap/expect, no std indexing, and every explicit panic is unreachable for a > 0 finite and p in [0,1) "
                      "(IEEE-class reachability from the parameters)")
    try:
        q = R.quantile()
    except RoleLost as e:
        return ctx.lost("C12-e", str(e))
    seen, work, bodies = set(), [q], []
    while work:
        b = work.pop()
        if id(b) in seen:
            continue
        seen.add(id(b))
        bodies.append(b)
        work.extend(ctx.facts.closures_of(b.path))
        for bi, t, cb in R.local_callees(b):
            fi = ctx.facts.fns.get(cb.path) or {}
            if (fi.get("impl_trait") or "").endswith("MomTropFloat"):
                continue   # the scalar's own conversions (user code for a generic T; f64's are decided under C20-a)
            work.append(cb)
    n = 0
    for b in bodies:
        ctx.fn(b.path)
        sites = panic_sites(ctx.facts, b)
        v = Vals(b)
        for kind, where, bi in sites:
            ok = False
            why = ""
            if kind == "panic":
                # reachable for an in-domain argument?  the first two f64 parameters are (a, p): a in {pos}, p in {zero, pos}
                f64_args = [l["i"] for l in b.locals[1:b.arg_count + 1] if l["ty"] == "f64"]
                doms = [frozenset([POS]), frozenset([ZERO, POS])]
                for ai, dom in zip(f64_args[:2], doms):
                    IN, _g, _o = classes_at(b, Root(("arg", ai), ()), v, init=dom)
                    if bi not in IN:
                        ok, why = True, "unreachable for parameter _%d in %s" % (ai, sorted(dom))
                        break
            n += 1
            ctx.ob("C12-e", "%s at %s cannot fire on the domain%s" % (kind, where, " (%s)" % why if why else ""), ok, b.path, "panic-site:" + kind,
                   where=where, detail="%s in the quantile routine: for some in-domain (a, p) the sample would panic instead of returning Ok / Err" % kind)
    ctx.ob("C12-e", "quantile routines scanned for panicking constructs: %d bodies, %d candidate site(s)" % (len(bodies), n), len(bodies) >= 2, q.path,
           "panic-scan-floor")


A_DOMAIN = [(0.05, True, 100.0, True)]      # shapes of the statement
TOL = 2e-8                                   # |P(a, lambda) - p| of the statement
LIP_AT_ONE = 0.4916                          # sup_x |dP(a,x)/da| at a = 1 (= 0.49153.., attained at x = exp(-EulerGamma))
Q_MIN_TIMES_GAMMA_MIN = 2.0 ** -53 * 0.8856  # q = 1 - p >= 2^-53 for p < 1 in f64; min_{a>0} Gamma(a) = 0.8856..


def local_deps(body, v, start):
    """Locals (whole) the value of local `start` is computed from, through every definition (assignments and call results)."""
    seen, work = set(), [start]
    while work:
        l = work.pop()
        if l in seen:
            continue
        seen.add(l)
        for d in v.defs.get(l, []):
            ops = []
            if d[0] == "stmt":
                rv = d[3]
                for k in ("op", "a", "b"):
                    if k in rv and isinstance(rv[k], dict):
                        ops.append(rv[k])
                ops += rv.get("ops", [])
                if isinstance(rv.get("place"), dict):      # ref / discriminant / len of a place
                    work.append(rv["place"]["l"])
            elif d[0] == "call":
                ops += d[2]["args"]
            for o in ops:
                if o.get("k") in ("copy", "move"):
                    work.append(o["place"]["l"])
    return seen


def linear_forms(ctx, body, v, local, a_arg, p_arg, depth=0):
    """Set of linear forms {symbol: coeff} (symbols P, Q = statrs' regularised lower / upper incomplete gamma at (a, x); p; 1)
    the local can hold, one per definition; None if some definition is outside the fragment."""
    from .. import intervals as iv
    if depth > 10:
        return None
    out = []
    defs = [d for d in v.defs.get(local, []) if not body.blocks[d[1]]["cleanup"]]
    if not defs:
        return None

    def of_operand(o):
        c = iv.const_value(ctx.facts, body, v, o)
        if isinstance(c, float):
            return [{"1": c}]
        if o["k"] in ("copy", "move"):
            pl = v.through_aggregate(o["place"])
            if pl["p"]:
                # `(args).0` of a tuple built once, `*r` of a reference to a scalar local (what an inlined closure reads)
                r_ = v.root(dict(o, place=pl))
                if r_.kind in ("arg", "local") and not r_.path:
                    l = r_.base[1]
                else:
                    return None
            else:
                l = pl["l"]
            if l == p_arg:
                return [{"p": 1.0}]
            if l <= body.arg_count:
                return None
            return linear_forms(ctx, body, v, l, a_arg, p_arg, depth + 1)
        return None

    def comb(fa, fb, sa, sb):
        res = []
        for x in fa:
            for y in fb:
                z = {}
                for k_, c_ in x.items():
                    z[k_] = z.get(k_, 0.0) + sa * c_
                for k_, c_ in y.items():
                    z[k_] = z.get(k_, 0.0) + sb * c_
                res.append({k_: c_ for k_, c_ in z.items() if c_ != 0.0})
        return res
    for d in defs:
        if d[0] == "call":
            t = d[2]
            c = t.get("callee") or {}
            if c.get("crate") == "statrs" and c.get("name") in ("gamma_lr", "gamma_ur"):
                ar = v.root(t["args"][0])
                if not (ar.kind == "arg" and ar.base[1] == a_arg):
                    return None
                out.append({"P" if c["name"] == "gamma_lr" else "Q": 1.0})
                continue
            return None
        rv = d[3]
        if rv["k"] == "use":
            f_ = of_operand(rv["op"])
            if f_ is None:
                return None
            out += f_
        elif rv["k"] == "binop" and rv["op"] in ("Add", "Sub"):
            fa, fb = of_operand(rv["a"]), of_operand(rv["b"])
            if fa is None or fb is None:
                return None
            out += comb(fa, fb, 1.0, 1.0 if rv["op"] == "Add" else -1.0)
        elif rv["k"] == "unop" and rv["op"] == "Neg":
            fa = of_operand(rv["a"])
            if fa is None:
                return None
            out += comb(fa, [{}], -1.0, 0.0)
        else:
            return None
    return out


def is_error_form(f_):
    """±(P − p)  or  ±(Q − (1 − p)):  the distance between the achieved and the requested probability."""
    for sgn in (1.0, -1.0):
        g = {k_: sgn * c_ for k_, c_ in f_.items()}
        if g == {"P": 1.0, "p": -1.0} or g == {"Q": -1.0, "1": 1.0, "p": -1.0}:
            return True
    return False


def tolerance_bound(ctx, R, impl, wrapper, v, operand):
    """Upper bound of the convergence threshold: product of compile-time constants and of the tolerance parameter, whose value is the
    constant `sample` passes.  Returns (bound | None, description)."""
    from .. import intervals as iv
    c = iv.const_value(ctx.facts, impl, v, operand)
    if isinstance(c, float):
        return c, "constant %.3g" % c
    r = v.root(operand)
    rv = v.rvalue_of(r) if r.kind == "local" else None
    if rv is None or rv["k"] != "binop" or rv["op"] != "Mul":
        return None, "threshold is not a constant or tolerance·constant"
    total, desc = 1.0, []
    for side in (rv["a"], rv["b"]):
        cs = iv.const_value(ctx.facts, impl, v, side)
        if isinstance(cs, float):
            total *= cs
            desc.append("%.3g" % cs)
            continue
        sr = v.root(side)
        if not (sr.kind == "arg" and not sr.path):
            return None, "threshold factor %r is neither a constant nor a parameter" % (sr,)
        k = sr.base[1]
        # impl parameter k  <-  wrapper's call argument  <-  to_f64(wrapper parameter j)  <-  sample's call argument from_f64(const)
        vw = Vals(wrapper)
        ws = [(bi, t) for bi, t, cb in R.local_callees(wrapper) if cb is impl]
        if len(ws) != 1:
            return None, "call of the f64 routine in the wrapper"
        wr = vw.root(ws[0][1]["args"][k - 1])
        wt = vw.call_term(wr)
        j = None
        if wt is not None and callee_is(wt, trait="MomTropFloat", name="to_f64"):
            jr = vw.root(wt["args"][0])
            j = jr.base[1] if jr.kind == "arg" else None
        if j is None:
            return None, "tolerance argument of the f64 routine is not to_f64(wrapper parameter)"
        smp = R.sample()
        vs = Vals(smp)
        ss = [(bi, t) for bi, t, cb in R.local_callees(smp) if cb is wrapper]
        if len(ss) != 1:
            return None, "call of the quantile in sample"
        ar = vs.root(ss[0][1]["args"][j - 1])
        at = vs.call_term(ar)
        val = None
        if at is not None and callee_is(at, trait="MomTropFloat", name="from_f64"):
            val = iv.const_value(ctx.facts, smp, vs, at["args"][1])
        if not isinstance(val, float):
            return None, "sample does not pass a compile-time tolerance"
        total *= val
        desc.append("tolerance %.3g (as passed by sample)" % val)
    return total, " · ".join(desc)


def rule_f(ctx, R):
    """Accuracy certificate: which values can the f64 routine return, and what vouches for each."""
    from .. import intervals as iv
    from .. import cfg
    ctx.rule("C12-f", "every value the f64 routine returns for a shape in [0.05, 100] is (1) the Newton iterate x certified in the same iteration by "
                      "|P(a,x) − p| (or |Q(a,x) − q|) < ε, (2) that iterate handed back without the certificate (iterations exhausted; accuracy not decided), "
                      "or (3) a closed form reachable only for |a − 1| ≤ w with 0.4916·w ≤ 2e-8 (exact at a = 1) or only when (1−p)·Γ(a) ≤ c < 2^-53·min Γ "
                      "(impossible for p < 1)")
    try:
        q = R.quantile()
    except RoleLost as e:
        return ctx.lost("C12-f", str(e))
    impls = f64_routines(ctx, R, q)
    if len(impls) != 1:
        return ctx.lost("C12-f", "the f64 quantile routine (callee of inverse_gamma_lr)", q.path)
    body = impls[0]
    fn = body.path
    ctx.fn(fn)
    v = Vals(body)
    f64_args = [l["i"] for l in body.locals[1:body.arg_count + 1] if l["ty"] == "f64"]
    if len(f64_args) < 2:
        return ctx.lost("C12-f", "the (a, p) parameters of the f64 routine", fn)
    a_arg, p_arg = f64_args[0], f64_args[1]
    asucc = cfg.acyclic_succs(body)

    def areach(start):
        seen, st_ = set(), [start]
        while st_:
            x = st_.pop()
            if x in seen:
                continue
            seen.add(x)
            st_.extend(y for y in asucc[x] if not body.blocks[y]["cleanup"])
        return seen
    IN = iv.reach(ctx.facts, body, Root(("arg", a_arg), ()), A_DOMAIN, v)
    tcd = cfg.transitive_control_deps(body, acyclic=True)
    statrs_sites = [(bi, t) for bi, t in body.calls() if (t.get("callee") or {}).get("crate") == "statrs"
                    and t["callee"].get("name") in ("gamma_lr", "gamma_ur", "checked_gamma_lr", "checked_gamma_ur")]
    rets = [(bi, st) for bi, si, st in pat.stmts(body) if st["place"]["l"] == 0 and not st["place"]["p"]]

    def convergence_guards(bi):
        """[(switch block, statrs sites feeding the tested error)] for `|err| < ε` true edges controlling block bi."""
        out = []
        for (sb, tgt) in tcd[bi]:
            t = body.blocks[sb]["term"]
            if t["k"] != "switch":
                continue
            c = v.classify_bool(t["discr"])
            if not c or c[0] != "binop" or c[1]["op"] not in ("Lt", "Le"):
                continue
            te, fe = bool_edges(body, sb)
            if tgt != te:
                continue
            lt = v.call_term(v.root(c[1]["a"]))
            if lt is None or (lt.get("callee") or {}).get("name") != "abs" or not lt["args"]:
                continue
            er = v.root(lt["args"][0])
            deps = local_deps(body, v, er.base[1]) if er.kind == "local" else set()
            feeding = [(cbi, ct) for cbi, ct in statrs_sites if ct["dest"]["l"] in deps]
            if not feeding:
                continue
            forms = linear_forms(ctx, body, v, er.base[1], a_arg, p_arg)
            exact = forms is not None and bool(forms) and all(is_error_form(f_) for f_ in forms)
            bound, bdesc = tolerance_bound(ctx, R, body, q, v, c[1]["b"])
            if exact and bound is not None and bound <= TOL:
                out.append((sb, feeding, "|P(a,x) − p| < %s = %.3g" % (bdesc, bound)))
        return out
    kinds = {"certified": 0, "uncertified-iterate": 0, "closed-form": 0, "unreachable": 0}
    iter_local = None
    pending = []
    for bi, st in rets:
        rv = st["rv"]
        vr = v.root(rv["op"]) if rv["k"] == "use" else None
        wh = pat.where(st)
        guards = convergence_guards(bi)
        if not guards:
            pending.append((bi, st, vr, wh))
            continue
        ok, why = False, ""
        for sb, feeding, gdesc in guards:
            same_x = vr is not None and all(v.root(ct["args"][1]) == vr for _c, ct in feeding)
            a_ok = all((lambda r_: r_.kind == "arg" and r_.base[1] == a_arg)(v.root(ct["args"][0])) for _c, ct in feeding)
            if not same_x or not a_ok:
                why = "the certified point (%s) differs from the returned value (%r)" % ([repr(v.root(ct["args"][1])) for _c, ct in feeding], vr)
                continue
            dirty = []
            if vr.kind == "local":
                reach_ret = set(b for b in range(len(body.blocks)) if bi in areach(b))
                for cbi, _ct in feeding:
                    region = areach(cbi) & reach_ret
                    for b2, si2, st2 in pat.stmts(body):
                        if b2 in region and b2 != cbi and st2["place"]["l"] == vr.base[1] and not st2["place"]["p"]:
                            dirty.append(pat.where(st2))
            if dirty:
                why = "the iterate is modified between its evaluation and the return (%s)" % dirty
                continue
            ok, why = True, "guard at %s: %s" % (pat.where(body.blocks[sb]["term"]), gdesc)
            iter_local = vr
        kinds["certified"] += 1 if ok else 0
        ctx.ob("C12-f", "return at %s under the convergence test hands back the tested iterate (%s)" % (wh, why), ok, fn, "return:certified", where=wh,
               detail="a value is returned under the convergence test |P(a,x) − p| < ε, but it is not the iterate that passed the test: %s" % why)
    for bi, st, vr, wh in pending:
        if vr is not None and iter_local is not None and vr == iter_local:
            # allowed only as the exhaustion exit: every loop-internal condition it depends on must be the iteration bound
            nl = set()
            for _h, bl in cfg.loops(body):
                nl |= bl
            bound_params = set(l["i"] for l in body.locals[1:body.arg_count + 1] if l["ty"] in ("usize", "u32", "u64", "isize", "i32", "i64"))
            early = []
            for (sb, tgt) in tcd[bi]:
                t = body.blocks[sb]["term"]
                if sb not in nl or t["k"] != "switch" or t["discr"]["k"] not in ("copy", "move"):
                    continue
                if not (local_deps(body, v, t["discr"]["place"]["l"]) & bound_params):
                    early.append(pat.where(t))
            kinds["uncertified-iterate"] += 1
            ctx.ob("C12-f", "return at %s hands back the iterate without the certificate only when the iterations are exhausted (accuracy of this exit "
                            "is not decided)" % wh, not early, fn, "return:iterate", where=wh,
                   detail="the iterate is returned from inside the iteration under a condition (%s) that is neither the convergence test nor the "
                          "iteration bound: an uncertified value can be returned early" % early)
            continue
        reach_a = IN.get(bi)
        if not reach_a:
            kinds["unreachable"] += 1
            ctx.ob("C12-f", "closed-form return at %s is unreachable for shapes in [0.05, 100]" % wh, True, fn, "return:closed-form", where=wh)
            continue
        lo, hi = reach_a[0][0], reach_a[-1][2]
        w = max(abs(lo - 1.0), abs(hi - 1.0))
        if LIP_AT_ONE * w <= TOL:
            kinds["closed-form"] += 1
            ctx.ob("C12-f", "closed-form return at %s is taken only for |a − 1| ≤ %.3g (error ≤ 0.4916·w = %.2g ≤ 2e-8)" % (wh, w, LIP_AT_ONE * w), True, fn,
                   "return:closed-form", where=wh)
            continue
        ok5, c5 = False, None
        for (sb, tgt) in tcd[bi]:
            t = body.blocks[sb]["term"]
            c = v.classify_bool(t["discr"]) if t["k"] == "switch" else None
            if not c or c[0] != "binop" or c[1]["op"] not in ("Lt", "Le"):
                continue
            te, fe = bool_edges(body, sb)
            cst = iv.const_value(ctx.facts, body, v, c[1]["b"])
            br = v.root(c[1]["a"])
            if tgt != te or not isinstance(cst, float) or br.kind != "local":
                continue
            rvb = v.rvalue_of(br)
            if rvb is None or rvb["k"] != "binop" or rvb["op"] != "Mul":
                continue
            is_q = is_g = False
            for sd in (v.root(rvb["a"]), v.root(rvb["b"])):
                rq = v.rvalue_of(sd) if sd.kind == "local" else None
                if rq is not None and rq["k"] == "binop" and rq["op"] == "Sub" and iv.const_value(ctx.facts, body, v, rq["a"]) == 1.0:
                    pr = v.root(rq["b"])
                    is_q = is_q or (pr.kind == "arg" and pr.base[1] == p_arg)
                tg = v.call_term(sd)
                if tg is not None and (tg.get("callee") or {}).get("crate") == "statrs" and tg["callee"].get("name") == "gamma":
                    ar = v.root(tg["args"][0])
                    is_g = is_g or (ar.kind == "arg" and ar.base[1] == a_arg)
            if is_q and is_g and cst < Q_MIN_TIMES_GAMMA_MIN:
                ok5, c5 = True, cst
        if ok5:
            kinds["unreachable"] += 1
            ctx.ob("C12-f", "closed-form return at %s needs (1−p)·Γ(a) ≤ %.3g < 2^-53·min Γ: impossible for p < 1 in f64" % (wh, c5), True, fn,
                   "return:closed-form", where=wh)
            continue
        ctx.ob("C12-f", "closed-form return at %s is confined to a neighbourhood of a = 1" % wh, False, fn, "return:closed-form", where=wh,
               detail="an uncertified closed-form value is returned for shapes %s (|a − 1| up to %.3g): it never passes the convergence test, and for a ≠ 1 "
                      "its error against P(a,·) is not bounded by 2e-8 (for the exponential form the error is 0.4916·|a − 1|)"
                      % (["%s%.9g, %.9g%s" % ("[" if x[1] else "(", x[0], x[2], "]" if x[3] else ")") for x in reach_a], w))
    ctx.ob("C12-f", "returns classified: %s" % kinds, kinds["certified"] >= 1 and len(rets) >= 3, fn, "return-census")


def run(ctx):
    rule_a(ctx, ctx.roles)
    rule_bc(ctx, ctx.roles)
    rule_d(ctx, ctx.roles)
    rule_e(ctx, ctx.roles)
    rule_f(ctx, ctx.roles)
    from . import common
    ctx.rule("C12-g", "the designated hypercube coordinate is the caller's: the x-space entry hands its point to the sampling routine unmodified")
    common.entry_forwards_inputs(ctx, ctx.roles, "C12-g")
    wrapper_forwards(ctx, ctx.roles, "C12-g")
    # "the coordinate" in the statement is the one the reader hands out: the k-th read returns element k of the caller's slice and
    # advances by one (restated from C14-a / C14-b — a reader that skips, repeats or offsets breaks this property from mimic_rng.rs)
    from .restate import run_restated
    run_restated(ctx, [("C14", {"C14-a": "the caller's slice reaches only the reader; its fields are touched only by its own methods",
                                "C14-b": "the k-th read returns cache[k] and advances the counter by exactly one"})])
    if ctx.cfg == "default":
        from ..fixtures import detectors_alive
        ctx.rule("C12-z", "positive example: the panic scan finds the planted bounds check, unwrap and explicit panic in fixtures/")
        detectors_alive(ctx, "C12-z", {"panic"})

    # λ (and every other quantity drawn from a coordinate) is a function of that coordinate alone: no per-thread / per-process state may
    # enter (a warm start of the quantile iteration from the previous call's root makes λ depend on the previous point).  Restated from
    # C17-c / C17-d.
    from .restate import run_restated
    run_restated(ctx, [("C17", {"C17-c": "no static mut / thread_local / non-Freeze static in the crate",
                                "C17-d": "no ambient-state callee reachable from the sampling entries"})])
