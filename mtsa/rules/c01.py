"""C01 — unbiased estimator.  The integral identity itself is a theorem about the composition of all stages over the whole hypercube
and is NOT decided.  Decided: the structural clauses at the mechanisms the property's anchors name — every stage of the map
x -> (loop momenta, weight) is the formula of the tropical-sampling algorithm and the weight is the reciprocal density with the
statement's normalisation.  Each clause is a necessary condition: a deviation in any of them changes the mean of jacobian·g for
some graph (multi-loop, massive, unequal weights, D != 3) that the suite never builds.

Deliberately NOT restated: the Box-Muller formulas / emission order (C13) and the scan's tie-breaking (C06-b) — measure-preserving
variants of those keep the estimator unbiased, so an alarm here would be wrong."""
from .restate import run_restated

PLAN = [
    ("C04", {"C04-a": "I_tr = J(full graph) by the recursion of the algorithm",
             "C04-b": "normalisation I_tr·Γ(dod)/ΠΓ(w)·π^(DL/2) (anchor: cached_factor)",
             "C04-c": "dod and L entering the normalisation are the graph's"}),
    ("C11", {"C11-a": "weight = normalisation·(U_tr/U)^(D/2)·(V_tr/V)^dod on the same U, V (anchor: jacobian)"}),
    ("C07", {"C07-a": "Feynman parameters follow the sector recurrence whose density the weight divides out",
             "C07-b": "U_tr, V_tr in the weight are maintained as the algorithm prescribes",
             "C07-c": "the code returns U_tr = V_tr = 1, which is right only if the rescaling normalises U_tr^(D/2)·V_tr^dod to 1",
             "C07-d": "ω(g), ℓ(g), dod, L in the sector exponents are the statement's"}),
    ("C06", {"C06-d": "edge e is selected with probability J[g∖e]/(J[g]·ω[g∖e])"}),
    ("C08", {"C08-a": "L[a,b] = Σ x s s in all regions (wrong off-diagonal entry is invisible at L=1)",
             "C08-b": "U is the determinant of that matrix",
             "C08-c": "the determinant is that of the Cholesky factor of that matrix"}),
    ("C09", {"C09-a": "u vectors", "C09-b": "V with m² and the cross term (a missing m² is invisible for massless graphs)",
             "C09-e": "the Vector primitives u and V are written in (dot, squared, +, −, scaling) are componentwise over all D components",
             "C09-c": "the matrix inverted in V is L"}),
    ("C10", {"C10-a": "momentum map with the Cholesky factor not transposed",
             "C10-f": "the Vector primitives of the momentum map are componentwise over all D components",
             "C10-c": "covariance (v/2λ)·Q⁻ᵀQ⁻¹ = (v/2λ)·L⁻¹",
             "C10-d": "Q is the Cholesky factor of L and Q⁻¹ its inverse",
             "C10-e": "centre and scale use the statement's u and v"}),
    ("C12", {"C12-b": "λ is the Gamma(dod) quantile of its own coordinate"}),
    ("C14", {"C14-c": "each coordinate's value enters one stage only (independence of the stages' inputs)"}),
]


def run(ctx):
    run_restated(ctx, PLAN)
    # for T = f64 the scalar operations the stage formulas are written in are std's (restated from C20-a, for exactly the operations
    # reachable from the sampling routine and the table builder)
    from .restate import restate_f64_primitives
    from .kernels import builder_roles
    restate_f64_primitives(ctx, [lambda: ctx.roles.sample(), lambda: builder_roles(ctx)[2]], "the sampling routine and the table builder")
    # the inputs the stage formulas see are the caller's (restated from the entry clause of C12-g / C13-g / C14-k: an entry point that
    # "sanitises" the point or the edge data integrates another function)
    from . import common
    ctx.rule("C01.entry", "the x-space entry hands point, edge data, settings and table to the sampling routine unmodified")
    common.entry_forwards_inputs(ctx, ctx.roles, "C01.entry")
    # the signature (and table) these formulas read are the ones the caller handed to build_sampler (restated from C05-b)
    from .restate import restate_sampler_is_callers
    restate_sampler_is_callers(ctx)
