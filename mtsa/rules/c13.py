"""C13 — Gaussian vectors are the Box-Muller transform of their designated coordinates (kernel engine + MIR structure)."""
from .kernels import run_c13


def run(ctx):
    run_c13(ctx)
    # the L in `D·L components, L vectors` is the graph's loop number (restated from C03-a: a loop count taken from a formula that
    # is wrong for some graphs — Euler on a disconnected graph — drops or adds a Gaussian vector while get_dimension stays right)
    from .kernels import graph_dod_clause, restated_clause
    ctx.rule("C13-f", "the loop count L that sizes the Gaussian block is the loop-number routine's value on all edges (sum over components)")
    restated_clause(ctx, "C13-f", "preprocessing::TropicalGraph::from_graph", "graph-loops", lambda: graph_dod_clause(ctx, "C13-f"))
    from .kernels import run_c03_loops
    run_c03_loops(ctx, "C13-f", soft=True)
    from . import common
    ctx.rule("C13-g", "the tail of the x-space point is the caller's: the x-space entry hands its point to the sampling routine unmodified")
    common.entry_forwards_inputs(ctx, ctx.roles, "C13-g")

    # the formulas above are written in the scalar type's own operations; for the f64 instantiation those are decided by C20-a — restated
    # here for exactly the operations this code calls: a `powf` / `sqrt` / `cos` of `impl MomTropFloat for f64` that is not std's breaks
    # this property with every anchored line untouched
    from .restate import restate_f64_primitives
    from .c14 import find_gauss
    restate_f64_primitives(ctx, [lambda: find_gauss(ctx, ctx.roles)[2]], "the Gaussian routine")

    # "the coordinate" in the statement is the one the reader hands out: the k-th read returns element k of the caller's slice and
    # advances by one (restated from C14-a / C14-b — a reader that skips, repeats or offsets breaks this property from mimic_rng.rs)
    from .restate import run_restated
    run_restated(ctx, [("C14", {"C14-a": "the caller's slice reaches only the reader; its fields are touched only by its own methods",
                                "C14-b": "the k-th read returns cache[k] and advances the counter by exactly one"})])
