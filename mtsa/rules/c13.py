"""C13 — Gaussian vectors are the Box-Muller transform of their designated coordinates (kernel engine + MIR structure)."""
from .kernels import run_c13


def run(ctx):
    run_c13(ctx)
