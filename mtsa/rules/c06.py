"""C06 — edge selection is total on [0,1) and scans in index order with `>=` (structural clauses).

a. totality: from the loop-exhaustion edge of the cumulative scan no panic is reachable except behind
   (i) the failing edge of a range check `uniform < one()` or (ii) an Option that every iteration sets and is still None;
b. the scan iterates contains_edges(subgraph) ascending, returns on the TRUE edge of cum_sum >= uniform,
   and returns (loop variable, pop_edge(subgraph, loop variable));
c. single-edge shortcut: no hypercube read on the has_one_edge branch; exactly one read feeds the scan otherwise.
"""
from ..vals import Vals, callee_is, bool_edges, norm_path, Root
from ..roles import RoleLost
from .. import pat, cfg
from . import common
from .. import idroles

PID = "C06"


def feeding_read_block(v, R, read, operand):
    """Block of the hypercube read whose value this operand is — possibly through a unary conversion (`read(..).to_f64()`, a clone):
    still the read's value for the purpose of naming roles and counting read sites; what the conversion does to a property is for the
    rules that own it (C19-a, C06-d)."""
    r = v.root(operand)
    tt = v.call_term(r)
    for _ in range(3):
        if tt is not None and R.body_of_callee(tt.get("callee")) is not read and (tt.get("callee") or {}).get("name") in ("to_f64", "clone", "into", "from") \
                and tt.get("args"):
            r = v.root(tt["args"][0])
            tt = v.call_term(r)
        else:
            break
    if tt is not None and R.body_of_callee(tt.get("callee")) is read and r.kind == "call":
        return r.base[1]
    return None


def find_scan(ctx, R):
    """Role `scan`: the callee of the sector routine that receives a read-site value and returns a tuple."""
    sector = find_sector(ctx, R)
    read = R.read_fn()
    v = Vals(sector)
    cands = []
    for bi, t, cb in R.local_callees(sector):
        if cb is read:
            continue
        for ai, a in enumerate(t["args"]):
            if feeding_read_block(v, R, read, a) is not None:
                cands.append((bi, t, cb, ai))
    if len(cands) != 1:
        from ..roles import calls_body
        raise RoleLost("scan: callee of the sector routine fed by a hypercube read (found %d)" % len(cands), wanted=calls_body(R, read))
    return sector, cands[0]


def _by_provenance(ctx, key):
    """Fallback for the position-based resolvers: the kernel roles by provenance of the result / metadata fields."""
    from .kernels import SampleWorld
    w = object.__new__(SampleWorld)
    w.ctx, w.R, w.f = ctx, ctx.roles, ctx.facts
    try:
        return w.kernel_roles().get(key)
    except RoleLost:
        return None
    except Exception:
        return None


def find_sector(ctx, R):
    """Role `sector`: the callee of sample taking &mut reader that is called before the quantile (position); when the quantile is not
    called from sample itself (wrapped in a helper), the producer of the Feynman parameters handed to the L-matrix kernel (provenance)."""
    try:
        return _find_sector_by_position(ctx, R)
    except RoleLost:
        b = _by_provenance(ctx, "sector")
        if b is None:
            raise
        return b


def _find_sector_by_position(ctx, R):
    s = R.sample()
    rd = R.reader_adt()
    q = R.quantile()
    v = Vals(s)
    cands = []
    for bi, t, cb in R.local_callees(s):
        if cb is rd["ctor"] or cb is q or cb is R.read_fn():
            continue
        for ai, a in enumerate(t["args"]):
            r = v.root(a)
            pty = ctx.facts.ty(cb.local_ty(ai + 1)) or {}
            pointee = (ctx.facts.ty(pty.get("t", "")) or {}) if pty.get("k") == "ref" else {}
            if r.kind == "local" and not r.path and pty.get("k") == "ref" and pty.get("mut") and pointee.get("path") == rd["adt"]:
                cands.append((bi, t, cb))
    # two expected: sector and gauss; sector's result flows into the matrix builder (x parameters) — pick by order w.r.t. quantile call
    qsites = [bi for bi, t, cb in R.local_callees(s) if cb is q]
    if len(qsites) != 1:
        from ..roles import calls_body
        raise RoleLost("quantile call in sample", wanted=calls_body(R, q))
    idom = cfg.dominators(s)
    before = [c for c in cands if cfg.dominates(idom, c[0], qsites[0])]
    if len(before) != 1:
        raise RoleLost("sector routine: callee of sample taking the reader and dominating the quantile call (found %d)" % len(before))
    return before[0][2]


def loop_next_sites(body, v):
    """[(next_call_bb, switch_bb, some_target, none_target)] for `match Iterator::next(&mut it)` loop heads."""
    out = []
    for bi, t in body.calls():
        if not callee_is(t, trait="Iterator", name="next"):
            continue
        dl = t["dest"]["l"]
        for bj, root, pl, st in pat.discr_switches(body, v):
            if pl["l"] == dl and not pl["p"]:
                m = {val: tgt for val, tgt in st["targets"]}
                none_t = m.get("0", st["otherwise"])
                some_t = m.get("1", st["otherwise"])
                out.append((bi, bj, some_t, none_t, t))
    return out


def is_one_value(v, root):
    t = v.call_term(root)
    return t is not None and callee_is(t, trait="MomTropFloat", name="one")


def rule_a(ctx, R, scan, uniform_arg):
    ctx.rule("C06-a", "scan: from the loop-exhaustion edge no panic is reachable except behind the failing edge of a "
                      "`uniform < one()` range check or the None edge of an Option set on every iteration")
    fn = scan.path
    v = Vals(scan)
    heads = loop_next_sites(scan, v)
    if len(heads) != 1:
        return ctx.lost("C06-a", "the single `for` loop of the scan (found %d iterator loops)" % len(heads), fn)
    nbb, sbb, some_t, none_t, nt = heads[0]
    panics = pat.panic_blocks(scan)
    from_exh = scan.reachable_from(none_t)
    reach_p = [p for p in panics if p in from_exh]
    if not reach_p:
        ctx.ob("C06-a", "no panic reachable from the exhaustion edge", True, fn, "exhaustion-no-panic", where=pat.where(nt))
        return
    # justified edges
    just = set()
    desc = []
    for bi in sorted(from_exh):
        b = scan.blocks[bi]
        if b["term"]["k"] != "switch":
            continue
        c = v.classify_bool(b["term"]["discr"])
        if not c:
            continue
        cm = common.cmp_of(v, c)
        if cm is not None and cm[0] in ("lt", "le", "gt", "ge"):
            name, la, ra, wh = cm
            r0, r1 = common.scalar_value_root(v, la), common.scalar_value_root(v, ra)
            te, fe = bool_edges(scan, bi)
            u0 = r0.kind == "arg" and r0.base[1] == uniform_arg and not r0.path
            u1 = r1.kind == "arg" and r1.base[1] == uniform_arg and not r1.path
            one_r, one_l = common.const_value_of(v, ra) == 1.0, common.const_value_of(v, la) == 1.0
            # in-range shapes: uniform < one  |  one > uniform ; failing edge = false edge
            if (u0 and one_r and name == "lt") or (u1 and one_l and name == "gt"):
                just.add((bi, fe))
                desc.append("range check `uniform < one` at %s (failing edge)" % (wh or pat.where(b["term"])))
            # out-of-range shapes: uniform >= one | one <= uniform ; failing edge = true edge
            elif (u0 and one_r and name == "ge") or (u1 and one_l and name == "le"):
                just.add((bi, te))
                desc.append("range check `uniform >= one` at %s (true edge)" % (wh or pat.where(b["term"])))
        elif c[0] == "discr":
            # Option local set to Some on every iteration path
            pl = c[2]
            if pl["p"]:
                continue
            ol = pl["l"]
            for _ in range(4):      # a copy of the Option local (e.g. moved into a matched tuple) stands for the local itself
                d_ = v.def_rvalue(ol)
                if d_ is not None and d_["k"] == "use" and d_["op"]["k"] in ("copy", "move") and not d_["op"]["place"]["p"]:
                    ol = d_["op"]["place"]["l"]
                else:
                    break
            tyi = ctx.facts.ty(scan.local_ty(ol)) or {}
            if tyi.get("k") != "adt" or not tyi["path"].endswith("option::Option"):
                continue
            some_blocks = set()
            some_tmps = {}
            for bj, sj, st in pat.aggregates(scan, pat.OPTION, "Some"):
                if st["place"]["p"]:
                    continue
                if st["place"]["l"] == ol:
                    some_blocks.add(bj)
                else:
                    some_tmps[st["place"]["l"]] = bj
            for bj, sj, st in pat.stmts(scan):
                if st["place"]["l"] == ol and not st["place"]["p"] and st["rv"]["k"] == "use":
                    op = st["rv"]["op"]
                    if op["k"] in ("copy", "move") and not op["place"]["p"] and op["place"]["l"] in some_tmps \
                            and v.single_def(op["place"]["l"]) is not None:
                        some_blocks.add(bj)
            if not some_blocks:
                continue
            # every path some_t -> back to the next() call passes a Some assignment
            r = scan.reachable_from(some_t, avoid=frozenset(some_blocks))
            if nbb in r:
                continue
            m = {val: tgt for val, tgt in b["term"]["targets"]}
            none_edge = m.get("0", b["term"]["otherwise"])
            just.add((bi, none_edge))
            desc.append("Option `_%d` is set on every iteration; its None edge proves zero iterations" % ol)
    r = scan.reachable_from(none_t, avoid_edges=frozenset(just))
    bad = [p for p in reach_p if p in r]
    w = pat.where(scan.blocks[bad[0]]["term"]) if bad else pat.where(nt)
    ctx.ob("C06-a", "every panic reachable from loop exhaustion is behind a justified edge (%s)" % ("; ".join(desc) or "none found"),
           not bad, fn, "exhaustion-reaches-panic", where=w,
           detail="when the rounded cumulative sum ends below `uniform` (u within rounding distance of 1) the scan falls out of the loop "
                  "and reaches the panic at %s with no `uniform < one()` check in between: a legal u in [0,1) panics" % w)


def rule_b(ctx, R, sector, scan, uniform_arg):
    ctx.rule("C06-b", "scan iterates contains_edges(subgraph) with no reordering adapter, returns on the TRUE edge of "
                      "cum_sum >= uniform, and returns (loop variable, pop_edge(subgraph, loop variable))")
    fn = scan.path
    v = Vals(scan)
    heads = loop_next_sites(scan, v)
    if len(heads) != 1:
        return ctx.lost("C06-b", "the single `for` loop of the scan", fn)
    nbb, sbb, some_t, none_t, nt = heads[0]
    # iterator source
    it_root = v.root(nt["args"][0])
    src_ok = False
    src_desc = repr(it_root)
    contains = None
    if it_root.kind == "local":
        # iter local: single def `= move into_iter_result`
        d = [x for x in v.defs.get(it_root.base[1], []) if not scan.blocks[x[1]]["cleanup"]]
        if len(d) == 1 and d[0][0] == "stmt" and d[0][3]["k"] == "use":
            r2 = v.root(d[0][3]["op"])
            t2 = v.call_term(r2)
            if t2 is not None and callee_is(t2, trait="IntoIterator", name="into_iter"):
                r3 = v.root(t2["args"][0])
                t3 = v.call_term(r3)
                if t3 is None and r3.kind == "local":
                    dd = v.single_def(r3.base[1])
                    if dd and dd[0] == "call":
                        t3 = dd[2]
                if t3 is not None:
                    cb = R.body_of_callee(t3.get("callee"))
                    src_desc = t3["callee"]["path"]
                    if cb is not None:
                        contains = cb
                        a0 = v.root(t3["args"][0])
                        sub_args = [l["i"] for l in scan.locals[1:scan.arg_count + 1] if common.ty_is_ref_to_adt(ctx.facts, l["ty"], "TropicalSubGraphId")
                                    or ((ctx.facts.ty(l["ty"]) or {}).get("k") == "adt" and str((ctx.facts.ty(l["ty"]) or {}).get("path", "")).endswith("TropicalSubGraphId"))]
                        src_ok = a0.kind == "arg" and a0.base[1] in sub_args and not a0.path
    ctx.ob("C06-b", "loop iterates the edge enumeration of the subgraph parameter directly (%s)" % src_desc, src_ok, fn,
           "scan-iterates-contains-edges", where=pat.where(nt))
    if contains is not None:
        check_ascending(ctx, contains)
    # return inside the loop
    loop_blocks = scan.reachable_from(some_t, avoid=frozenset([nbb]))
    rets = []

    def pair_of(s):
        """The (edge, graph) tuple a return statement hands back: built in place, or a local that is built once as a tuple."""
        rv = s["rv"]

        def is_pair(a_):
            # a tuple, or a private two-field struct standing in for it (`EdgeRemoval { edge, remaining }`)
            return a_["k"] == "aggregate" and (a_["agg"] == "tuple" or (a_["agg"] == "adt" and len(a_.get("ops", [])) == 2
                                                                           and not str(a_.get("adt", "")).startswith(("core::", "std::", "alloc::"))))
        if is_pair(rv):
            return rv
        if rv["k"] == "use" and rv["op"]["k"] in ("copy", "move") and not rv["op"]["place"]["p"]:
            r_ = v.root(rv["op"])
            d_ = v.rvalue_of(r_) if r_.kind == "local" else None
            if d_ is not None and is_pair(d_):
                return d_
        return None
    for bi, si, s in pat.stmts(scan):
        if s["place"]["l"] == 0 and not s["place"]["p"] and bi in loop_blocks and pair_of(s) is not None:
            rets.append((bi, s))
    if len(rets) != 1:
        return ctx.lost("C06-b", "the single `return (edge, graph)` inside the scan loop (found %d)" % len(rets), fn)
    rbi, rs = rets[0]
    cd = cfg.control_deps(scan)
    edge_ok, edge_desc = False, "no comparison controls the return"
    for (sb, tgt) in cd[rbi]:
        c = v.classify_bool(scan.blocks[sb]["term"]["discr"])
        cm = common.cmp_of(v, c)
        if cm is None or cm[0] not in ("lt", "le", "gt", "ge"):
            continue
        name, la, ra, wh = cm
        r0, r1 = common.scalar_value_root(v, la), common.scalar_value_root(v, ra)
        te, fe = bool_edges(scan, sb)
        u0 = r0.kind == "arg" and r0.base[1] == uniform_arg and not r0.path
        u1 = r1.kind == "arg" and r1.base[1] == uniform_arg and not r1.path
        other = r1 if u0 else r0
        # the other side must be the running accumulator: a local updated additively in the loop
        acc_ok = False
        if other.kind == "local":
            for bb, tt in scan.calls():
                if callee_is(tt, trait="AddAssign", name="add_assign") and v.root(tt["args"][0]) == other and bb in loop_blocks:
                    acc_ok = True
            for bb, si_, st_ in pat.stmts(scan):
                if bb in loop_blocks and st_["place"]["l"] == other.base[1] and not st_["place"]["p"] and st_["rv"]["k"] == "binop" \
                        and st_["rv"]["op"] == "Add" and (v.root(st_["rv"]["a"]) == other or v.root(st_["rv"]["b"]) == other):
                    acc_ok = True
        if not (u0 or u1) or not acc_ok:
            continue
        ge_like = (u1 and name == "ge") or (u0 and name == "le")
        edge_desc = "%s(%r, %r) at %s, return on %s edge" % (name, r0, r1, wh or pat.where(scan.blocks[sb]["term"]), "true" if tgt == te else "false")
        edge_ok = ge_like and tgt == te
    ctx.ob("C06-b", "return is on the TRUE edge of `cum_sum >= uniform` (%s)" % edge_desc, edge_ok, fn, "scan-ge-direction", where=pat.where(rs),
           detail="the statement says the first edge at which the running sum REACHES u is taken: expected cum_sum >= uniform (or uniform <= cum_sum), true edge; found %s" % edge_desc)
    # returned pair identity
    ops = pair_of(rs)["ops"]
    e_root = v.root(ops[0])
    g_root = v.root(ops[1])
    loopvar = v.root_place({"l": nt["dest"]["l"], "p": []}).with_path(("as:Some", "0"))
    gt = v.call_term(g_root)
    pair_ok = (e_root == loopvar and gt is not None and idroles.is_role(ctx, gt, "pop_edge")
               and v.root(gt["args"][1]) == loopvar
               and v.root(gt["args"][0]).kind == "arg")
    ctx.ob("C06-b", "returned pair is (loop variable, pop_edge(subgraph, loop variable))", pair_ok, fn, "scan-returned-pair", where=pat.where(rs),
           detail="returned (%r, %r), loop variable %r" % (e_root, g_root, loopvar))
    check_all_returns(ctx, scan, v, nt, rs, loopvar)


def check_all_returns(ctx, scan, v, nt, loop_ret_stmt, loopvar):
    """Every value returned by the scan is the in-loop (edge, rest) pair or the last scanned pair kept for the rounding fallback."""
    fn = scan.path
    others = []
    for bi, si, s in pat.stmts(scan):
        if s["place"]["l"] != 0 or s["place"]["p"] or s is loop_ret_stmt:
            continue
        ok = False
        why = "returns %s" % s["rv"]["k"]
        if s["rv"]["k"] == "use" and s["rv"]["op"]["k"] in ("copy", "move"):
            r = v.root(s["rv"]["op"])
            why = "returns %r" % (r,)
            # the payload resolved to the pair it was built from (the only Some(..) ever stored in the Option)
            rv0 = v.rvalue_of(r) if r.kind == "local" and not r.path else None
            if rv0 is not None and rv0["k"] == "aggregate" and rv0["agg"] == "tuple" and len(rv0["ops"]) == 2:
                e_root, g_root = v.root(rv0["ops"][0]), v.root(rv0["ops"][1])
                gt = v.call_term(g_root)
                ok = (e_root == loopvar and gt is not None and idroles.is_role(ctx, gt, "pop_edge") and v.root(gt["args"][1]) == loopvar)
            # payload of an Option local that is assigned Some((loopvar, pop_edge(subgraph, loopvar))) in the loop
            if not ok and r.kind == "local" and r.path[:2] == ("as:Some", "0"):
                ol = r.base[1]
                somes = []
                for bj, sj, st in pat.aggregates(scan, pat.OPTION, "Some"):
                    dst = st["place"]["l"]
                    feeds = dst == ol or any(s2["place"]["l"] == ol and s2["rv"]["k"] == "use" and s2["rv"]["op"]["k"] in ("copy", "move")
                                             and s2["rv"]["op"]["place"]["l"] == dst for _b, _i, s2 in pat.stmts(scan))
                    if feeds:
                        somes.append(st)
                good = bool(somes)
                for st in somes:
                    pr = v.root(st["rv"]["ops"][0])
                    rvv = v.rvalue_of(pr) if pr.kind == "local" else None
                    if rvv is None or rvv["k"] != "aggregate" or rvv["agg"] != "tuple" or len(rvv["ops"]) != 2:
                        good = False
                        continue
                    e_root, g_root = v.root(rvv["ops"][0]), v.root(rvv["ops"][1])
                    gt = v.call_term(g_root)
                    if not (e_root == loopvar and gt is not None and idroles.is_role(ctx, gt, "pop_edge") and v.root(gt["args"][1]) == loopvar):
                        good = False
                ok = good
        if not ok:
            others.append((s, why))
    for s, why in others:
        ctx.ob("C06-b", "every return of the scan is the cumulative-scan result", False, fn, "unrecognised-selection-return", where=pat.where(s),
               detail="the scan has a return path that is neither the in-loop `cum_sum >= uniform` return nor the last-scanned-edge fallback (%s): "
                      "a second selection procedure whose agreement with the cumulative scan is not decided" % why)
    if not others:
        ctx.ob("C06-b", "every return of the scan is the in-loop pair or the last-scanned-pair fallback", True, fn, "unrecognised-selection-return")


def check_ascending(ctx, contains):
    """contains_edges: (0..num_edges).filter(..) with no reversing adapter."""
    fn = contains.path
    ctx.fn(fn)
    v = Vals(contains)
    bad = [t["callee"]["path"] for bi, t in contains.calls()
           if t.get("callee") and t["callee"].get("name") in ("rev", "rfold", "next_back", "rposition", "sorted", "sorted_by", "step_by", "skip", "take", "chain", "cycle")]
    ranges = [s for bi, si, s in pat.aggregates(contains, ("core::ops::Range", "std::ops::Range", "core::ops::range::Range", "std::ops::range::Range"))]
    start_zero = False
    for s in ranges:
        rv = s["rv"]
        if "start" in rv["fields"]:
            op = rv["ops"][rv["fields"].index("start")]
            if op["k"] == "const" and op.get("int") == "0":
                start_zero = True
    ctx.ob("C06-b", "edge enumeration is an ascending range from 0 with no reordering/skipping adapter", start_zero and not bad, fn,
           "contains-edges-ascending", detail="adapters: %s; ranges from 0: %s" % (bad, start_zero))


def rule_c(ctx, R, sector, scan_site):
    ctx.rule("C06-c", "sector routine: on the has_one_edge branch no hypercube read happens and the sole edge is removed; "
                      "otherwise exactly one read feeds the scan's uniform parameter")
    fn = sector.path
    ctx.fn(fn)
    v = Vals(sector)
    read = R.read_fn()
    sbi, st, scan, uidx = scan_site
    acd = cfg.transitive_control_deps(sector, acyclic=True)
    sw = None
    ot = None
    for bi, b in enumerate(sector.blocks):
        if b["term"]["k"] != "switch":
            continue
        c = v.classify_bool(b["term"]["discr"])
        if c and c[0] == "call" and idroles.is_role(ctx, c[1], "has_one_edge"):
            te_, fe_ = bool_edges(sector, bi)
            if (bi, fe_) in acd[sbi]:
                if sw is not None:
                    return ctx.lost("C06-c", "a single has_one_edge test controlling the scan call", fn)
                sw, ot = bi, c[1]
    if sw is None:
        return ctx.lost("C06-c", "the has_one_edge test that controls the scan call", fn)
    te, fe = bool_edges(sector, sw)
    idom = cfg.dominators(sector)
    asucc = cfg.acyclic_succs(sector)

    def areach(start):
        seen, st_ = set(), [start]
        while st_:
            x = st_.pop()
            if x in seen:
                continue
            seen.add(x)
            for y in asucc[x]:
                if not sector.blocks[y]["cleanup"]:
                    st_.append(y)
        return seen

    read_sites = [bi for bi, t, cb in R.local_callees(sector) if cb is read]
    # single-edge arm: blocks dominated by the true target (exclusive to that branch)
    t_arm = set(b for b in range(len(sector.blocks)) if cfg.dominates(idom, te, b)) if len(sector.preds()[te]) == 1 else set()
    t_reads = [b for b in read_sites if b in t_arm]
    ctx.ob("C06-c", "single-edge branch consumes no hypercube coordinate", not t_reads and bool(t_arm), fn, "one-edge-branch-no-read", where=pat.where(ot),
           detail="read sites on the single-edge branch: %s" % [pat.where(sector.blocks[b]["term"]) for b in t_reads])
    # multi-edge branch: reads lying on a path from the false edge to the scan call (same iteration)
    from_fe = areach(fe)
    between = [b for b in read_sites if b in from_fe and sbi in areach(b)]
    ur = v.root(st["args"][uidx])
    feeds = len(between) == 1 and ur == Root(("call", between[0]))
    ctx.ob("C06-c", "multi-edge branch performs exactly one read before the scan, and it is the scan's uniform argument", feeds, fn,
           "multi-edge-branch-one-read", where=pat.where(st), detail="reads between the branch and the scan: %d; scan's uniform root %r" % (len(between), ur))
    t_region = t_arm
    # removed edge on the single-edge branch: first element of the edge enumeration of the current graph, then pop_edge(graph, edge)
    # the edge taken on the single-edge branch is the first enumerated edge of the current graph
    nexts = [(bi, t) for bi, t in sector.calls() if bi in t_region and callee_is(t, trait="Iterator", name="next")]
    ok_first = False
    det = "no `contains_edges(graph).next()` on the single-edge branch"
    gr_test = v.root(ot["args"][0])
    for nbi, nt_ in nexts:
        cur = v.root(nt_["args"][0])
        src_t = v.call_term(cur)
        if src_t is None and cur.kind == "local":
            d = v.single_def(cur.base[1])
            if d and d[0] == "call":
                src_t = d[2]
        if src_t is not None and idroles.is_role(ctx, src_t, "contains_edges") and v.root(src_t["args"][0]) == gr_test:
            ok_first = True
            det = "edge = contains_edges(%r).next()" % (gr_test,)
    ctx.ob("C06-c", "single-edge branch takes the sole (first enumerated) edge of the tested graph", ok_first, fn, "one-edge-branch-removes-sole-edge",
           detail=det)
    pops = [(bi, t) for bi, t in sector.calls() if bi in t_region and t.get("callee") and idroles.is_role(ctx, t, "pop_edge")]
    for pbi, pt in pops:
        gr = v.root(pt["args"][0])
        ctx.ob("C06-c", "pop_edge on the single-edge branch acts on the tested graph", gr == gr_test, fn, "one-edge-branch-pop-graph",
               detail="pop_edge on %r, tested graph %r" % (gr, gr_test))


def run(ctx):
    R = ctx.roles
    try:
        sector, scan_site = find_scan(ctx, R)
    except RoleLost as e:
        return ctx.lost("C06", str(e))
    sbi, st, scan, uidx = scan_site
    ctx.fn(scan.path)
    uniform_arg = uidx + 1
    rule_a(ctx, R, scan, uniform_arg)
    rule_b(ctx, R, sector, scan, uniform_arg)
    rule_c(ctx, R, sector, scan_site)
    from .kernels import run_c06d
    run_c06d(ctx)
    rule_e(ctx, R)
    rule_f(ctx, R, sector, scan_site)
    rule_g(ctx)
    rule_h(ctx)

    # "the coordinate" in the statement is the one the reader hands out: the k-th read returns element k of the caller's slice and
    # advances by one (restated from C14-a / C14-b — a reader that skips, repeats or offsets breaks this property from mimic_rng.rs)
    from .restate import run_restated
    run_restated(ctx, [("C14", {"C14-a": "the caller's slice reaches only the reader; its fields are touched only by its own methods",
                                "C14-b": "the k-th read returns cache[k] and advances the counter by exactly one"})])
    if ctx.cfg == "default":
        from ..fixtures import detectors_alive
        ctx.rule("C06-z", "positive example: a panic guarded by a coordinate's value is found in fixtures/")
        detectors_alive(ctx, "C06-z", {"value-panic"})


def rule_g(ctx):
    """`index order` in the statement is the caller's: the graph the table is built from lists the caller's edges unpermuted."""
    from .kernels import graph_dod_clause, restated_clause
    ctx.rule("C06-g", "[restated from C03-a] the edges the scan enumerates in index order are the caller's edges in the caller's order: from_graph stores "
                      "edge e of the input as topology[e] (id, endpoints, weight, mass flag), with dod and L of the whole graph as stated")
    restated_clause(ctx, "C06-g", "preprocessing::TropicalGraph::from_graph", "graph-dod", lambda: graph_dod_clause(ctx, "C06-g", topology=True))


def rule_h(ctx):
    """The J and ω the summand reads from the table are the statement's (restated from C04-a, C03-b/e/f)."""
    from .kernels import gdod_clause, run_c03_flags, run_c03_loops, builder_roles, restated_clause
    from .restate import run_restated
    ctx.rule("C06-h", "ω(g) = [g≠∅]·(Σ_{e∈g} w_e − ℓ(g)·D/2 − [spanning(g)]·dod) + [g=∅]·1 as stored, entry by entry")
    try:
        bs, fg, tb, jrec = builder_roles(ctx)
        restated_clause(ctx, "C06-h", tb.path, "generalized-dod", lambda: gdod_clause(ctx, "C06-h", tb))
    except RoleLost as e:
        ctx.note("C06-h: restated clause skipped — %s; the owning rules report it" % e)
    run_c03_flags(ctx, "C06-i")
    run_c03_loops(ctx, "C06-i", soft=True)
    run_restated(ctx, [("C04", {"C04-a": "J(g) = Σ_e J(g∖e)/ω(g∖e), J(∅) = 1: the J values the summand reads"})])


def rule_e(ctx, R):
    """The selection probabilities divide by ω(g∖e): an accepted table must not contain ω = 0 for a proper non-empty subset."""
    from ..f64facts import _cond_classes, NEG, ZERO, POS
    from .c05 import table_builder
    ctx.rule("C06-e", "the divisor ω(g∖e) of the selection probabilities is never zero in an accepted table: the builder's rejection test sends "
                      "the classes {negative, zero} of the generalised dod to Err and {positive} to acceptance (`<= 0`, not `< 0`)")
    try:
        bs, site = table_builder(R)
    except RoleLost as e:
        return ctx.lost("C06-e", str(e))
    tb = site[2]
    v = Vals(tb)
    errs = pat.result_ctor_sites(tb, "Err")
    if len(errs) != 1:
        return ctx.lost("C06-e", "the single Err of the table builder (found %d)" % len(errs), tb.path)
    ebi = errs[0][0]
    tcd = cfg.transitive_control_deps(tb, acyclic=True)
    found = None
    for (sb, tgt) in sorted(tcd[ebi]):
        t = tb.blocks[sb]["term"]
        c = v.classify_bool(t["discr"])
        if not c or c[0] != "binop":
            continue
        rv = c[1]
        from ..f64facts import const_f64
        for side in ("a", "b"):
            other = "b" if side == "a" else "a"
            if const_f64(rv[other]) is not None and rv[side]["k"] in ("copy", "move"):
                x = v.root(rv[side])
                cc = _cond_classes(v, c, x)
                if cc is None:
                    continue
                te, fe = bool_edges(tb, sb)
                err_set, pass_set = (cc[0], cc[1]) if tgt == te else (cc[1], cc[0])
                found = (sb, err_set, pass_set, t)
    if found is None:
        return ctx.lost("C06-e", "the comparison of the generalised dod against a constant that controls the Err", tb.path)
    sb, err_set, pass_set, t = found
    ok = {NEG, ZERO} <= err_set and not ({NEG, ZERO} & pass_set) and POS not in err_set
    ctx.ob("C06-e", "rejection test: classes to Err %s, classes accepted %s" % (sorted(err_set), sorted(pass_set)), ok, tb.path, "zero-dod-rejected",
           where=pat.where(t), detail="a proper subset with generalised dod exactly 0 (classes accepted: %s) passes the builder; sample_edge then divides "
                                      "J(g∖e) by ω(g∖e) = 0 and the cumulative comparison is made against inf/NaN" % sorted(pass_set))


def rule_f(ctx, R, sector, scan_site):
    """No panic whose condition is computed from a coordinate's VALUE (u = 0.0, u close to 1, …) on the way to the selection."""
    from ..flow import Flow
    ctx.rule("C06-f", "in the sampling entry, sample, the sector routine and the scan no panicking block is control-dependent on a condition "
                      "computed (explicit data flow) from hypercube coordinate values — except the scan's exhaustion panic, decided by C06-a")
    f = ctx.facts
    try:
        s, entry, rd, read = R.sample(), R.xspace_entry(), R.reader_adt(), R.read_fn()
    except RoleLost as e:
        return ctx.lost("C06-f", str(e))
    sbi, st, scan, uidx = scan_site
    fl = Flow(f, R, reader_adt=rd["adt"], read_fn=read, follow_control=False, ignore_len=True)

    def slice_params(b):
        out = []
        for l in b.locals[1:b.arg_count + 1]:
            t1 = f.ty(l["ty"]) or {}
            t2 = f.ty(t1.get("t", "")) or {}
            if t1.get("k") == "ref" and t2.get("k") == "slice":
                out.append(l["i"])
        return out
    n = 0
    for b, coord_params in ((entry, slice_params(entry)), (s, slice_params(s)), (sector, []), (scan, [uidx + 1])):
        ctx.fn(b.path)
        dd = fl.deps_of(b)
        v = Vals(b)
        panics = list(pat.panic_blocks(b))
        for bi, blk in enumerate(b.blocks):
            if not blk["cleanup"] and blk["term"]["k"] == "assert":
                panics.append(bi)
        skip = set()
        if b is scan:
            heads = loop_next_sites(scan, v)
            if len(heads) == 1:
                skip = scan.reachable_from(heads[0][3])   # behind the exhaustion edge: C06-a
        # blocks from which a normal return is still possible; a switch DECIDES a panic when it can still return but one of its
        # successors cannot (every path from that successor ends in the panic)
        preds = b.preds()
        can_return, work = set(), [i for i, blk in enumerate(b.blocks) if not blk["cleanup"] and blk["term"]["k"] == "return"]
        while work:
            x = work.pop()
            if x in can_return:
                continue
            can_return.add(x)
            work.extend(p_ for p_ in preds[x] if not b.blocks[p_]["cleanup"])
        succs = b.succs()
        for pb in panics:
            if pb in skip:
                continue
            n += 1
            conds = []
            if b.blocks[pb]["term"]["k"] == "assert":
                co = b.blocks[pb]["term"]["cond"]
                if co["k"] in ("copy", "move"):
                    conds.append((pb, co["place"]["l"]))
            else:
                doomed_reach = set(x for x in range(len(b.blocks)) if x not in can_return and pb in b.reachable_from(x))
                for sb, blk in enumerate(b.blocks):
                    t = blk["term"]
                    if blk["cleanup"] or t["k"] != "switch" or sb not in can_return or t["discr"]["k"] not in ("copy", "move"):
                        continue
                    if any(sx in doomed_reach for sx in succs[sb]):
                        conds.append((sb, t["discr"]["place"]["l"]))
            # in the entry and in sample only decisions taken BEFORE the next stage is called lie on the way to the selection:
            # a check after the sector routine has returned cannot stop an edge from being selected (other properties own it)
            nxt = {id(entry): s, id(s): sector}.get(id(b))
            stage_bbs = [bi_ for bi_, t_, cb_ in R.local_callees(b) if cb_ is nxt] if nxt is not None else []
            for sb, dl in conds:
                if stage_bbs and not any(x in b.reachable_from(sb) for x in stage_bbs):
                    continue
                srcs = dd["close"](("n", dl, None))
                tainted = sorted(set(str(x[:2]) for x in srcs if x[0] == "site" or (x[0] == "param" and x[1] in coord_params)))
                if tainted:
                    ctx.ob("C06-f", "panic independent of coordinate values", False, b.path, "value-dependent-panic",
                           where=pat.where(b.blocks[pb]["term"]),
                           detail="the panic at %s is decided by a condition (%s) computed from coordinate values %s: some u in [0,1) panics before / "
                                  "instead of selecting an edge" % (pat.where(b.blocks[pb]["term"]), pat.where(b.blocks[sb]["term"]), tainted))
    ctx.ob("C06-f", "bodies examined on the selection path: 4 (entry, sample, sector, scan); explicit panic / assertion sites outside the scan's "
                    "exhaustion region: %d" % n, True, sector.path, "panic-scan")
