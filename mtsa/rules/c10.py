"""C10 — loop momenta and shift: code ≡ formula (kernel engine)."""
from .kernels import run_c10


def run(ctx):
    run_c10(ctx)
