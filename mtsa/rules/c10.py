"""C10 — loop momenta and shift: code ≡ formula (kernel engine)."""
from .kernels import run_c10


def run(ctx):
    run_c10(ctx)
    # the Vector primitives the momentum map, the shift, the u vectors and V are written in (restated from C20-b: the formulas above
    # use them by definition, so an error in one of them — e.g. a `squared` that mishandles D >= 5 — breaks the property unseen)
    from .kernels import run_c20b
    ctx.rule("C10-f", "the Vector primitives used by the momentum map, u and V are componentwise: a+b, a−b, a·s, dot = Σ_i a_i·b_i, squared = Σ_i a_i²")
    run_c20b(ctx, "C10-f", only=("add", "sub", "mul-by-value", "mul-by-ref", "dot", "ctors"))

    # the formulas above are written in the scalar type's own operations; for the f64 instantiation those are decided by C20-a — restated
    # here for exactly the operations this code calls: a `powf` / `sqrt` / `cos` of `impl MomTropFloat for f64` that is not std's breaks
    # this property with every anchored line untouched
    from .restate import restate_f64_primitives
    from .kernels import sample_world
    def kernel(k):
        return lambda: sample_world(ctx).roles[k]
    restate_f64_primitives(ctx, [lambda: ctx.roles.decompose(), kernel("momenta"), kernel("shift"), kernel("uvec"), kernel("vpoly"), kernel("lmatrix")],
                           "the momentum map, the shift, u, V, L and the decomposition")
    # the signature (and table) these formulas read are the ones the caller handed to build_sampler (restated from C05-b)
    from .restate import restate_sampler_is_callers
    restate_sampler_is_callers(ctx)
