"""C10 — loop momenta and shift: code ≡ formula (kernel engine)."""
from .kernels import run_c10


def run(ctx):
    run_c10(ctx)
    # the Vector primitives the momentum map, the shift, the u vectors and V are written in (restated from C20-b: the formulas above
    # use them by definition, so an error in one of them — e.g. a `squared` that mishandles D >= 5 — breaks the property unseen)
    from .kernels import run_c20b
    ctx.rule("C10-f", "the Vector primitives used by the momentum map, u and V are componentwise: a+b, a−b, a·s, dot = Σ_i a_i·b_i, squared = Σ_i a_i²")
    run_c20b(ctx, "C10-f", only=("add", "sub", "mul-by-value", "mul-by-ref", "dot", "ctors"))
