"""C02 — bounded weights.  The inequalities U_tr <= U <= N_T·U_tr etc. are a theorem about polynomial values and are NOT decided.
Decided: the structural clauses at the mechanisms the anchors name — that the quantities the code calls U_tr, V_tr, U, V are the
statement's objects (bookkeeping per removed edge driven by the statement's loop-number / spanning flags; u = det L with the
statement's L; v the statement's formula) and that the returned ratio is formed from them with the rescaling identity.  Each is a
necessary condition: with a wrong flag, a skipped bookkeeping step or a wrong entry of L the ratio is unbounded on some sector."""
from .restate import run_restated

PLAN = [
    ("C07", {"C07-b": "U_tr *= x_e exactly when the loop number drops, V_tr := x_e exactly on spanning → not spanning (anchor: bookkeeping)",
             "C07-c": "the rescaling normalises U_tr^(D/2)·V_tr^dod to 1 (anchor: rescaling); returned U_tr = V_tr = 1",
             "C07-a": "the Feynman parameters at which U, V are evaluated are the ones the bookkeeping saw",
             "C07-d": "ω(g), ℓ(g), dod, L used by the sector routine are the statement's"}),
    ("C03", {"C03-b": "per-subset loop number / spanning flag stored in the table are the routines' values on that edge set (anchor: flags)",
             "C03-e": "spanning flag ≡ the statement's conjunction",
             "C03-f": "loop number = Euler sum over components"}),
    ("C08", {"C08-a": "u = det of L[a,b] = Σ x s s", "C08-b": "result.u is that determinant", "C08-c": "determinant of the Cholesky factor"}),
    ("C09", {"C09-a": "u vectors", "C09-b": "v = Σ x(m²+p²) − uᵀL⁻¹u", "C09-c": "L⁻¹ is the inverse of that L",
             "C09-e": "the Vector primitives u and V are written in are componentwise over all D components"}),
    ("C11", {"C11-a": "the returned ratio (u_trop/u)^(D/2)(v_trop/v)^dod = jacobian/normalisation on the same u, v",
             "C11-d": "bookkeeping in every iteration, last edge included"}),
]


def run(ctx):
    run_restated(ctx, PLAN)
    # for T = f64 the scalar operations behind U_tr, V_tr, U, V and the ratio are std's (restated from C20-a, exactly those reachable)
    from .restate import restate_f64_primitives
    from .kernels import sample_world
    from .c06 import find_sector
    def kernel(k):
        return lambda: sample_world(ctx).roles[k]
    restate_f64_primitives(ctx, [lambda: find_sector(ctx, ctx.roles), lambda: ctx.roles.decompose(), kernel("lmatrix"), kernel("uvec"), kernel("vpoly")],
                           "the sector routine, L, u, V, the decomposition and the jacobian assembly", shallow=[lambda: ctx.roles.sample()])
    from . import common
    ctx.rule("C02.entry", "the x-space entry hands point, edge data, settings and table to the sampling routine unmodified")
    common.entry_forwards_inputs(ctx, ctx.roles, "C02.entry")
    # the signature (and table) these formulas read are the ones the caller handed to build_sampler (restated from C05-b)
    from .restate import restate_sampler_is_callers
    restate_sampler_is_callers(ctx)
