"""C14 — each hypercube coordinate is consumed exactly once, in one statistical role (structural clauses).

a. the slice is reachable only through the reader; the reader's fields only through its own methods; builders use element 0 only as receiver;
b. read: exactly one counter += 1 on every path and the returned element is cache[counter_before];
c. role separation (explicit-flow noninterference): Feynman parameters <- sector's own reads; lambda <- the lambda read; Gaussians <- their reads;
d. every read site's value is used;
e. group order in sample: sector, then the lambda read, then the Gaussian routine; nothing else can reach a read;
f. per-iteration read counts;
g. sibling agreement of the Gaussian read count with get_num_variables (kernel engine).
"""
from ..vals import Vals, callee_is, bool_edges, norm_path, Root
from ..roles import RoleLost
from ..flow import Flow, fmt_source, BUILDERS_NOARG, BUILDERS_VALUE
from .. import pat, cfg
from . import common
from .. import idroles
from .c06 import find_sector, find_scan

PID = "C14"


def find_gauss(ctx, R):
    s = R.sample()
    rd = R.reader_adt()
    q = R.quantile()
    sector = find_sector(ctx, R)
    v = Vals(s)
    cands = []
    for bi, t, cb in R.local_callees(s):
        if cb is rd["ctor"] or cb is q or cb is R.read_fn() or cb is sector:
            continue
        for ai, a in enumerate(t["args"]):
            r = v.root(a)
            pty = ctx.facts.ty(cb.local_ty(ai + 1)) or {}
            pointee = (ctx.facts.ty(pty.get("t", "")) or {}) if pty.get("k") == "ref" else {}
            if r.kind == "local" and not r.path and pty.get("k") == "ref" and pty.get("mut") and pointee.get("path") == rd["adt"]:
                cands.append((bi, t, cb))
    if len(cands) != 1:
        # a helper that wraps the lambda draw also takes the reader: fall back to the producer of Metadata.q_vectors
        from .c06 import _by_provenance
        g = _by_provenance(ctx, "gauss")
        hits = [c for c in cands if c[2] is g]
        if g is not None and len(hits) == 1:
            return hits[0]
        raise RoleLost("gauss: the second callee of sample taking &mut reader (found %d)" % len(cands))
    return cands[0]


def can_reach_read(R, body, read, memo=None, stack=None):
    memo = {} if memo is None else memo
    stack = set() if stack is None else stack
    if body.key in memo:
        return memo[body.key]
    if body.key in stack:
        return False
    stack.add(body.key)
    res = False
    for bi, t, cb in R.local_callees(body):
        if cb is read or can_reach_read(R, cb, read, memo, stack):
            res = True
            break
    if not res:
        for cb in R.f.closures_of(body.path):
            if can_reach_read(R, cb, read, memo, stack):
                res = True
                break
    stack.discard(body.key)
    memo[body.key] = res
    return res


def rule_a(ctx, R):
    f = ctx.facts
    ctx.rule("C14-a", "the x-space slice flows only into the reader's constructor; the reader's fields are touched only by its own methods; "
                      "its constant builders use an element only as the receiver of a MomTropFloat constant builder")
    s, rd, read = R.sample(), R.reader_adt(), R.read_fn()
    v = Vals(s)
    # uses of the slice parameter in sample
    bad = []
    n_use = 0
    for bi, b in enumerate(s.blocks):
        if b["cleanup"]:
            continue
        t = b["term"]
        if t["k"] == "call":
            for a in t["args"]:
                r = v.root(a)
                if r.kind == "arg" and r.base[1] == rd["slice_arg"]:
                    n_use += 1
                    if bi != rd["ctor_bb"] or r.path:
                        bad.append(pat.where(t))
        for st in b["stmts"]:
            if st["k"] == "assign":
                rv = st["rv"]
                for key in ("place",):
                    pl = rv.get(key)
                    if pl and pl["l"] == rd["slice_arg"] and pl["p"] and any(e["k"] in ("index", "constindex", "subslice") for e in pl["p"]):
                        bad.append(pat.where(st))
    ctx.ob("C14-a", "in sample the slice parameter is used only as the reader constructor's argument (%d uses)" % n_use, not bad and n_use == 1 and rd.get("ctor_calls", 1) == 1,
           s.path, "slice-only-into-reader", detail="other uses at %s" % bad)
    # field census
    adt = rd["adt"]
    offenders = []
    n_acc = 0
    for key, b in f.mir.items():
        fi = f.fns.get(b.path) or f.fns.get(b.j.get("root") or "") or {}
        own = (f.ty(fi.get("impl_self") or "") or {}).get("path") == adt
        for bi, blk in enumerate(b.blocks):
            places = []
            for st in blk["stmts"]:
                if st["k"] == "assign":
                    places.append(st["place"])
                    rv = st["rv"]
                    if "place" in rv:
                        places.append(rv["place"])
                    for k2 in ("op", "a", "b"):
                        o = rv.get(k2)
                        if isinstance(o, dict) and o.get("k") in ("copy", "move"):
                            places.append(o["place"])
                    for o in rv.get("ops", []):
                        if o.get("k") in ("copy", "move"):
                            places.append(o["place"])
            t = blk["term"]
            if t["k"] == "call":
                places.append(t["dest"])
                for a in t["args"]:
                    if a["k"] in ("copy", "move"):
                        places.append(a["place"])
            for pl in places:
                for e in pl["p"]:
                    if e["k"] == "field" and e.get("of") == adt:
                        n_acc += 1
                        if not own:
                            offenders.append("%s touches %s.%s" % (norm_path(b.path), adt, e["name"]))
    ctx.ob("C14-a", "fields of the reader are accessed only inside its own methods (%d accesses)" % n_acc, not offenders and n_acc >= 4, adt,
           "reader-field-census", detail="; ".join(sorted(set(offenders))) or "too few accesses seen")
    # methods of the reader other than ctor / read: element only as builder receiver
    for key, b in f.mir.items():
        fi = f.fns.get(b.path)
        if not fi or (f.ty(fi.get("impl_self") or "") or {}).get("path") != adt or fi.get("impl_trait"):
            continue
        if b is rd["ctor"] or b is read:
            continue
        ctx.fn(b.path)
        vb = Vals(b)
        elem_locals = set()
        for bi, si, st in pat.stmts(b):
            rv = st["rv"]
            if rv["k"] in ("ref", "use", "copyforderef"):
                pl = rv.get("place") or (rv.get("op") or {}).get("place")
                if pl and any(e["k"] in ("index", "constindex") for e in pl["p"]):
                    elem_locals.add(st["place"]["l"])
        ok = True
        det = []
        for bi, t in b.calls():
            for ai, a in enumerate(t["args"]):
                if a["k"] in ("copy", "move") and (a["place"]["l"] in elem_locals or (vb.root(a).path and any(isinstance(x, tuple) for x in vb.root(a).path))):
                    is_builder = callee_is(t, trait="MomTropFloat", name=BUILDERS_NOARG + BUILDERS_VALUE) and ai == 0
                    if not is_builder:
                        ok = False
                        det.append("element passed to %s (arg %d)" % (t["callee"]["path"], ai))
        # returning or storing an element itself
        r0 = [st for bi, si, st in pat.stmts(b) if st["place"]["l"] == 0 and st["rv"]["k"] in ("use", "ref", "copyforderef")]
        for st in r0:
            pl = st["rv"].get("place") or (st["rv"].get("op") or {}).get("place")
            if pl and (pl["l"] in elem_locals or any(e["k"] in ("index", "constindex") for e in pl["p"])):
                ok = False
                det.append("returns a slice element")
        if not ok and det == ["returns a slice element"] and not fi.get("pub"):
            # a private accessor that hands out the element (`fn const_builder(&self) -> &T`): fine when every caller uses the result
            # only as the receiver of a constant builder — the element's value still goes nowhere
            sites_ok, n_sites = True, 0
            for k2, b2 in f.mir.items():
                v2 = None
                for bi2, t2 in b2.calls():
                    if R.body_of_callee(t2.get("callee")) is not b:
                        continue
                    n_sites += 1
                    v2 = v2 or Vals(b2)
                    droot = v2.root_place({"l": t2["dest"]["l"], "p": []})
                    own2 = (f.ty((f.fns.get(b2.path) or {}).get("impl_self") or "") or {}).get("path") == adt
                    if not own2:
                        sites_ok = False
                    for bi3, t3 in b2.calls():
                        for ai3, a3 in enumerate(t3["args"]):
                            if a3["k"] in ("copy", "move") and v2.root(a3) == droot:
                                if not (callee_is(t3, trait="MomTropFloat", name=BUILDERS_NOARG + BUILDERS_VALUE) and ai3 == 0):
                                    sites_ok = False
                    for bi3, si3, st3 in pat.stmts(b2):
                        if st3["place"]["l"] == 0:
                            pl3 = st3["rv"].get("place") or (st3["rv"].get("op") or {}).get("place")
                            if pl3 and v2.root_place(pl3) == droot:
                                sites_ok = False
            if sites_ok and n_sites >= 1:
                ok = True
                det = ["private accessor: all %d call sites use the element only as a constant-builder receiver" % n_sites]
        ctx.ob("C14-a", "%s uses slice elements only as receiver of a constant builder" % norm_path(b.path), ok, b.path, "reader-builder-uses-element",
               detail="; ".join(det))


def rule_b(ctx, R):
    ctx.rule("C14-b", "read method: exactly one `counter = counter + 1` on every path, outside loops; the returned reference is cache[counter before the increment]")
    f = ctx.facts
    read, rd = R.read_fn(), R.reader_adt()
    ctx.fn(read.path)
    v = Vals(read)
    writes = []
    for bi, si, st in pat.stmts(read):
        pl = st["place"]
        flds = [e for e in pl["p"] if e["k"] == "field" and e.get("of") == rd["adt"]]
        if flds:
            writes.append((bi, si, st, flds[0]["name"]))
    # the counter field: a usize field that is written
    cw = [w for w in writes if (f.ty(w[2]["place"]["p"][-1].get("ty", "")) or {}).get("name") == "usize"]
    if len(cw) != 1:
        return ctx.ob("C14-b", "exactly one write to the position counter", False, read.path, "counter-single-increment",
                      detail="found %d writes to usize fields of the reader in the read method" % len(cw))
    bi, si, st, cname = cw[0]
    # value written: AddWithOverflow(counter, 1).0 or Add(counter, 1)
    op = st["rv"].get("op")
    inc_ok = False
    if st["rv"]["k"] == "use" and op and op["k"] in ("copy", "move"):
        d = v.single_def(op["place"]["l"])
        if d and d[0] == "stmt" and d[3]["k"] == "binop" and d[3]["op"] in ("AddWithOverflow", "Add"):
            a, b2 = d[3]["a"], d[3]["b"]
            ra = v.root(a)
            inc_ok = (ra.path[-1:] == (cname,) and b2["k"] == "const" and b2.get("int") == "1")
    elif st["rv"]["k"] == "binop" and st["rv"]["op"] == "Add":
        a, b2 = st["rv"]["a"], st["rv"]["b"]
        inc_ok = v.root(a).path[-1:] == (cname,) and b2["k"] == "const" and b2.get("int") == "1"
    idom = cfg.dominators(read)
    rets = read.return_blocks()
    dom_ok = all(cfg.dominates(idom, bi, r) for r in rets) and not any(bi in bl for _h, bl in cfg.loops(read))
    ctx.ob("C14-b", "counter is advanced by exactly 1, once, on every path", inc_ok and dom_ok, read.path, "counter-single-increment",
           where=pat.where(st), detail="increment shape ok=%s dominates all returns and not in a loop=%s" % (inc_ok, dom_ok))
    # returned element: cache[idx] with idx = counter read before the increment
    r0 = None
    for bj, sj, s2 in pat.stmts(read):
        if s2["place"]["l"] == 0 and not s2["place"]["p"]:
            r0 = v.root_place(s2["rv"]["place"]) if "place" in s2["rv"] else v.root(s2["rv"]["op"])
    el_ok = False
    det = "return root %r" % (r0,)
    if r0 is not None and r0.path:
        idx = [x for x in r0.path if isinstance(x, tuple) and x[0] == "idx"]
        if len(idx) == 1:
            il = idx[0][1]
            d = v.single_def(il)
            if d and d[0] == "stmt" and d[3]["k"] == "use":
                src = v.root(d[3]["op"])
                before = (d[1] < bi) or (d[1] == bi and d[2] < si) or (d[1] != bi and cfg.dominates(idom, d[1], bi))
                el_ok = src.path[-1:] == (cname,) and before
                det = "index local _%d = %r read %s the increment" % (il, src, "before" if before else "after")
    ctx.ob("C14-b", "returned element is cache[counter before the increment]", el_ok, read.path, "returned-element-index", detail=det)


def rule_cd(ctx, R, sector, gauss_site):
    f = ctx.facts
    ctx.rule("C14-c", "role separation by explicit flow: Feynman parameters depend only on the sector routine's own read sites (+ table constants), "
                      "lambda only on its own read, Gaussian vectors only on their own reads (+ integer sizes)")
    ctx.rule("C14-d", "every read site's value is used (no skipped coordinate)")
    s, rd, read = R.sample(), R.reader_adt(), R.read_fn()
    gbi, gt, gauss = gauss_site
    fl = Flow(f, R, reader_adt=rd["adt"], read_fn=read)

    def own_sites(body):
        out = set()
        stack = [body]
        seen = set()
        while stack:
            b = stack.pop()
            if b.key in seen:
                continue
            seen.add(b.key)
            for bi, t, cb in R.local_callees(b):
                if cb is read:
                    out.add(("site", b.key, bi))
                else:
                    stack.append(cb)
            for cb in f.closures_of(b.path):
                stack.append(cb)
        return out

    def scalar_params(body):
        """params whose type mentions the scalar type parameter (other than the reader)."""
        out = []
        for l in body.locals[1:body.arg_count + 1]:
            if rd["adt"] in l["ty"]:
                continue
            fi = f.fns.get(body.path) or {}
            gen = [p["name"] for p in (fi.get("generics") or {}).get("params", []) if "Type" in p["kind"]]
            if any(("<%s" % g) in l["ty"] or ("%s>" % g) in l["ty"] or ("[%s]" % g) in l["ty"] or l["ty"] in ("&%s" % g, g) or (" %s," % g) in l["ty"] or ("(%s" % g) in l["ty"]
                   for g in gen):
                out.append(l["i"])
        return out

    # sector
    sm = fl.summary(sector)
    ctx.fn(sector.path)
    xs = None
    # field of the sector's result that is a Vec of scalars
    for fld, srcs in sm.ret_fields.items():
        pass
    allowed = own_sites(sector)
    sp = scalar_params(sector)
    for fld, srcs in (sm.ret_fields.items() if sm.ret_fields else [("<ret>", sm.ret)]):
        bad = [x for x in srcs if (x[0] == "site" and x not in allowed) or x[0] in ("flag", "to_f64", "rng", "hash") or (x[0] == "param" and x[1] in sp)]
        ctx.ob("C14-c", "sector result `%s` depends only on the sector's own %d read sites and table constants" % (fld, len(allowed)), not bad,
               sector.path, "sector-provenance:" + fld, detail="unexpected provenance: %s" % sorted(fmt_source(x) for x in bad))
    # gauss
    gm = fl.summary(gauss)
    ctx.fn(gauss.path)
    gallowed = own_sites(gauss)
    gsp = scalar_params(gauss)
    gbad = [x for x in gm.ret if (x[0] == "site" and x not in gallowed) or x[0] in ("flag", "to_f64", "rng", "hash") or (x[0] == "param" and x[1] in gsp)]
    ctx.ob("C14-c", "Gaussian vectors depend only on the Gaussian routine's own %d read sites and integer sizes" % len(gallowed), not gbad and len(gallowed) >= 2,
           gauss.path, "gauss-provenance", detail="unexpected provenance: %s" % sorted(fmt_source(x) for x in gbad))
    # in sample: arguments handed to gauss carry no read-site provenance
    d = fl.deps_of(s)
    for ai, a in enumerate(gt["args"]):
        if a["k"] not in ("copy", "move") or rd["adt"] in s.local_ty(a["place"]["l"]):
            continue
        srcs = d["close"](("n", a["place"]["l"], None))
        bad = [x for x in srcs if x[0] in ("site", "flag")]
        ctx.ob("C14-c", "argument %d of the Gaussian routine carries no coordinate provenance" % ai, not bad, s.path, "gauss-args-clean",
               where=pat.where(gt), detail="%s" % sorted(fmt_source(x) for x in bad))
    # wiring in sample: what is published / handed on as "Gaussian vectors", "lambda", "Feynman parameters" keeps its own group
    S_sec, S_gau = allowed, gallowed
    S_lam = set(("site", s.key, bi) for bi, t, cb in R.local_callees(s) if cb is read)

    def sites_of(op):
        if op["k"] not in ("copy", "move"):
            return set()
        l = op["place"]["l"]
        flds = [e["name"] for e in op["place"]["p"] if e["k"] == "field"]
        n = ("n", l, flds[0]) if flds and flds[0] in d["fields_of"].get(l, ()) else ("n", l, None)
        return set(x for x in d["close"](n) if x[0] == "site")

    for bi2, si2, st2 in common.built_structs(f, R, s, "Metadata"):
        rv = st2["rv"]
        for fld, grp, gname in (("q_vectors", S_gau, "Gaussian"), ("lambda", S_lam, "lambda")):
            if fld in rv["fields"]:
                ss = sites_of(rv["ops"][rv["fields"].index(fld)])
                ctx.ob("C14-c", "Metadata.%s depends only on the %s coordinates" % (fld, gname), ss <= grp and bool(ss), s.path, "metadata-group:" + fld,
                       where=pat.where(st2), detail="foreign read sites: %s" % sorted(fmt_source(x) for x in ss - grp))
    for bi2, t2, cb2 in R.local_callees(s):
        if cb2 in (sector, gauss, read, rd["ctor"]):
            continue
        for ai, a in enumerate(t2["args"]):
            ss = sites_of(a)
            if not ss:
                continue
            groups = [g for g, grp in (("sector", S_sec), ("lambda", S_lam), ("gauss", S_gau)) if ss & grp]
            if len(groups) > 1 and len(ss) and (ss <= S_sec or ss <= S_gau or ss <= S_lam) is False:
                # an argument mixing groups is legitimate only for values computed by the kernels themselves (v, momenta);
                # what must stay pure are the *inputs that name a group*: slices/vectors of scalars coming straight from a group routine
                r = Vals(s).root(a)
                if r.kind == "call" and R.body_of_callee(s.blocks[r.base[1]]["term"].get("callee")) in (sector, gauss):
                    ctx.ob("C14-c", "value handed from a group routine to %s is not mixed with another group" % norm_path(cb2.path), False, s.path,
                           "group-mixing", where=pat.where(t2), detail="argument %d mixes %s" % (ai, groups))
    # the vector handed to the momentum map as Gaussian input
    for bi2, t2, cb2 in R.local_callees(s):
        for ai, a in enumerate(t2["args"]):
            if a["k"] in ("copy", "move") and cb2 not in (sector, gauss, read):
                ss = sites_of(a)
                if ss and ss & S_gau and not ss <= S_gau:
                    pty = cb2.local_ty(ai + 1)
                    if "Vector" in pty and "[" in pty:
                        ctx.ob("C14-c", "Gaussian vectors passed to %s depend only on Gaussian coordinates" % norm_path(cb2.path), False, s.path,
                               "gaussian-input-mixed", where=pat.where(t2), detail="foreign sites %s" % sorted(fmt_source(x) for x in ss - S_gau))
    # the Box-Muller closure captures only the reader and non-scalar data
    for cb in f.closures_of(gauss.path):
        caps = cb.j.get("captures", [])
        bad = [c["name"] for c in caps if rd["adt"] not in c["ty"] and c["ty"] not in ("core::option::Option<&str>", "&str", "usize")]
        if any(True for _bi, _t, x in R.local_callees(cb) if x is read):
            ctx.ob("C14-c", "the reading closure has no loop-carried state other than the reader (captures %s)" % [c["name"] for c in caps], not bad,
                   cb.path, "bm-closure-captures", detail="captures %s" % bad)
    # lambda: sources of the quantile's p argument
    q = R.quantile()
    for bi, t, cb in R.local_callees(s):
        if cb is q:
            a = t["args"][1]
            srcs = d["close"](("n", a["place"]["l"], None)) if a["k"] in ("copy", "move") else set()
            sites = [x for x in srcs if x[0] == "site"]
            ok = len(sites) == 1 and sites[0][1] == s.key and not [x for x in srcs if x[0] in ("flag", "param")]
            ctx.ob("C14-c", "lambda's probability depends on exactly one read site, in sample itself", ok, s.path, "lambda-provenance", where=pat.where(t),
                   detail="sources %s" % sorted(fmt_source(x) for x in srcs))
    # d: every read result is used
    n_sites = 0
    for key, b in f.mir.items():
        v = Vals(b)
        for bi, t, cb in R.local_callees(b):
            if cb is not read:
                continue
            n_sites += 1
            dl = t["dest"]["l"]
            used = False
            for bj, blk in enumerate(b.blocks):
                if blk["cleanup"]:
                    continue
                for st in blk["stmts"]:
                    if st["k"] == "assign":
                        rv = st["rv"]
                        for k2 in ("op", "a", "b"):
                            o = rv.get(k2)
                            if isinstance(o, dict) and o.get("k") in ("copy", "move") and o["place"]["l"] == dl:
                                used = True
                        if rv.get("place", {}).get("l") == dl:
                            used = True
                        for o in rv.get("ops", []):
                            if o.get("k") in ("copy", "move") and o["place"]["l"] == dl:
                                used = True
                t2 = blk["term"]
                if t2["k"] == "call":
                    for a in t2["args"]:
                        if a["k"] in ("copy", "move") and a["place"]["l"] == dl:
                            used = True
            ctx.ob("C14-d", "value read at %s (%s) is used" % (pat.where(t), norm_path(b.path)), used, b.path, "read-value-unused", where=pat.where(t),
                   detail="a coordinate is consumed and its value dropped")
    ctx.ob("C14-d", "read sites found: %d (>= 5: edge, xi, lambda, two Box-Muller)" % n_sites, n_sites >= 5, "*", "read-site-floor")


def rule_ef(ctx, R, sector, gauss_site, scan_site):
    f = ctx.facts
    ctx.rule("C14-e", "group order: the sector call dominates the lambda read, which dominates the Gaussian routine; no other callee of sample can reach a read")
    ctx.rule("C14-f", "read counts: sector loop — one xi read, only when the graph is non-empty after removal; lambda read outside loops on every Ok "
                      "path; exactly two reads per Box-Muller invocation, each on every path")
    s, rd, read, q = R.sample(), R.reader_adt(), R.read_fn(), R.quantile()
    gbi, gt, gauss = gauss_site
    idom = cfg.dominators(s)
    sec_sites = [bi for bi, t, cb in R.local_callees(s) if cb is sector]
    lam_sites = [bi for bi, t, cb in R.local_callees(s) if cb is read]
    ok = len(sec_sites) == 1 and len(lam_sites) == 1 and cfg.dominates(idom, sec_sites[0], lam_sites[0]) and cfg.dominates(idom, lam_sites[0], gbi)
    ctx.ob("C14-e", "sector call -> lambda read -> Gaussian routine, by dominance", ok, s.path, "group-order",
           detail="sector sites %s, lambda read sites %s, gauss site bb%d" % (sec_sites, lam_sites, gbi))
    memo = {}
    others = [cb.path for bi, t, cb in R.local_callees(s) if cb not in (sector, gauss, read) and can_reach_read(R, cb, read, memo)]
    ctx.ob("C14-e", "no other callee of sample can reach a read", not others, s.path, "other-readers", detail="%s" % others)
    loops_s = cfg.loops(s)
    oks = [b for b, _si, _st in pat.result_ctor_sites(s, "Ok")]
    lam_ok = bool(lam_sites) and not any(lam_sites[0] in bl for _h, bl in loops_s) and all(cfg.dominates(idom, lam_sites[0], o) for o in oks)
    ctx.ob("C14-f", "lambda read is outside loops and on every path to Ok", lam_ok, s.path, "lambda-read-once")
    # sector: read sites
    v = Vals(sector)
    sites = [(bi, t) for bi, t, cb in R.local_callees(sector) if cb is read]
    sbi = scan_site[0]
    from .c06 import feeding_read_block
    fb = feeding_read_block(v, R, read, scan_site[1]["args"][scan_site[3]])
    feeds_scan = [bi for bi, t in sites if bi == fb]
    xi = [(bi, t) for bi, t in sites if bi not in feeds_scan]
    ok = len(sites) == 2 and len(feeds_scan) == 1 and len(xi) == 1
    ctx.ob("C14-f", "sector routine has exactly two read sites: the scan's uniform and xi", ok, sector.path, "sector-read-sites",
           detail="%d read sites, %d feeding the scan" % (len(sites), len(feeds_scan)))
    if len(xi) == 1:
        xbi, xt = xi[0]
        # every path from the removal (`graph = graph_without_edge`) to the xi read crosses the false edge of is_empty(graph)
        empties = []
        for sb, blk in enumerate(sector.blocks):
            if blk["term"]["k"] != "switch":
                continue
            c = v.classify_bool(blk["term"]["discr"])
            if c and c[0] == "call" and idroles.is_role(ctx, c[1], "is_empty"):
                gr = v.root(c[1]["args"][0])
                te, fe = bool_edges(sector, sb)
                empties.append((sb, fe, gr))
        lps = cfg.loops(sector)
        inner = [bl for _h, bl in lps if xbi in bl]
        guard = False
        det = "no is_empty(graph) test found"
        if empties and len(inner) == 1:
            gl = empties[0][2]
            assigns = [bi for bi, si, st in pat.stmts(sector) if gl.kind == "local" and st["place"]["l"] == gl.base[1] and not st["place"]["p"] and bi in inner[0]]
            avoid = frozenset((sb, fe) for sb, fe, gr in empties if gr == gl)
            guard = bool(assigns)
            for a_ in assigns:
                if xbi in sector.reachable_from(a_, avoid_edges=avoid):
                    guard = False
                    det = "xi read reachable from the removal at bb%d without an emptiness test of the remaining graph" % a_
        if not guard and len(inner) == 1:
            # alternative idiom: the iteration is entered only with >= 2 edges (loop condition !is_empty and has_one_edge false edge)
            acd = cfg.transitive_control_deps(sector, acyclic=True)
            for (sb, tgt) in acd[xbi]:
                c = v.classify_bool(sector.blocks[sb]["term"]["discr"])
                if c and c[0] == "call" and idroles.is_role(ctx, c[1], "has_one_edge"):
                    te_, fe_ = bool_edges(sector, sb)
                    if tgt == fe_:
                        guard = True
                        det = "guarded by has_one_edge(graph) == false before the removal (>= 2 edges, so one remains)"
        ctx.ob("C14-f", "xi is read only when the graph is non-empty after the removal, once per iteration", guard and len(inner) == 1, sector.path,
               "xi-read-guard", where=pat.where(xt), detail="%s; enclosing loops: %d" % (det, len(inner)))
    # Box-Muller closure(s): two reads on every path
    for cb in f.closures_of(gauss.path):
        rs = [(bi, t) for bi, t, x in R.local_callees(cb) if x is read]
        if not rs:
            continue
        ctx.fn(cb.path)
        cidom = cfg.dominators(cb)
        rets = cb.return_blocks()
        ok = len(rs) == 2 and all(cfg.dominates(cidom, bi, r) for bi, _t in rs for r in rets) and not cfg.loops(cb)
        ctx.ob("C14-f", "Box-Muller invocation performs exactly two reads, on every path", ok, cb.path, "bm-two-reads", detail="%d read sites" % len(rs))
    direct = [bi for bi, t, x in R.local_callees(gauss) if x is read]
    ctx.ob("C14-f", "the Gaussian routine reads only inside the pair closure", not direct, gauss.path, "gauss-direct-reads")


def run(ctx):
    R = ctx.roles
    try:
        sector, scan_site = find_scan(ctx, R)
        gauss_site = find_gauss(ctx, R)
    except RoleLost as e:
        return ctx.lost("C14", str(e))
    rule_a(ctx, R)
    rule_b(ctx, R)
    rule_cd(ctx, R, sector, gauss_site)
    rule_ef(ctx, R, sector, gauss_site, scan_site)
    from .kernels import run_c14g, run_c14h, run_c14i
    run_c14g(ctx)
    run_c14h(ctx)
    run_c14i(ctx)
    # every Gaussian coordinate reaches exactly one component: the consumer takes one element of the pair stream per component
    # (restated from C13-c: a vector that is built once and cloned L times leaves coordinates unread and others in several components)
    from .kernels import consumption_nest
    ctx.rule("C14-j", "the Gaussian block is consumed one element per component, loop-major (component (l,i) is element l·D+i): no element feeds two "
                      "components, none is left unread")
    try:
        consumption_nest(ctx, gauss_site[2], "C14-j")
    except RoleLost as e:
        ctx.note("C14-j: restated clause skipped — %s" % e)
    from . import common
    ctx.rule("C14-k", "the coordinates read are the caller's: the x-space entry hands its point to the sampling routine unmodified")
    common.entry_forwards_inputs(ctx, R, "C14-k")
    # … and the λ coordinate reaches the quantile routine as read (a clamp in the wrapper makes λ constant on part of its coordinate's range)
    from .c12 import wrapper_forwards
    wrapper_forwards(ctx, R, "C14-k")

    # λ (and every other quantity drawn from a coordinate) is a function of that coordinate alone: no per-thread / per-process state may
    # enter (a warm start of the quantile iteration from the previous call's root makes λ depend on the previous point).  Restated from
    # C17-c / C17-d.
    from .restate import run_restated
    run_restated(ctx, [("C17", {"C17-c": "no static mut / thread_local / non-Freeze static in the crate",
                                "C17-d": "no ambient-state callee reachable from the sampling entries"})])
