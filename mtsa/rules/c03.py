"""C03 — table contents: code ≡ formula clauses (kernel engine)."""
from .kernels import run_c03


def run(ctx):
    run_c03(ctx)
    # "every accepted graph's table" is the table of THIS graph built with THIS D: nothing outside the arguments may enter (a cache of
    # tables keyed without D hands a D=3 table to a D=4 sampler), and what build_sampler stores is the builder's table itself
    # (restated from C17-c / C17-d and C05-b)
    from .restate import run_restated
    run_restated(ctx, [("C17", {"C17-c": "no static mut / thread_local / non-Freeze static in the crate",
                                "C17-d": "no ambient-state callee reachable from build_sampler and the sampling entries"}),
                       ("C05", {"C05-b": "build_sampler: the Ok table is moved unmodified into the sampler, with the const parameter D as dimension"})])
