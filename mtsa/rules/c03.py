"""C03 — table contents: code ≡ formula clauses (kernel engine)."""
from .kernels import run_c03


def run(ctx):
    run_c03(ctx)
