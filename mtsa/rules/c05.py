"""C05 — build_sampler rejects exactly the graphs with a divergent proper subgraph (structural clauses).

a. table builder: the scan runs over 0..2^E with no skipping adapter; on every iteration the test `gdod <= 0` is evaluated on the
   very local that is stored in the entry; Err is returned exactly under that test and the two exemptions (empty, full);
b. build_sampler forwards the Err and moves the Ok table unmodified into the sampler; the dimension is the const parameter;
c. determinism: no ambient-state callee reachable from build_sampler; hash-order isolation.
"""
from ..vals import Vals, callee_is, bool_edges, norm_path, Root
from ..roles import RoleLost
from .. import pat, cfg
from ..f64facts import const_f64
from . import common
from .. import idroles
from .c17 import reachable_bodies, DENIED_PREFIXES

PID = "C05"
SKIPPING = ("filter", "filter_map", "skip", "skip_while", "step_by", "take", "take_while", "rev", "chain", "cycle", "flat_map", "flatten",
            "dedup", "unique", "zip", "peekable", "scan", "map_while", "fuse", "interleave")


def table_builder(R):
    bs = R.build_sampler()
    cands = []
    for bi, t, cb in R.local_callees(bs):
        rty = cb.local_ty(0)
        if rty.startswith("core::result::Result<"):
            cands.append((bi, t, cb))
    if len(cands) != 1:
        from ..roles import builds_adt
        raise RoleLost("table builder: callee of build_sampler returning a Result (found %d)" % len(cands), wanted=builds_adt("SampleGenerator"))
    return bs, cands[0]


def rule_a(ctx, R, tb):
    ctx.rule("C05-a", "table builder: loop over 0..2^E with no skipping adapter; `gdod <= 0` tested on every iteration on the local stored "
                      "in the entry; return Err exactly under that test and the exemptions is_empty(subset), subset == full")
    f = ctx.facts
    fn = tb.path
    ctx.fn(fn)
    v = Vals(tb)
    errs = pat.result_ctor_sites(tb, "Err")
    if len(errs) != 1:
        return ctx.ob("C05-a", "exactly one Err return in the table builder", False, fn, "err-return-count", detail="found %d" % len(errs))
    ebi, esi, est = errs[0]
    heads = common.loop_next_sites(tb, v)
    lps = cfg.loops(tb)
    head = None
    for h in heads:
        nbb, sbb, some_t, none_t, nt = h
        body_blocks = tb.reachable_from(some_t, avoid=frozenset([nbb]))
        if ebi in body_blocks:
            head = h
    if head is None:
        return ctx.lost("C05-a", "the subset loop containing the Err return", fn)
    nbb, sbb, some_t, none_t, nt = head
    # --- loop source
    it_root = v.root(nt["args"][0])
    chain = []
    cur = it_root
    for _ in range(10):
        tt = v.call_term(cur)
        if tt is None and cur.kind == "local" and not cur.path:
            defs = [x for x in v.defs.get(cur.base[1], []) if not tb.blocks[x[1]]["cleanup"]]
            if len(defs) == 1 and defs[0][0] == "stmt" and defs[0][3]["k"] == "use":
                cur = v.root(defs[0][3]["op"])
                continue
            if len(defs) == 1 and defs[0][0] == "call":
                tt = defs[0][2]
        if tt is None:
            break
        chain.append(tt)
        cur = v.root(tt["args"][0]) if tt["args"] else None
        if cur is None:
            break
    names = [c["callee"].get("name") for c in chain]
    rng = v.rvalue_of(cur) if cur is not None and cur.kind == "local" else None
    # the other way to visit every subset id once, in order: `table.iter_mut().enumerate()` over the table of 2^E entries allocated
    # here (`vec![none; 2^E]`) — the index plays the loop variable, rewritten as the range 0..len for the checks below
    enum_index = False
    core_names = [n for n in names if n not in ("into_iter", "deref", "deref_mut", "as_mut_slice", "as_mut", "borrow_mut")]
    if core_names[:3] == ["enumerate", "iter_mut", "from_elem"]:
        ft = [c for c in chain if c["callee"].get("name") == "from_elem"][0]
        names = [n for n in names if n in ("into_iter", "enumerate", "iter_mut")]
        if len(ft["args"]) >= 2:
            rng = {"k": "aggregate", "adt": "core::ops::range::Range", "fields": ["start", "end"],
                   "ops": [{"k": "const", "int": "0", "ty": "usize"}, ft["args"][1]]}
            enum_index = True
    src_ok = rng is not None and rng["k"] == "aggregate" and rng.get("adt", "").endswith("range::Range")
    skipping = [n for n in names if n in SKIPPING]
    lo_ok = hi_ok = False
    hi_desc = "?"
    if src_ok:
        lo = rng["ops"][rng["fields"].index("start")]
        hi = rng["ops"][rng["fields"].index("end")]
        lo_ok = lo["k"] == "const" and lo.get("int") == "0"
        hr = v.root(hi)
        ht = v.call_term(hr)
        if ht is None and hr.kind == "local":
            dd = v.single_def(hr.base[1])
            if dd and dd[0] == "call":
                ht = dd[2]
        if ht is not None and ht["callee"].get("name") == "pow" and ht["args"][0]["k"] == "const" and ht["args"][0].get("int") == "2":
            er = v.root(ht["args"][1])
            hi_desc = "2.pow(%r)" % (er,)
            # exponent: cast of topology.len()
            rv = v.rvalue_of(er) if er.kind == "local" else None
            if rv is not None and rv["k"] == "cast":
                er = v.root(rv["op"])
            et = v.call_term(er)
            if et is None and er.kind == "local":
                dd = v.single_def(er.base[1])
                if dd and dd[0] == "call":
                    et = dd[2]
            if et is not None and et["callee"].get("name") == "len":
                lr = v.root(et["args"][0])
                hi_ok = lr.kind == "arg" and lr.path[-1:] == ("topology",)
                hi_desc = "2.pow(len(%r))" % (lr,)
        elif hr.kind == "local":
            rv = v.rvalue_of(hr)
            if rv is not None and rv["k"] == "binop" and rv["op"] in ("Shl", "ShlUnchecked") and rv["a"]["k"] == "const" and rv["a"].get("int") == "1":
                hi_desc = "1 << %r" % (v.root(rv["b"]),)
                hi_ok = True
    ctx.ob("C05-a", "subset loop iterates Range{0, 2^E} (adapters %s, bound %s)" % (names, hi_desc), src_ok and lo_ok and hi_ok and not skipping, fn,
           "subset-loop-source", where=pat.where(nt),
           detail="range source=%s start==0:%s bound==2^len(topology):%s skipping adapters:%s" % (src_ok, lo_ok, hi_ok, skipping))
    # element -> subgraph id by an index-preserving closure
    maps = [c for c in chain if c["callee"].get("name") == "map"]
    for mc in maps:
        cr = v.root(mc["args"][1])
        rv = v.rvalue_of(cr) if cr.kind == "local" else None
        ok = False
        if rv is not None and rv["k"] == "aggregate" and rv["agg"] == "closure":
            cb = f.mir.get(rv["closure"])
            if cb is not None:
                vc = Vals(cb)
                for bi, t in cb.calls():
                    if t["dest"]["l"] == 0:
                        callee_b = R.body_of_callee(t.get("callee"))
                        a0 = vc.root(t["args"][0])
                        if callee_b is not None and a0.kind == "arg" and a0.base[1] == 2:
                            # callee builds {id: arg1, ..}
                            vcb = Vals(callee_b)
                            for bj, sj, st in pat.aggregates(callee_b, "TropicalSubGraphId"):
                                rvv = st["rv"]
                                if "id" in rvv["fields"]:
                                    ir = vcb.root(rvv["ops"][rvv["fields"].index("id")])
                                    ok = ir.kind == "arg" and ir.base[1] == 1 and not ir.path
        ctx.ob("C05-a", "loop element i is turned into the subset with id == i", ok, fn, "subset-id-identity", where=pat.where(mc))
    # --- the test
    body_blocks = tb.reachable_from(some_t, avoid=frozenset([nbb]))
    tcd = cfg.transitive_control_deps(tb, acyclic=True)
    deps = set(e for e in tcd[ebi] if e[0] in body_blocks)
    loopvar = v.root_place({"l": nt["dest"]["l"], "p": []}).with_path(("as:Some", "0"))
    if enum_index:
        loopvar = loopvar.with_path(("0",))      # (index, &mut entry): the index is the subset id

    def is_loop_subset(r):
        """the loop element itself (mapped iterator of ids) or the id built from the loop index by the from_id role"""
        if r == loopvar:
            return True
        t_ = v.call_term(r)
        if t_ is None and r.kind == "local" and not r.path:
            dd_ = v.single_def(r.base[1])
            if dd_ and dd_[0] == "call":
                t_ = dd_[2]
        return t_ is not None and idroles.is_role(ctx, t_, "from_id") and bool(t_["args"]) and v.root(t_["args"][0]) == loopvar
    kinds = {}
    unknown = []
    test = None
    for (sb, tgt) in sorted(deps):
        t = tb.blocks[sb]["term"]
        c = v.classify_bool(t["discr"])
        te, fe = bool_edges(tb, sb)
        if c and c[0] == "binop" and c[1]["op"] in ("Le", "Lt", "Ge", "Gt", "Eq", "Ne"):
            rv = c[1]
            ca, cbv = const_f64(rv["a"]), const_f64(rv["b"])
            if cbv is not None and cbv == 0.0:
                x, op = v.root(rv["a"]), rv["op"]
            elif ca is not None and ca == 0.0:
                x, op = v.root(rv["b"]), {"Le": "Ge", "Lt": "Gt", "Ge": "Le", "Gt": "Lt"}.get(rv["op"], rv["op"])
            else:
                unknown.append("f64 comparison against a non-zero constant at %s" % pat.where(tb.blocks[sb]["stmts"][-1] if tb.blocks[sb]["stmts"] else t))
                continue
            # classes of the tested value that take the edge towards Err: negative values must, positive ones must not
            # (`<= 0`, `< 0`, `!(x > 0)`, `!(x >= 0)` all qualify: values within 1e-9 of zero are outside the statement's iff)
            from ..f64facts import _cond_classes, NEG, POS, PINF
            cc = _cond_classes(v, c, x)
            good = False
            if cc is not None:
                err_set = cc[0] if tgt == te else cc[1]
                pass_set = cc[1] if tgt == te else cc[0]
                good = NEG in err_set and NEG not in pass_set and POS not in err_set and PINF not in err_set
            kinds["test"] = (sb, x, op, good)
            test = (sb, x, op, good)
        elif c and c[0] == "call" and idroles.is_role(ctx, c[1], "is_empty"):
            r = v.root(c[1]["args"][0])
            kinds["empty"] = (sb, is_loop_subset(r) and tgt == fe)
        elif c and c[0] == "call" and callee_is(c[1], trait="PartialEq", name=("ne", "eq")):
            r0, r1 = v.root(c[1]["args"][0]), v.root(c[1]["args"][1])
            other = r1 if is_loop_subset(r0) else (r0 if is_loop_subset(r1) else None)
            full_ok = False
            if other is not None:
                ot = v.call_term(other)
                if ot is None and other.kind == "local":
                    dd = v.single_def(other.base[1])
                    if dd and dd[0] == "call":
                        ot = dd[2]
                if ot is not None:
                    fb = R.body_of_callee(ot.get("callee"))
                    full_ok = fb is not None and is_full_id_ctor(ctx, R, fb)
            want = te if c[1]["callee"]["name"] == "ne" else fe
            kinds["full"] = (sb, full_ok and tgt == want)
        elif c and c[0] == "discr" and sb == sbb:
            continue
        else:
            unknown.append("switch at bb%d (%s)" % (sb, c[0] if c else "?"))
    ctx.ob("C05-a", "Err is returned under the test gdod <= 0 (true edge)", test is not None and test[3], fn, "divergence-test-direction",
           where=pat.where(est), detail="found %s" % (("%s on %r, Err on %s edge" % (test[2], test[1], "true" if test[3] else "other")) if test else "no comparison of a value against 0.0 controls the Err return"))
    ex_empty, ex_full, ex_none = kinds.get("empty", (0, False))[1], kinds.get("full", (0, False))[1], not unknown
    how = ""
    if not (ex_empty and ex_full and ex_none):
        # the exemptions may be folded into a named boolean (`let proper = !empty && != full; if proper && gdod <= 0`): then the CFG
        # switches on a local, and the condition is decided on the typed HIR instead — its boolean structure must be exactly the
        # conjunction test ∧ ¬empty ∧ ≠full
        ok_t, why_t = exemptions_on_thir(ctx)
        if ok_t:
            ex_empty = ex_full = ex_none = True
            how = " [decided on the typed HIR: %s]" % why_t
        else:
            unknown.append("typed-HIR condition: %s" % why_t)
    ctx.ob("C05-a", "exemption: the empty subset (is_empty(loop subset) false edge)" + how, ex_empty, fn, "exemption-empty", where=pat.where(est))
    ctx.ob("C05-a", "exemption: the full graph (subset != full id)" + how, ex_full, fn, "exemption-full", where=pat.where(est))
    ctx.ob("C05-a", "no further condition guards the Err return" + how, ex_none, fn, "extra-exemption", where=pat.where(est),
           detail="additional conditions on the path to Err: %s" % unknown)
    if test is not None:
        sb, x, op, good = test
        # same local stored
        stored = None
        for bi, si, st in pat.stmts(tb):
            flds = [e for e in st["place"]["p"] if e["k"] == "field"]
            whole = st["rv"]["k"] == "aggregate" and st["rv"].get("agg") == "adt" and "generalized_dod" in (st["rv"].get("fields") or []) and bi in body_blocks
            if whole or (flds and flds[-1]["name"] == "generalized_dod" and bi in body_blocks):
                o = st["rv"]["ops"][st["rv"]["fields"].index("generalized_dod")] if whole else st["rv"].get("op")
                r = v.deep_root(o) if o and o["k"] in ("copy", "move") else None
                if r is not None:
                    rvv = v.rvalue_of(r)
                    if rvv is not None and rvv["k"] == "aggregate" and rvv.get("variant") == "Some":
                        r = v.root(rvv["ops"][0])
                stored = r
        ctx.ob("C05-a", "the tested value (%r) is the one stored as the entry's generalized_dod (%r)" % (x, stored), stored is not None and stored == x, fn,
               "tested-value-is-stored", detail="test on %r, stored %r" % (x, stored))
        # evaluated on every iteration
        exempt_edges = set()
        for key in ("empty", "full"):
            if key in kinds and kinds[key][1]:
                esb = kinds[key][0]
                # the exempting edge is the one NOT leading towards Err
                for (dsb, dtgt) in deps:
                    if dsb == esb:
                        for sx in tb.succs()[esb]:
                            if sx != dtgt:
                                exempt_edges.add((esb, sx))
        r = tb.reachable_from(some_t, avoid=frozenset([sb]), avoid_edges=frozenset(exempt_edges))
        ctx.ob("C05-a", "on every iteration path the test is evaluated unless the subset is exempt" + how, nbb not in r or bool(how), fn, "test-every-iteration",
               detail="a path from the loop head back to the loop head avoids both the test and the exemptions")


def exemptions_on_thir(ctx):
    """The condition under which the table builder returns Err, as a boolean tree from the kernel engine's evaluation of the builder:
    it must be equivalent to (tested value <= 0 | < 0) ∧ (subset not empty) ∧ (subset != full id), with no other atom."""
    from .kernels import table_world
    from ..kern import boolean
    from ..kern.interp import Opt
    try:
        tw = table_world(ctx)
    except Exception as e:
        return False, "table builder not summarised (%s)" % e
    if getattr(tw, "error", None) or not hasattr(tw, "I"):
        return False, "table builder not summarised (%s)" % getattr(tw, "error", "?")
    exits = [(c, g) for c, v_, g in tw.I.early_conds if isinstance(v_, Opt) and v_.some is False]
    if len(exits) != 1:
        return False, "%d error exits in the summarised builder" % len(exits)
    if exits[0][1]:
        return False, "the error exit sits under index guards %s: it is not evaluated for every subset" % (exits[0][1],)
    tree = exits[0][0].tree
    atoms = []

    def collect(t):
        if t[0] in ("and", "or"):
            collect(t[1]); collect(t[2])
        elif t[0] == "not":
            collect(t[1])
        else:
            atoms.append(t)
    collect(tree)
    test = nonempty = nonfull = None
    for a in atoms:
        txt = boolean.normal_text(a)
        if a[0] == "cmp" and a[1] in ("Le", "Lt") and str(a[3]).strip() == "0":
            test = a
        elif a[0] == "cmp" and a[1] in ("Ge", "Gt") and str(a[2]).strip() == "0":
            test = a
        elif a[0] == "cmp" and a[1] in ("Ne", "Eq") and ("graph(full)" in (str(a[2]), str(a[3]))):
            nonfull = a if a[1] == "Ne" else ("not", a)
        elif a[0] == "atom" and " Ne graph(full)" in txt:
            nonfull = a
        elif a[0] == "atom" and " Eq graph(full)" in txt:
            nonfull = ("not", a)
        elif a[0] == "atom" and ("!=«0»" in txt or "«0»!=" in txt):
            nonempty = a
        elif a[0] == "atom" and (txt.endswith("=«0»") or txt.startswith("«0»=") or txt.startswith("empty(")):
            nonempty = ("not", a)
        else:
            return False, "a condition outside {test, empty, full} guards the Err return: %s" % txt[:120]
    if test is None or nonempty is None or nonfull is None:
        return False, "missing %s in the Err condition" % [n for n, x in (("test", test), ("¬empty", nonempty), ("≠full", nonfull)) if x is None]
    want = ("and", test, ("and", nonempty, nonfull))
    try:
        ok, why = boolean.prop_equiv(tree, want)
    except boolean.NotComparable as e:
        return False, "not comparable (%s)" % e
    return ok, ("Err condition ≡ test ∧ ¬empty ∧ ≠full; " + why) if ok else ("Err condition is not the conjunction test ∧ ¬empty ∧ ≠full: " + why)


def is_full_id_ctor(ctx, R, fb):
    """get_full_subgraph_id: returns new(len(topology)) i.e. id with all bits set."""
    for bi, t, cb in R.local_callees(fb):
        if t["dest"]["l"] == 0:
            for bj, sj, st in pat.aggregates(cb, "TropicalSubGraphId"):
                return True
    return False


def rule_b(ctx, R, bs, site):
    ctx.rule("C05-b", "build_sampler: `?` on the table builder (Err never reaches Ok); the Ok table is moved unmodified into the sampler; "
                      "the dimension handed to both builders is the const parameter")
    bi, t, tb = site
    fn = bs.path
    ctx.fn(fn)
    v = Vals(bs)
    ok, why = common.err_never_reaches_ok(bs, v, bi)
    ctx.ob("C05-b", "Err of the table builder never reaches Ok(sampler)", ok, fn, "builder-err-discipline", where=pat.where(t), detail=why)
    from .c12 import unwrap_result_chain
    for bj, sj, st in pat.aggregates(bs, "SampleGenerator"):
        rv = st["rv"]
        op = rv["ops"][rv["fields"].index("table")]
        rr, tt = unwrap_result_chain(bs, v, v.root(op))
        ctx.ob("C05-b", "SampleGenerator.table is the builder's Ok payload, unmodified", tt is t, fn, "table-moved-unmodified", where=pat.where(st),
               detail="table field root %r" % (rr,))
    # every Ok(..) that build_sampler returns carries the sampler assembled HERE from this call's table and this call's signature
    # (a sampler fetched from anywhere else — a cache, a registry, a default — is some other call's)
    aggs = list(pat.aggregates(bs, "SampleGenerator"))
    oks = pat.result_ctor_sites(bs, "Ok")
    for bj, sj, st in oks:
        rv = st["rv"]
        r0 = v.root(rv["ops"][0]) if rv.get("ops") else None
        local_agg = (r0 is not None and r0.kind == "local" and not r0.path and v.single_def(r0.base[1]) is not None
                     and any(a_[2]["place"]["l"] == r0.base[1] and not a_[2]["place"]["p"] for a_ in aggs))
        ctx.ob("C05-b", "the Ok payload is the SampleGenerator assembled in build_sampler", bool(local_agg), fn, "ok-payload-built-here",
               where=pat.where(st), detail="Ok payload root %r" % (r0,))
    ctx.ob("C05-b", "build_sampler has an Ok(..) return and assembles a SampleGenerator", bool(oks) and bool(aggs), fn, "ok-payload-floor")
    for bj, sj, st in aggs:
        rv = st["rv"]
        if "loop_signature" in rv["fields"]:
            rs = v.root(rv["ops"][rv["fields"].index("loop_signature")])
            is_par = rs.kind == "arg" and not rs.path
            ctx.ob("C05-b", "SampleGenerator.loop_signature is build_sampler's own parameter, unmodified", is_par, fn, "signature-is-parameter",
                   where=pat.where(st), detail="loop_signature field root %r" % (rs,))
        else:
            ctx.lost("C05-b", "field loop_signature of SampleGenerator", fn)
    for bj, t2, cb in R.local_callees(bs):
        for ai, a in enumerate(t2["args"]):
            if cb.local_ty(ai + 1) == "usize":
                is_param = a["k"] == "const" and ("tyconst" in a or "D" == a.get("disp", "").replace("const ", "").strip())
                ctx.ob("C05-b", "dimension argument of %s is the const parameter" % norm_path(cb.path), is_param, fn, "dimension-is-const-param",
                       where=pat.where(t2), detail="argument %s" % (a.get("disp") if a["k"] == "const" else "not a constant"))


def rule_c(ctx, R, bs):
    ctx.rule("C05-c", "determinism: no ambient-state callee reachable from build_sampler; hash-iteration order reaches only verified commutative reducers")
    order, ext = reachable_bodies(ctx, R, [bs])
    bad = []
    for b, bi, t in ext:
        c = t["callee"]
        for name in (c.get("resolved") or c["path"], c["path"]):
            if any(name.startswith(d) for d in DENIED_PREFIXES):
                bad.append("%s calls %s" % (norm_path(b.path), name))
                break
    ctx.ob("C05-c", "no denied callee among %d external call sites in %d bodies reachable from build_sampler" % (len(ext), len(order)),
           not bad and len(order) >= 15, bs.path, "denied-callee", detail="; ".join(bad) or "too few bodies")
    common.hash_order_isolation(ctx, R, "C05-c", [bs])


def rule_e(ctx, R, bs, tb):
    """`error iff divergent`: the divergence test of the table builder (C05-a) must be the ONLY way to an Err."""
    ctx.rule("C05-e", "Err census: among all bodies reachable from build_sampler the only construction of an Err is the table builder's "
                      "divergence Err (C05-a); build_sampler itself and every other callee construct none")
    order, _ext = reachable_bodies(ctx, R, [bs])
    n_tb = 0
    for b in order:
        vb = Vals(b)
        for bi, si, st in pat.result_ctor_sites(b, "Err"):
            if b is tb:
                n_tb += 1
                continue
            # propagation by re-construction: `Err(e) => return Err(e)` / Err(From::from(e)) of the builder's own Err payload
            pr = vb.root(st["rv"]["ops"][0]) if st["rv"].get("ops") else None
            for _ in range(3):
                ct = vb.call_term(pr) if pr is not None else None
                if ct is not None and callee_is(ct, trait=("From", "Into"), name=("from", "into")):
                    pr = vb.root(ct["args"][0])
                else:
                    break
            if pr is not None and pr.kind == "call" and pr.path[:1] == ("as:Err",):
                src = R.body_of_callee(b.blocks[pr.base[1]]["term"].get("callee"))
                if src is tb:
                    continue
            ctx.ob("C05-e", "no Err besides the divergence test", False, b.path, "extra-err-site", where=pat.where(st),
                   detail="an Err is constructed in %s: build_sampler can now fail for a graph whose proper subsets are all convergent "
                          "(the statement allows an error only for a divergent subset)" % norm_path(b.path))
    ctx.ob("C05-e", "Err constructions on the build path: %d in the table builder, none elsewhere (%d bodies)" % (n_tb, len(order)),
           n_tb == 1 and len(order) >= 15, bs.path, "err-census-floor")


def run(ctx):
    R = ctx.roles
    try:
        bs, site = table_builder(R)
    except RoleLost as e:
        return ctx.lost("C05", str(e))
    rule_a(ctx, R, site[2])
    rule_b(ctx, R, bs, site)
    rule_c(ctx, R, bs)
    rule_e(ctx, R, bs, site[2])
    # d: the value the divergence test looks at is the generalised degree of divergence of the statement
    ctx.rule("C05-d", "the tested/stored value is [i≠∅]·(Σ_{e∈i} w_e − ℓ(i)·D/2 − [spanning(i)]·dod) + [i=∅]·1 with spanning(·) the conjunction of the statement "
                      "(kernel engine; graph routines abstracted)")
    from .kernels import gdod_clause, run_c03_flags, run_c03_loops, guarded_clause
    guarded_clause(ctx, "C05-d", site[2].path, "generalized-dod", lambda: gdod_clause(ctx, "C05-d", site[2]))
    run_c03_flags(ctx, "C05-d")
    run_c03_loops(ctx, "C05-d")
    # the overall degree of divergence that is subtracted for spanning subsets, and the L it contains, are the graph's
    from .kernels import graph_dod_clause
    ctx.rule("C05-f", "the ω(G) subtracted for spanning subsets is Σ_e w_e − L·D/2 with L the loop-number routine's value on all edges (sum over components)")
    guarded_clause(ctx, "C05-f", "preprocessing::TropicalGraph::from_graph", "graph-dod", lambda: graph_dod_clause(ctx, "C05-f", topology=True))
    if ctx.cfg == "default":
        from ..fixtures import detectors_alive
        ctx.rule("C05-z", "positive examples: ambient-callee and hash-order detectors fire on fixtures/")
        detectors_alive(ctx, "C05-z", {"denied", "hash", "err-site"})
