"""C20 — vector and f64 scalar primitives implement their componentwise definitions.

a. impl MomTropFloat for f64: every trait method is exactly the like-named std function on *self (constants by bit pattern);
b. Vector operators are componentwise with equal indices, dot/squared accumulate forward from zero (kernel engine, see kernels).
"""
import struct

from ..vals import Vals, callee_is, norm_path, Root
from .. import pat

PID = "C20"
UNARY = ("ln", "exp", "cos", "sin", "sqrt", "abs")
CONSTS = {"PI": 0x400921FB54442D18, "zero": 0x0, "one": 0x3FF0000000000000}


def only_block_call(body):
    cs = [(bi, t) for bi, t in body.calls()]
    return cs[0] if len(cs) == 1 else None


def is_self_value(v, op, argi=1):
    r = v.root(op)
    return r.kind == "arg" and r.base[1] == argi and not r.path


def override_equals_default_quietly(f, m, b):
    from ..kern.interp import Interp, Num, Undecided
    from ..kern.expr import Expr
    dflt = [p_ for p_, fi in f.fns.items() if fi.get("name") == m and not fi.get("impl_self") and p_.endswith("MomTropFloat::" + m)]
    if len(dflt) != 1:
        return False
    try:
        args = [Num(Expr.symbol("x%d" % i)) for i in range(b.arg_count)]
        got = Interp(f).run_fn(b.path, list(args))
        want = Interp(f).run_fn(dflt[0], list(args))
        return isinstance(got, Num) and isinstance(want, Num) and got.expr == want.expr
    except Exception:
        return False


def override_matches_default(ctx, f, trait, m, b):
    """Evaluate the provided body and the f64 override on symbolic arguments (trait operators and f64's +,-,*,/ are the same single
    rounded operations; any other std function is an atom named by its path) and require equal results."""
    from ..kern.interp import Interp, Num, Undecided
    from ..kern.expr import Expr
    from .kernels import compare, guarded_clause
    dflt = [p_ for p_, fi in f.fns.items() if fi.get("name") == m and not fi.get("impl_self") and p_.endswith("MomTropFloat::" + m)]

    def body():
        if len(dflt) != 1:
            raise Undecided("provided body of MomTropFloat::%s not found (%d candidates)" % (m, len(dflt)))
        n = b.arg_count
        args = [Num(Expr.symbol("x%d" % i)) for i in range(n)]
        got = Interp(f).run_fn(b.path, list(args))
        want = Interp(f).run_fn(dflt[0], list(args))
        if not (isinstance(got, Num) and isinstance(want, Num)):
            raise Undecided("override / provided body of %s does not evaluate to a scalar" % m)
        compare(ctx, "C20-a", "f64 override of the provided method %s equals the provided body" % m, got.expr, want.expr, b.path,
                "f64-override:" + m, {}, ())
    guarded_clause(ctx, "C20-a", b.path, "f64-override:" + m, body)


def run(ctx):
    f = ctx.facts
    ctx.rule("C20-a", "impl MomTropFloat for f64: each of the trait's methods is the like-named std f64 function on *self "
                      "(inv = 1/x, from_isize an int->float cast, from_f64/to_f64 identity, PI/zero/one by bit pattern)")
    tr = [t for t in f.items["traits"] if t["path"].endswith("MomTropFloat")]
    if len(tr) != 1:
        return ctx.lost("C20-a", "trait MomTropFloat")
    methods = [i["name"] for i in tr[0]["items"] if i["is_fn"]]
    seen = 0
    vec_used = set()
    for vb in f.mir.values():
        if "vector::Vector" in ((f.fns.get(vb.path) or {}).get("impl_self") or ""):
            for body in [vb] + list(f.closures_of(vb.path)):
                for _bi, t in body.calls():
                    c = t.get("callee") or {}
                    if str(c.get("trait") or "").endswith("MomTropFloat"):
                        vec_used.add(c.get("name"))
    for m in methods:
        key = "<f64 as float::MomTropFloat>::%s" % m
        cands = [b for b in f.mir.values() if (f.fns.get(b.path) or {}).get("impl_self") == "f64"
                 and (f.fns.get(b.path) or {}).get("impl_trait", "").endswith("MomTropFloat") and (f.fns.get(b.path) or {}).get("name") == m]
        if len(cands) != 1:
            has_default = [i for i in tr[0]["items"] if i["name"] == m and i.get("has_default")]
            if has_default:
                # provided method not overridden for f64: its default body is generic code, judged by C19
                ctx.ob("C20-a", "f64::%s uses the trait's provided body" % m, True, key, "f64-method:" + m)
                continue
            ctx.lost("C20-a", "impl of MomTropFloat::%s for f64" % m, key)
            continue
        b = cands[0]
        seen += 1
        ctx.fn(b.path)
        if [i for i in tr[0]["items"] if i["name"] == m and i.get("has_default")]:
            # the f64 impl OVERRIDES a provided method: generic callers are decided (C20-b, kernels) on the provided body, so for T = f64
            # the override has to be the same sequence of correctly rounded operations — a fused or reassociated std shortcut is not.
            # Equal to the provided body: accepted outright.  Not equal (or not decidable): a violation where a Vector primitive calls the
            # method (a restating property filters by what its own code calls); elsewhere the like-named-std rule below applies.
            if override_equals_default_quietly(f, m, b):
                ctx.ob("C20-a", "f64 override of the provided method %s equals the provided body" % m, True, b.path, "f64-override:" + m)
                continue
            if m in vec_used or hasattr(ctx, "_keep"):
                override_matches_default(ctx, f, tr[0], m, b)
                continue
        v = Vals(b)
        ok, det = False, ""
        n_calls = len(list(b.calls()))
        loops_or_branches = any(blk["term"]["k"] == "switch" for blk in b.blocks if not blk["cleanup"])
        if m in UNARY:
            c = only_block_call(b)
            if c:
                t = c[1]
                cal = t["callee"]
                ok = (cal.get("name") == m and cal.get("impl_self") == "f64" and cal.get("crate") in ("std", "core") and len(t["args"]) == 1
                      and is_self_value(v, t["args"][0]) and t["dest"]["l"] == 0)
                det = "calls %s" % cal["path"]
        elif m == "powf":
            c = only_block_call(b)
            if c:
                t = c[1]
                cal = t["callee"]
                ok = (cal.get("name") == "powf" and cal.get("impl_self") == "f64" and cal.get("crate") in ("std", "core") and len(t["args"]) == 2
                      and is_self_value(v, t["args"][0], 1) and is_self_value(v, t["args"][1], 2) and t["dest"]["l"] == 0)
                det = "calls %s" % cal["path"]
        elif m in ("from_f64", "to_f64"):
            argi = 2 if m == "from_f64" else 1
            st = [s for bi, si, s in pat.stmts(b) if s["place"]["l"] == 0 and not s["place"]["p"]]
            ok = n_calls == 0 and len(st) == 1 and st[0]["rv"]["k"] == "use" and is_self_value(v, st[0]["rv"]["op"], argi)
            det = "returns %r" % (v.root(st[0]["rv"]["op"]) if st and st[0]["rv"]["k"] == "use" else None)
        elif m == "from_isize":
            st = [s for bi, si, s in pat.stmts(b) if s["place"]["l"] == 0 and not s["place"]["p"]]
            ok = (n_calls == 0 and len(st) == 1 and st[0]["rv"]["k"] == "cast" and st[0]["rv"]["kind"] == "IntToFloat" and st[0]["rv"]["ty"] == "f64"
                  and is_self_value(v, st[0]["rv"]["op"], 2))
            # the cast source must be the isize itself (no narrowing through i32/f32)
            if ok:
                src = st[0]["rv"]["op"]
                ok = b.local_ty(src["place"]["l"]) == "isize"
            det = "cast %s" % (st[0]["rv"].get("kind") if st else None)
        elif m == "inv":
            c = only_block_call(b)
            if c:
                t = c[1]
                if callee_is(t, trait="Div", name="div") and len(t["args"]) == 2:
                    a0 = t["args"][0]
                    ok = (a0["k"] == "const" and a0.get("bits") == str(CONSTS["one"]) and is_self_value(v, t["args"][1]) and t["dest"]["l"] == 0
                          and (t["callee"].get("self_ty") == "f64"))
                    det = "Div::div(%s, self)" % a0.get("disp")
                elif t["callee"].get("name") == "recip" and t["callee"].get("impl_self") == "f64":
                    ok = is_self_value(v, t["args"][0])
                    det = "recip"
            else:
                st = [s for bi, si, s in pat.stmts(b) if s["place"]["l"] == 0 and not s["place"]["p"]]
                if len(st) == 1 and st[0]["rv"]["k"] == "binop" and st[0]["rv"]["op"] == "Div":
                    a0 = st[0]["rv"]["a"]
                    ok = a0["k"] == "const" and a0.get("bits") == str(CONSTS["one"]) and is_self_value(v, st[0]["rv"]["b"])
                    det = "Div(1.0, self)"
        elif m in CONSTS:
            st = [s for bi, si, s in pat.stmts(b) if s["place"]["l"] == 0 and not s["place"]["p"]]
            if n_calls == 0 and len(st) == 1 and st[0]["rv"]["k"] == "use" and st[0]["rv"]["op"]["k"] == "const":
                bits = st[0]["rv"]["op"].get("bits")
                ok = bits is not None and int(bits) == CONSTS[m]
                det = "constant bits %s (expected %d)" % (bits, CONSTS[m])
        else:
            # a method the table does not know: accepted when it is the like-named std f64 function applied to *self and the other
            # parameters in order (the general rule the table entries are instances of)
            c = only_block_call(b)
            if c:
                t = c[1]
                cal = t["callee"]
                args_ok = len(t["args"]) == b.arg_count and all(is_self_value(v, a, i + 1) for i, a in enumerate(t["args"]))
                ok = cal.get("name") == m and cal.get("impl_self") == "f64" and cal.get("crate") in ("std", "core") and args_ok and t["dest"]["l"] == 0
                det = "calls %s" % cal["path"]
        ok = ok and not loops_or_branches
        ctx.ob("C20-a", "f64::%s is the std function / exact constant" % m, ok, b.path, "f64-method:" + m,
               where=pat.where(b.blocks[0]["term"]) if b.blocks else None, detail=det or "unexpected body shape")
    ctx.ob("C20-a", "all %d trait methods examined (%d f64 bodies)" % (len(methods), seen), seen >= 14 or seen == len([m for m in methods]), "f64",
           "f64-method-floor")
    from .kernels import run_c20b
    run_c20b(ctx)
