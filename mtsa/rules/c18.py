"""C18 — serde round trip restores an identically sampling sampler (structural, whole).

Decided on the GENERATED code of the derives (inert #[serde(..)] attributes are not in HIR):
a. every type reachable by fields from SampleGenerator has automatically-derived Serialize and Deserialize impls;
b. derived `serialize` emits exactly one serialize_field per struct field, in order, unconditionally, with `&self.<field>`;
c. derived visitor reads exactly the struct's fields with their own types, no defaults, and builds the struct from them;
   names agree between the two directions;
d. leaf field types are primitives / std containers whose impls come from serde itself, or local types covered by a-c;
e. cross-check against the post-expansion AST attribute scan.
"""
from ..vals import Vals, callee_is, norm_path
from ..roles import RoleLost
from .. import pat, cfg

PID = "C18"
ROOT = "SampleGenerator"
VALUE_PRESERVING = {"rename", "rename_all", "alias", "deny_unknown_fields", "bound", "crate", "expecting"}
STD_CONTAINERS = ("alloc::vec::Vec", "std::vec::Vec", "core::option::Option", "std::option::Option",
                  "alloc::boxed::Box", "std::boxed::Box", "alloc::string::String", "std::string::String",
                  "alloc::collections::btree::map::BTreeMap", "alloc::collections::btree::set::BTreeSet", "alloc::collections::vec_deque::VecDeque",
                  "std::collections::hash::map::HashMap", "std::collections::hash::set::HashSet", "core::marker::PhantomData",
                  "std::hash::random::RandomState", "core::ops::range::Range", "core::result::Result")
PRIMS = {"f64", "f32", "usize", "isize", "u8", "u16", "u32", "u64", "u128", "i8", "i16", "i32", "i64", "i128", "bool", "char", "str"}


def reachable_adts(ctx):
    facts = ctx.facts
    adts = facts.adts
    root = [p for p in adts if p == ROOT or p.endswith("::" + ROOT)]
    if len(root) != 1:
        return None, None
    seen, order, leaves = set(), [], []
    work = [root[0]]

    def walk_ty(ts, via):
        t = facts.ty(ts)
        if not t:
            leaves.append((ts, via, "unknown"))
            return
        k = t["k"]
        if k == "prim":
            if t["name"] not in PRIMS:
                leaves.append((ts, via, "prim?"))
            return
        if k == "adt":
            if t["path"] in adts:
                work.append(t["path"])
                return
            if t["path"] in STD_CONTAINERS:
                for a in t["args"]:
                    if a["k"] == "ty" and a["t"] not in ("alloc::alloc::Global", "std::alloc::Global"):
                        walk_ty(a["t"], via)
                return
            leaves.append((ts, via, "foreign-adt"))
            return
        if k in ("array", "slice", "ref"):
            walk_ty(t["t"], via)
            return
        if k == "tuple":
            for x in t["ts"]:
                walk_ty(x, via)
            return
        leaves.append((ts, via, k))

    while work:
        p = work.pop()
        if p in seen:
            continue
        seen.add(p)
        order.append(p)
        for v in adts[p]["variants"]:
            for f in v["fields"]:
                walk_ty(f["ty"], "%s.%s" % (p, f["name"]))
    return order, leaves


def const_str(op):
    if op["k"] == "const" and op.get("ty") == "&str":
        d = op.get("disp", "")
        # disp looks like: const "name"
        i, j = d.find('"'), d.rfind('"')
        if i >= 0 and j > i:
            return d[i + 1:j]
    return None


def eval_usize(v, op, depth=0):
    """Tiny constant evaluator for the struct-length expression `false as usize + 1 + 1 ..`."""
    if depth > 40:
        return None
    if op["k"] == "const":
        if "int" in op:
            return int(op["int"])
        if op.get("ty") == "bool" and "bits" in op:
            return int(op["bits"])
        return None
    pl = op["place"]
    d = v.single_def(pl["l"])
    if not d or d[0] != "stmt":
        return None
    rv = d[3]
    fields = [e for e in pl["p"] if e["k"] == "field"]
    if rv["k"] == "binop" and rv["op"] in ("AddWithOverflow", "Add"):
        if rv["op"] == "AddWithOverflow" and not (fields and fields[0]["name"] == "0"):
            return None
        a, b = eval_usize(v, rv["a"], depth + 1), eval_usize(v, rv["b"], depth + 1)
        return None if a is None or b is None else a + b
    if fields:
        return None
    if rv["k"] == "use":
        return eval_usize(v, rv["op"], depth + 1)
    if rv["k"] == "cast":
        return eval_usize(v, rv["op"], depth + 1)
    return None


def garg_types(callee):
    return [a["t"] for a in callee["gargs"] if a["k"] == "ty"]


def find_impl_bodies(ctx, adt_path):
    """Return dict with the derived bodies for adt_path: serialize, visit_map, visit_seq."""
    out = {}
    f = ctx.facts
    self_ty = f.adts[adt_path]["self_ty"]
    for key, b in f.mir.items():
        fi = f.fns.get(b.path)
        if not fi:
            continue
        if fi.get("impl_self") == self_ty and fi.get("impl_trait", "").endswith("Serialize") and fi["name"] == "serialize":
            out["serialize"] = b
            out["serialize_derived"] = fi.get("impl_derived")
        if fi.get("impl_self") == self_ty and fi.get("impl_trait", "").endswith("Deserialize") and fi["name"] == "deserialize":
            out["deserialize"] = b
            out["deserialize_derived"] = fi.get("impl_derived")
    if "deserialize" in out:
        prefix = out["deserialize"].path
        for key, b in f.mir.items():
            fi = f.fns.get(b.path)
            if not fi or not fi.get("impl_trait", "").endswith("Visitor"):
                continue
            if prefix + "::__Visitor" in fi.get("impl_self", ""):
                if fi["name"] in ("visit_map", "visit_seq"):
                    out[fi["name"]] = b
    return out


def check_struct(ctx, adt_path):
    f = ctx.facts
    adt = f.adts[adt_path]
    fields = adt["variants"][0]["fields"]
    fnames = [x["name"] for x in fields]
    ftys = [x["ty"] for x in fields]
    bodies = find_impl_bodies(ctx, adt_path)
    short = adt_path
    for tr in ("serialize", "deserialize"):
        ctx.ob("C18-a", "%s has a derived %s impl" % (short, tr.capitalize()), bodies.get(tr) is not None and bodies.get(tr + "_derived") is True,
               short, "derived-%s" % tr,
               detail="impl %s for %s is %s" % (tr.capitalize(), short, "missing" if tr not in bodies else "hand-written (not #[automatically_derived]): needs a semantic argument this checker does not have"))
    ser = bodies.get("serialize")
    ser_names = None
    if ser is not None and bodies.get("serialize_derived"):
        ctx.fn(ser.path)
        v = Vals(ser)
        sf = [(bi, t) for bi, t in ser.calls() if callee_is(t, trait="SerializeStruct", name="serialize_field")]
        skip = [(bi, t) for bi, t in ser.calls() if callee_is(t, trait="SerializeStruct", name="skip_field")]
        ends = [(bi, t) for bi, t in ser.calls() if callee_is(t, trait="SerializeStruct", name="end")]
        ss = [(bi, t) for bi, t in ser.calls() if callee_is(t, trait="Serializer", name="serialize_struct")]
        idom = cfg.dominators(ser)
        # order along domination chain
        sf_sorted = sorted(sf, key=lambda x: sum(1 for y in sf if cfg.dominates(idom, y[0], x[0])))
        names = [const_str(t["args"][1]) for bi, t in sf_sorted]
        ser_names = names
        vals_ok, dom_ok, ty_ok = True, True, True
        det = []
        for i, (bi, t) in enumerate(sf_sorted):
            r = v.root(t["args"][2])
            exp = fnames[i] if i < len(fnames) else None
            if not (r.kind == "arg" and r.base[1] == 1 and r.path == (exp,)):
                vals_ok = False
                det.append("serialize_field #%d (%r) serialises %r, expected &self.%s" % (i, names[i], r, exp))
            gt = garg_types(t["callee"])
            if i < len(ftys) and (len(gt) < 2 or gt[-1] != ftys[i]):
                ty_ok = False
                det.append("serialize_field #%d is instantiated at %s, field type is %s" % (i, gt[-1] if gt else "?", ftys[i]))
            for ebi, et in ends:
                if not cfg.dominates(idom, bi, ebi):
                    dom_ok = False
                    det.append("serialize_field %r does not dominate end(): the field is serialised conditionally" % names[i])
        ctx.ob("C18-b", "%s::serialize: one serialize_field per field, in order (%s)" % (short, names),
               len(sf) == len(fields) and not skip and len(ends) >= 1 and len(set(names)) == len(names) and None not in names, short,
               "serialize-field-count", where=pat.where(ser.blocks[0]["term"]),
               detail="%d serialize_field calls for %d fields, %d skip_field calls, names %s" % (len(sf), len(fields), len(skip), names))
        ctx.ob("C18-b", "%s::serialize: each call passes &self.<that field> with the field's own type, unconditionally" % short,
               vals_ok and dom_ok and ty_ok, short, "serialize-field-values", detail="; ".join(det) or None)
        ln = None
        if len(ss) == 1:
            ln = eval_usize(v, ss[0][1]["args"][2])
        ctx.ob("C18-b", "%s::serialize: serialize_struct length == number of fields (%s)" % (short, ln), ln == len(fields), short,
               "serialize-struct-len", detail="length argument evaluates to %s, struct has %d fields" % (ln, len(fields)))
    vm = bodies.get("visit_map")
    de_names = None
    if bodies.get("deserialize") is not None and bodies.get("deserialize_derived"):
        ctx.ob("C18-c", "%s: derived visitor with visit_map and visit_seq exists" % short, vm is not None and bodies.get("visit_seq") is not None,
               short, "visitor-exists", detail="no plain struct visitor generated (from/try_from/flatten/transparent style derive?)")
    if vm is not None:
        ctx.fn(vm.path)
        v = Vals(vm)
        mf = [(bi, t) for bi, t in vm.calls() if t.get("callee") and t["callee"].get("name") == "missing_field"]
        nv = [(bi, t) for bi, t in vm.calls() if callee_is(t, trait="MapAccess", name=("next_value", "next_value_seed"))]
        dflt = [(bi, t) for bi, t in vm.calls() if callee_is(t, trait="Default", name="default")]
        mf_pairs = sorted((const_str(t["args"][0]), garg_types(t["callee"])[0]) for bi, t in mf)
        nv_types = sorted(garg_types(t["callee"])[-1] for bi, t in nv if not garg_types(t["callee"])[-1].endswith("IgnoredAny"))
        ctx.ob("C18-c", "%s::visit_map: no Default::default (no serde default/skip_deserializing)" % short, not dflt, short, "visit-map-no-default",
               detail="Default::default called %d times in the derived visit_map" % len(dflt))
        ctx.ob("C18-c", "%s::visit_map: next_value::<Ty> instances equal the field types" % short, nv_types == sorted(ftys), short,
               "visit-map-value-types", detail="next_value types %s vs field types %s" % (nv_types, sorted(ftys)))
        # struct aggregate: field i is fed by missing_field::<ty_i>(name_i)
        aggs = [(bi, si, s) for bi, si, s in pat.aggregates(vm, adt_path)]
        names_by_field = {}
        agg_ok = len(aggs) == 1
        det = []
        if agg_ok:
            rv = aggs[0][2]["rv"]
            for fi_, fname in enumerate(rv["fields"]):
                op = rv["ops"][fi_]
                r = v.root(op)
                srcs = set()
                if r.kind == "local":
                    for d in v.defs.get(r.base[1], []):
                        if d[0] == "stmt" and d[3]["k"] == "use":
                            srcs.add(v.root(d[3]["op"]))
                        elif d[0] == "call":
                            srcs.add(("call", d[1]))
                else:
                    srcs.add(r)
                found = None
                for s_ in srcs:
                    base = s_ if not hasattr(s_, "base") else s_
                    # payload of Try::branch(missing_field(..)) or direct
                    rr = s_
                    if hasattr(rr, "path") and len(rr.path) >= 2 and rr.path[-2] == "as:Continue":
                        from ..vals import Root
                        rr = Root(rr.base, rr.path[:-2])
                    t = v.call_term(rr) if hasattr(rr, "kind") else None
                    if t is not None and callee_is(t, trait="Try", name="branch"):
                        t = v.call_term(v.root(t["args"][0]))
                    if t is not None and t.get("callee") and t["callee"].get("name") == "missing_field":
                        found = (const_str(t["args"][0]), garg_types(t["callee"])[0])
                if found is None:
                    agg_ok = False
                    det.append("field %s of the rebuilt struct is not fed by a missing_field fallback (default / skipped field?)" % fname)
                else:
                    names_by_field[fname] = found[0]
                    if found[1] != ftys[fnames.index(fname)]:
                        agg_ok = False
                        det.append("field %s is deserialised as %s, declared %s" % (fname, found[1], ftys[fnames.index(fname)]))
        ctx.ob("C18-c", "%s::visit_map: struct rebuilt from exactly its fields' values (missing_field set %s)" % (short, mf_pairs),
               agg_ok and len(mf) == len(fields) and sorted(p[1] for p in mf_pairs) == sorted(ftys), short, "visit-map-rebuild",
               detail="; ".join(det) or "missing_field instances %s vs fields %s" % (mf_pairs, list(zip(fnames, ftys))))
        de_names = [names_by_field.get(n) for n in fnames]
    vs = bodies.get("visit_seq")
    if vs is not None:
        ctx.fn(vs.path)
        ne = [(bi, t) for bi, t in vs.calls() if callee_is(t, trait="SeqAccess", name=("next_element", "next_element_seed"))]
        idom = cfg.dominators(vs)
        ne_sorted = sorted(ne, key=lambda x: sum(1 for y in ne if cfg.dominates(idom, y[0], x[0])))
        tys = [garg_types(t["callee"])[-1] for bi, t in ne_sorted]
        dflt = [(bi, t) for bi, t in vs.calls() if callee_is(t, trait="Default", name="default")]
        ctx.ob("C18-c", "%s::visit_seq: next_element::<Ty> sequence equals the field types in order" % short, tys == ftys and not dflt, short,
               "visit-seq-types", detail="next_element types %s vs field types %s; Default::default calls %d" % (tys, ftys, len(dflt)))
    if ser_names is not None and de_names is not None:
        ctx.ob("C18-c", "%s: serialised names equal deserialised names per field (%s)" % (short, ser_names), ser_names == de_names, short,
               "ser-de-names-agree", detail="serialize uses %s, deserialize expects %s" % (ser_names, de_names))


def run(ctx):
    ctx.rule("C18-a", "every type reachable by fields from SampleGenerator has #[automatically_derived] Serialize and Deserialize impls")
    ctx.rule("C18-b", "derived serialize: serialize_field once per field, in order, `&self.field`, own type, dominating end(); length = #fields")
    ctx.rule("C18-c", "derived visitor: value types = field types, no Default::default, struct rebuilt from those values; names agree with serialize")
    ctx.rule("C18-d", "leaf field types are primitives / std containers (serde's own impls) or local types covered by a-c")
    ctx.rule("C18-e", "post-expansion AST: no #[serde(..)] key outside the value-preserving set on these items")
    order, leaves = reachable_adts(ctx)
    if order is None:
        return ctx.lost("C18-a", "struct SampleGenerator")
    n_fields = 0
    for p in order:
        adt = ctx.facts.adts[p]
        if adt["kind"] != "Struct":
            bodies = find_impl_bodies(ctx, p)
            ctx.ob("C18-a", "%s (enum) has derived Serialize/Deserialize" % p,
                   bodies.get("serialize_derived") is True and bodies.get("deserialize_derived") is True, p, "derived-enum")
            continue
        n_fields += len(adt["variants"][0]["fields"])
        check_struct(ctx, p)
    ctx.note("serialised types: %d (%s), fields: %d" % (len(order), ", ".join(order), n_fields))
    ctx.ob("C18-d", "all leaf field types are primitives or std containers (%d foreign leaves)" % len(leaves), not leaves, ROOT, "leaf-types",
           detail="field types whose Serialize/Deserialize impls are outside serde's own and outside this crate: %s" % leaves)
    # e: AST attribute cross-check
    aa = ctx.facts.d.get("astattrs")
    if aa is None:
        ctx.lost("C18-e", "post-expansion AST attribute scan missing from the fact file")
    else:
        shorts = set(p.split("::")[-1] for p in order)
        bad = []
        seen_items = 0
        for e in aa:
            last = e["item"].split("::")[-1]
            if last not in shorts:
                continue
            seen_items += 1
            for a in e["attrs"]:
                if a["path"] == "serde":
                    for k in a["keys"]:
                        if k not in VALUE_PRESERVING:
                            bad.append("%s %s: #[serde(%s)]" % (e["item"], e.get("field", e.get("variant", "")), k))
        ctx.ob("C18-e", "no value-changing #[serde(..)] attribute on the %d scanned items/fields" % seen_items, not bad and seen_items > 0, ROOT,
               "ast-serde-attrs", detail="; ".join(bad) or "no items scanned")
    # "samples identically" also needs the restored sampler's behaviour to be a function of the restored fields only: no per-process /
    # per-thread state that a getter or the sampling entries consult (a thread-local cache keyed by a buffer address survives the
    # original and is hit by the restored table).  Restated from C17-b/c/d.
    from .restate import run_restated
    run_restated(ctx, [("C17", {"C17-b": "no interior mutability anywhere in the sampler's type",
                                "C17-c": "no static mut / thread_local / non-Freeze static in the crate",
                                "C17-d": "no ambient-state callee reachable from the sampling entries and getters"})])
