"""C17 — sampling is a pure function of its arguments (structural, whole).

a. sampling API takes the sampler/table by shared reference;
b. deep type walk: nothing reachable from SampleGenerator<D> is or contains UnsafeCell;
c. crate census: no static mut / non-Freeze static / thread_local / user unsafe;
d. no denied (ambient-state) callee reachable from the sampling entries or get_dimension; stdout only under print_debug_info;
e. hash-order isolation;
f. flag noninterference (explicit + control dependence) for the numeric result fields and the Ok/Err outcome;
g. generate_sample_from_rng == draw get_dimension() numbers, then generate_sample_from_x_space_point on them;
h. a fresh reader is built from the slice argument on every call of sample;
i. (thorough) SampleGenerator<3>: Send + Sync compiles (witness crate).
"""
import os
import subprocess

from ..vals import Vals, callee_is, bool_edges, norm_path
from ..roles import RoleLost
from ..flow import Flow, fmt_source
from .. import pat, cfg, core
from . import common
from .c19 import debug_guarded_blocks

PID = "C17"

DENIED_PREFIXES = (
    "std::time::", "std::env::", "std::thread::", "std::process::", "std::fs::", "std::net::", "std::sync::", "core::sync::atomic::",
    "core::cell::", "std::cell::", "std::os::", "rand::rngs::thread::", "rand::thread_rng", "rand::random", "rand::rngs::os::",
    "getrandom::", "std::io::stdio::stdin", "std::io::stdio::stderr", "std::collections::hash::map::RandomState::new",
    "std::hash::random::RandomState::new", "core::intrinsics::atomic", "std::alloc::System", "std::panic::catch_unwind",
    "std::thread_local", "std::sys::thread_local",
)
STDOUT = ("std::io::stdio::_print", "std::io::stdio::_eprint", "std::io::stdio::print_to")
NUMERIC_FIELDS = ("loop_momenta", "u_trop", "v_trop", "u", "v", "jacobian")


def reachable_bodies(ctx, R, roots):
    f = ctx.facts
    seen, order = set(), []
    work = list(roots)
    ext = []
    while work:
        b = work.pop()
        if b.key in seen:
            continue
        seen.add(b.key)
        order.append(b)
        for bi, t in b.calls():
            c = t.get("callee")
            if not c:
                continue
            cb = R.body_of_callee(c)
            if cb is not None:
                work.append(cb)
            else:
                ext.append((b, bi, t))
        for cb in f.closures_of(b.path):
            work.append(cb)
    return order, ext


def rule_abc(ctx, R):
    f = ctx.facts
    ctx.rule("C17-a", "every pub fn of SampleGenerator and `sample` take the sampler / table by shared reference")
    ctx.rule("C17-b", "deep type walk from SampleGenerator<D>: no UnsafeCell (interior mutability) anywhere, through foreign private fields too")
    ctx.rule("C17-c", "crate census: no static mut, no non-Freeze static, no thread_local, no user-written unsafe block/fn/impl")
    n = 0
    for fn in f.items["fns"]:
        ist = fn.get("impl_self") or ""
        if not ist.startswith("SampleGenerator<") or fn.get("impl_trait"):
            continue
        if not fn.get("has_self"):
            continue
        n += 1
        t0 = f.ty(fn["inputs"][0]) or {}
        ctx.ob("C17-a", "%s takes &self" % norm_path(fn["path"]), t0.get("k") == "ref" and not t0.get("mut"), fn["path"], "self-by-shared-ref",
               detail="receiver type %s" % fn["inputs"][0])
    ctx.ob("C17-a", "SampleGenerator methods found (>= 5, found %d)" % n, n >= 5, "SampleGenerator", "method-floor")
    try:
        s = R.sample()
        targs = common.arg_of_type(f, s, lambda tt, ts: common.ty_is_ref_to_adt(f, ts, "TropicalSubgraphTable"))
        ok = len(targs) == 1 and not (f.ty(s.local_ty(targs[0])) or {}).get("mut")
        ctx.ob("C17-a", "sample takes the table by shared reference", ok, s.path, "table-by-shared-ref")
        muts = [l["ty"] for l in s.locals[1:s.arg_count + 1] if (f.ty(l["ty"]) or {}).get("k") == "ref" and (f.ty(l["ty"]) or {}).get("mut")]
        ctx.ob("C17-a", "sample has no &mut parameter", not muts, s.path, "no-mut-params", detail="&mut parameters: %s" % muts)
    except RoleLost as e:
        ctx.lost("C17-a", str(e))
    # b: deep walk
    tg = f.items["tygraph"]
    roots = [k for k in tg if k.startswith("SampleGenerator<")]
    if len(roots) != 1:
        ctx.lost("C17-b", "SampleGenerator<D> in the type graph")
    else:
        seen, st, bad = set(), [(roots[0], roots[0])], []
        while st:
            k, via = st.pop()
            if k in seen or k not in tg:
                continue
            seen.add(k)
            nd = tg[k]
            if nd.get("unsafe_cell") or nd.get("freeze") is False:
                bad.append("%s (reached via %s)" % (k, via))
            if nd.get("k") in ("dyn", "fnptr"):
                bad.append("%s: %s (opaque state)" % (k, nd["k"]))
            for name, ch in nd.get("children", []):
                st.append((ch, "%s.%s" % (k, name)))
        ctx.ob("C17-b", "no interior mutability in the %d types reachable from SampleGenerator<D>" % len(seen), not bad and len(seen) >= 10,
               roots[0], "interior-mutability", detail="; ".join(bad) or "only %d types walked" % len(seen))
        ctx.ob("C17-b", "type walk not truncated", "__truncated__" not in tg, roots[0], "walk-complete")
    # c: census
    for st_ in f.items["statics"]:
        ctx.ob("C17-c", "static %s is immutable, Freeze and not thread-local" % st_["path"],
               not st_["mut"] and st_["freeze"] and not st_["thread_local"], st_["path"], "static-state",
               detail="static %s: mut=%s freeze=%s thread_local=%s" % (st_["path"], st_["mut"], st_["freeze"], st_["thread_local"]))
    unsafe_fns = [fn["path"] for fn in f.items["fns"] if fn.get("unsafe")]
    unsafe_impls = [i["path"] for i in f.items["impls"] if i.get("unsafe") and not i.get("auto_derived")]
    unsafe_blocks = []

    def walk(e, fnpath):
        if isinstance(e, dict):
            if e.get("k") == "block" and e.get("unsafe") and "expn" not in (e.get("span") or {}):
                unsafe_blocks.append("%s at %s:%s" % (fnpath, (e.get("span") or {}).get("file"), (e.get("span") or {}).get("line")))
            for v_ in e.values():
                walk(v_, fnpath)
        elif isinstance(e, list):
            for x in e:
                walk(x, fnpath)

    for k, th in f.thir.items():
        walk(th["body"], k)
    ctx.ob("C17-c", "no unsafe fn / impl / block written in the crate (%d bodies scanned)" % len(f.thir),
           not unsafe_fns and not unsafe_impls and not unsafe_blocks, "*", "unsafe-code",
           detail="unsafe fns %s impls %s blocks %s" % (unsafe_fns, unsafe_impls, unsafe_blocks))
    ctx.ob("C17-c", "statics in the crate: %d" % len(f.items["statics"]), True, "*", "static-census")


def rule_d(ctx, R, roots):
    ctx.rule("C17-d", "no ambient-state callee (time, env, threads, atomics, cells, OS randomness, fs, net) reachable from the sampling "
                      "entries; stdout only inside blocks control-dependent on print_debug_info")
    order, ext = reachable_bodies(ctx, R, roots)
    for b in order:
        ctx.fn(b.path)
    bad = []
    n_print = 0
    for b, bi, t in ext:
        c = t["callee"]
        p = c.get("resolved") or c["path"]
        for name in (p, c["path"]):
            if any(name.startswith(d) for d in DENIED_PREFIXES):
                bad.append((b, t, name))
                break
        if any(p.startswith(s_) or c["path"].startswith(s_) for s_ in STDOUT):
            n_print += 1
            g = debug_guarded_blocks(ctx, b)
            ok = bi in g
            ctx.ob("C17-d", "stdout write in %s is under print_debug_info" % norm_path(b.path), ok, b.path, "stdout-unguarded", where=pat.where(t),
                   detail="printing outside a print_debug_info block")
    # statics / thread-locals referenced
    for b in order:
        for bi, si, s in pat.stmts(b):
            if s["rv"]["k"] == "tlsref":
                bad.append((b, s, "thread-local " + s["rv"]["def"]))
    for b, t, name in bad:
        ctx.ob("C17-d", "no ambient state", False, b.path, "denied-callee:" + norm_path(name), where=pat.where(t),
               detail="%s calls %s: sampling would depend on state outside its arguments" % (norm_path(b.path), name))
    if not bad:
        ctx.ob("C17-d", "no denied callee among %d external call sites in %d reachable bodies" % (len(ext), len(order)), len(order) >= 20, "*",
               "denied-callee", detail="only %d bodies reachable (expected >= 20)" % len(order))
    return order


def rule_f(ctx, R):
    ctx.rule("C17-f", "flag noninterference: no numeric result field nor the Ok/Err outcome depends (explicitly or through control) on "
                      "print_debug_info / return_metadata, in sample, the sector routine and the matrix routine")
    f = ctx.facts
    try:
        s = R.sample()
        rd = R.reader_adt()
        read = R.read_fn()
        dec = R.decompose()
    except RoleLost as e:
        return ctx.lost("C17-f", str(e))
    fl = Flow(f, R, reader_adt=rd["adt"], read_fn=read, follow_control=True)
    d = fl.deps_of(s)
    from .common import built_structs
    aggs = list(built_structs(f, R, s, "TropicalSampleResult"))
    if len(aggs) < 1:
        from ..roles import want, builds_adt
        want(builds_adt("TropicalSampleResult"))
        return ctx.lost("C17-f", "TropicalSampleResult aggregate in sample (found %d)" % len(aggs), s.path)
    # one aggregate per path that builds the result (an early exit without metadata builds it twice): every one is examined
    vs = Vals(s)

    def value_node(op):
        """The local in which the value was computed: plain copies / moves made on the way into the aggregate are looked through."""
        if op["k"] not in ("copy", "move"):
            return None
        r = vs.deep_root(op)
        if r.kind == "local":
            l_ = r.base[1]
        elif r.kind == "call":
            l_ = s.blocks[r.base[1]]["term"]["dest"]["l"]
        else:
            return None
        flds = [p_ for p_ in r.path if isinstance(p_, str) and not p_.startswith("as:")]
        if flds and flds[0] in d["fields_of"].get(l_, ()):
            return (l_, flds[0])
        return (l_, None)
    def merged_node(op, depth=0):
        """value_node, looking through a local that each arm of a branch assigns (as a tuple `(a, b) = if c {(x, y)} else {(x', y')}` or
        plainly): when every arm stores the SAME value (a copy / move / clone of one value computed before the branch), that value."""
        if op["k"] not in ("copy", "move") or depth > 4:
            return None
        r = vs.deep_root(op)
        if r.kind == "local":
            l_ = r.base[1]
            defs = [x for x in vs.defs.get(l_, []) if not s.blocks[x[1]]["cleanup"]]
            if len(defs) > 1 and not vs.partial.get(l_) and l_ not in vs.mut_borrowed and all(x[0] == "stmt" for x in defs):
                rvs = [x[3] for x in defs]
                idx = r.path[0] if r.path and isinstance(r.path[0], str) and r.path[0].isdigit() else None
                ops_ = None
                if idx is not None and len(r.path) == 1 and all(rv_["k"] == "aggregate" and rv_.get("agg") == "tuple" and int(idx) < len(rv_["ops"]) for rv_ in rvs):
                    ops_ = [rv_["ops"][int(idx)] for rv_ in rvs]
                elif not r.path and all(rv_["k"] == "use" for rv_ in rvs):
                    ops_ = [rv_["op"] for rv_ in rvs]
                if ops_ is not None:
                    nodes = set(merged_node(o_, depth + 1) for o_ in ops_)
                    if len(nodes) == 1 and None not in nodes:
                        return nodes.pop()
                    return None
        return value_node(op)
    # when the result is built on several paths and each field is a copy of ONE value computed before the paths split, the field is
    # the same whichever path runs: its dependences are those of that value, not of the copies made under the branch
    shared = {}
    if len(aggs) > 1:
        for fld in NUMERIC_FIELDS:
            nodes = set()
            for _bi, _si, st_ in aggs:
                rv_ = st_["rv"]
                nodes.add(value_node(rv_["ops"][rv_["fields"].index(fld)]) if fld in rv_["fields"] else None)
            if len(nodes) == 1 and None not in nodes:
                shared[fld] = nodes.pop()
    for bi, si, st in aggs:
        rv = st["rv"]
        for i, fld in enumerate(rv["fields"]):
            if fld not in NUMERIC_FIELDS:
                continue
            op = rv["ops"][i]
            srcs = set()
            if fld in shared:
                srcs = d["close"](("n", shared[fld][0], shared[fld][1]))
            elif op["k"] in ("copy", "move"):
                mn_ = merged_node(op)
                vn_ = value_node(op)
                if mn_ is not None and mn_ != vn_:
                    srcs = d["close"](("n", mn_[0], mn_[1]))      # every arm stores this one value
                else:
                    srcs = d["close"](("n", op["place"]["l"], None))
            flags = sorted(set(x[1] for x in srcs if x[0] == "flag"))
            ctx.ob("C17-f", "result field `%s` does not depend on a settings flag" % fld, not flags, s.path, "flag-dependence:" + fld,
                   where=pat.where(st), detail="field %s depends on settings.%s" % (fld, flags))
        seen_fields = [x for x in rv["fields"] if x in NUMERIC_FIELDS]
        ctx.ob("C17-f", "all %d numeric result fields examined" % len(NUMERIC_FIELDS), len(seen_fields) == len(NUMERIC_FIELDS), s.path,
               "numeric-fields-floor", detail="found %s" % seen_fields)
    # Ok / Err outcome: constructor blocks not control-dependent on a flag-tainted switch
    for body in [s, dec] + [cb for _bi, _t, cb in R.local_callees(s) if cb not in (dec,)]:
        dd = fl.deps_of(body)
        tcd = cfg.transitive_control_deps(body)
        v = Vals(body)
        kind_of = {}
        for b, _si, _s in pat.result_ctor_sites(body, "Ok"):
            kind_of[b] = "Ok"
        for b, _si, _s in pat.result_ctor_sites(body, "Err"):
            kind_of[b] = "Err"
        for b in pat.panic_blocks(body):
            kind_of[b] = "panic"
        ctor_blocks = list(kind_of)

        def same_single_outcome(sb):
            """Both arms of the switch lead to one and the same kind of outcome (e.g. Ok with / without metadata): the flag selects
            which constructor runs, not what the outcome is."""
            kinds = []
            for sx in body.succs()[sb]:
                reach = body.reachable_from(sx)
                kinds.append(frozenset(kind_of[b_] for b_ in kind_of if b_ in reach))
            return len(set(kinds)) == 1 and len(kinds[0]) == 1
        for cbk in ctor_blocks:
            for (sb, tgt) in tcd[cbk]:
                t = body.blocks[sb]["term"]
                if t["k"] != "switch" or t["discr"]["k"] not in ("copy", "move"):
                    continue
                if same_single_outcome(sb):
                    continue
                # drop-flag switches are not data
                srcs = dd["close"](("n", t["discr"]["place"]["l"], None))
                flags = sorted(set(x[1] for x in srcs if x[0] == "flag"))
                if flags:
                    ctx.ob("C17-f", "Ok/Err/panic outcome independent of flags", False, body.path, "outcome-depends-on-flag", where=pat.where(t),
                           detail="the outcome constructed in bb%d of %s is control-dependent on settings.%s" % (cbk, norm_path(body.path), flags))
    ctx.ob("C17-f", "outcome constructors examined in sample, the matrix routine and the kernels", True, "*", "outcome-floor")


def rule_g(ctx, R):
    ctx.rule("C17-g", "generate_sample_from_rng returns exactly generate_sample_from_x_space_point(self, drawn numbers, edge_data, settings); "
                      "the numbers are repeat_with(|| from_f64(rng.gen::<f64>())).take(get_dimension()).collect()")
    f = ctx.facts
    try:
        e2, e1, gd = R.rng_entry(), R.xspace_entry(), R.get_dimension()
    except RoleLost as e:
        return ctx.lost("C17-g", str(e))
    ctx.fn(e2.path)
    v = Vals(e2)
    sites = [(bi, t) for bi, t, cb in R.local_callees(e2) if cb is e1]
    ed = [l["i"] for l in e2.locals[1:e2.arg_count + 1] if l["ty"].startswith("alloc::vec::Vec<") or ("Option<" in l["ty"] and "Vector" in l["ty"])]
    if len(sites) == 1:
        bi, t = sites[0]
        r0 = v.root(t["args"][0])
        ctx.ob("C17-g", "forwards self", r0.kind == "arg" and r0.base[1] == 1 and not r0.path, e2.path, "rng-entry-self", where=pat.where(t))
        # edge_data param: Vec<(Option<T>, Vector)>
        r2 = v.root(t["args"][2])
        ctx.ob("C17-g", "forwards the caller's edge_data", len(ed) == 1 and r2.kind == "arg" and r2.base[1] == ed[0] and not r2.path, e2.path,
               "rng-entry-edge-data", where=pat.where(t), detail="argument root %r" % (r2,))
        slice_op = t["args"][1]
    else:
        # sibling form: both entries hand over to the same sampling routine (a shared private delegate, inlined here): the two calls
        # must agree argument by argument — what the x-space entry derives from self / edge_data / settings, this entry derives the same
        # way from its own parameters of the same type — and the point is the only argument that differs
        try:
            s_ = R.sample()
        except RoleLost as e:
            return ctx.lost("C17-g", str(e))
        v1 = Vals(e1)
        c1 = [(bi, t) for bi, t, cb in R.local_callees(e1) if cb is s_]
        c2 = [(bi, t) for bi, t, cb in R.local_callees(e2) if cb is s_]
        if len(c1) != 1 or len(c2) != 1 or len(c1[0][1]["args"]) != len(c2[0][1]["args"]):
            return ctx.lost("C17-g", "call of the x-space entry (or of the same sampling routine) in generate_sample_from_rng", e2.path)
        t1, (bi, t) = c1[0][1], c2[0]
        slice_op = None
        agree, det_ = True, []
        def same_value(r1_, r2_, depth=0):
            """The two roots (one per entry) denote the same thing: corresponding parameters (same type / both self / both the edge data)
            with the same projection, equal constants, or calls of the same function on corresponding arguments (`v.as_slice()`)."""
            if r1_.kind == "arg" and r2_.kind == "arg":
                ty1_, ty2_ = e1.local_ty(r1_.base[1]), e2.local_ty(r2_.base[1])
                return r1_.path == r2_.path and (ty1_ == ty2_ or (r1_.base[1] == 1 and r2_.base[1] == 1) or ("Option<" in ty1_ and "Option<" in ty2_))
            if r1_.kind == "const" and r2_.kind == "const":
                return r1_.base == r2_.base
            if r1_.kind == "call" and r2_.kind == "call" and depth < 4 and r1_.path == r2_.path:
                ta, tb = e1.blocks[r1_.base[1]]["term"], e2.blocks[r2_.base[1]]["term"]
                ca, cb_ = ta.get("callee") or {}, tb.get("callee") or {}
                if norm_path(ca.get("path") or "") != norm_path(cb_.get("path") or "") or len(ta["args"]) != len(tb["args"]):
                    return False
                return all(same_value(v1.root(x), v.root(y), depth + 1) for x, y in zip(ta["args"], tb["args"]))
            return False
        for i_, (a1, a2) in enumerate(zip(t1["args"], t["args"])):
            r1_, r2_ = v1.root(a1), v.root(a2)
            ty1 = e1.local_ty(r1_.base[1]) if r1_.kind == "arg" else None
            is_slice = ty1 is not None and ty1.startswith("&[") and not r1_.path and "Option<" not in ty1
            if is_slice:
                slice_op = a2
                continue
            if not same_value(r1_, r2_):
                agree = False
                det_.append("argument %d: %r vs %r" % (i_, r1_, r2_))
        ctx.ob("C17-g", "both entries hand the same self-, edge_data- and settings-derived arguments to the sampling routine", agree and slice_op is not None,
               e2.path, "rng-entry-sibling-arguments", where=pat.where(t), detail="; ".join(det_) or "no slice argument found")
        if slice_op is None:
            return
    # slice argument: deref of the collected vector
    r1 = v.root(slice_op)
    chain = []
    cur = r1
    names = []
    for _ in range(8):
        tt = v.call_term(cur)
        if tt is None and cur.kind == "local" and not cur.path:
            dd = v.single_def(cur.base[1])
            if dd and dd[0] == "call":
                tt = dd[2]
        if tt is None:
            break
        nm = tt["callee"].get("name")
        names.append(nm)
        chain.append(tt)
        cur = v.root(tt["args"][0]) if tt["args"] else None
        if cur is None or nm == "repeat_with":
            break
    names_wo_deref = [n for n in names if n not in ("deref", "as_slice", "as_ref", "borrow", "into_iter")]
    shape_ok = names_wo_deref in (["collect_vec", "take", "repeat_with"], ["collect", "take", "repeat_with"])
    # the other count-exact producer: (0..n).map(|_| draw).collect()
    range_form = None
    if names_wo_deref in (["collect", "map"], ["collect_vec", "map"]) and cur is not None and cur.kind == "local":
        rvr = v.rvalue_of(cur)
        if rvr and rvr["k"] == "aggregate" and rvr.get("agg") == "adt" and str(rvr.get("adt", "")).endswith("ops::range::Range") and len(rvr["ops"]) == 2:
            lo = rvr["ops"][0]
            if lo["k"] == "const" and lo.get("int") == "0":
                range_form = rvr
                shape_ok = True
    ctx.ob("C17-g", "x-space point is collect(take(repeat_with(..), n)) or collect(map(0..n, ..)) with no other adapter (chain %s)" % names_wo_deref, shape_ok, e2.path,
           "rng-entry-draw-chain", where=pat.where(t), detail="adapter chain from the slice argument back to its source: %s" % names)
    if shape_ok:
        if range_form is not None:
            take = [c for c in chain if c["callee"].get("name") == "map"][0]
            nr = v.root(range_form["ops"][1])
        else:
            take = [c for c in chain if c["callee"].get("name") == "take"][0]
            nr = v.root(take["args"][1])
        nt = v.call_term(nr)
        if nt is None and nr.kind == "local":
            dd = v.single_def(nr.base[1])
            if dd and dd[0] == "call":
                nt = dd[2]
        n_ok = nt is not None and R.body_of_callee(nt.get("callee")) is gd and v.root(nt["args"][0]).kind == "arg"
        ctx.ob("C17-g", "take(n): n is the unmodified return value of get_dimension(self)", n_ok, e2.path, "rng-entry-count", where=pat.where(take),
               detail="n has root %r" % (nr,))
        if range_form is not None:
            rw = take
            cr = v.root(rw["args"][1])
        else:
            rw = [c for c in chain if c["callee"].get("name") == "repeat_with"][0]
            cr = v.root(rw["args"][0])
        rv = v.rvalue_of(cr) if cr.kind == "local" else None
        clos = None
        if rv and rv["k"] == "aggregate" and rv["agg"] == "closure":
            clos = f.mir.get(rv["closure"])
        if clos is None:
            ctx.lost("C17-g", "generator closure of the draw chain", e2.path)
        else:
            ctx.fn(clos.path)
            gens = [(b_, t_) for b_, t_ in clos.calls() if callee_is(t_, trait="Rng", name="gen")]
            rets = clos.return_blocks()
            idom = cfg.dominators(clos)
            once = len(gens) == 1 and all(cfg.dominates(idom, gens[0][0], r_) for r_ in rets) and not cfg.loops(clos)
            f64_ok = once and any(a.get("t") == "f64" for a in gens[0][1]["callee"]["gargs"] if a["k"] == "ty")
            ctx.ob("C17-g", "generator closure calls Rng::gen::<f64> exactly once on every path", once and f64_ok, clos.path, "rng-closure-one-draw",
                   detail="%d gen calls" % len(gens))
            vc = Vals(clos)
            okret = False
            for b_, t_ in clos.calls():
                if callee_is(t_, trait="MomTropFloat", name="from_f64") and t_["dest"]["l"] == 0 and gens:
                    okret = vc.root(t_["args"][1]) == vc.root_place({"l": gens[0][1]["dest"]["l"], "p": []})
            ctx.ob("C17-g", "generator closure returns from_f64(that draw)", okret, clos.path, "rng-closure-returns-draw")
    # rng used only in the closure
    rng_args = [l["i"] for l in e2.locals[1:e2.arg_count + 1] if (f.ty(l["ty"]) or {}).get("k") == "ref" and (f.ty(l["ty"]) or {}).get("mut")]
    uses = 0
    for b_, t_ in e2.calls():
        for a in t_["args"]:
            rr = v.root(a)
            if rr.kind == "arg" and rr.base[1] in rng_args:
                uses += 1
    ctx.ob("C17-g", "rng is not passed to any call of generate_sample_from_rng itself (only captured by the generator closure)", uses == 0, e2.path,
           "rng-only-in-closure", detail="%d direct uses" % uses)
    common.entries_forward(ctx, R, "C17-g")


def rule_h(ctx, R):
    ctx.rule("C17-h", "sample builds a fresh reader from its slice argument, outside any loop, dominating every use")
    try:
        s = R.sample()
        rd = R.reader_adt()
    except RoleLost as e:
        return ctx.lost("C17-h", str(e))
    idom = cfg.dominators(s)
    v = Vals(s)
    in_loop = any(rd["ctor_bb"] in bl for _h, bl in cfg.loops(s))
    uses = []
    for bi, t in s.calls():
        if bi == rd["ctor_bb"]:
            continue
        for a in t["args"]:
            r = v.root(a)
            if r.kind == "local" and r.base[1] == rd["local"]:
                uses.append(bi)
    ok = not in_loop and all(cfg.dominates(idom, rd["ctor_bb"], u) for u in uses) and len(uses) >= 3 and rd.get("ctor_calls", 1) == 1
    ctx.ob("C17-h", "reader constructed once per call from the slice parameter, dominating its %d uses" % len(uses), ok, s.path, "fresh-reader")


def run(ctx):
    R = ctx.roles
    rule_abc(ctx, R)
    try:
        roots = [R.xspace_entry(), R.rng_entry(), R.get_dimension()]
    except RoleLost as e:
        return ctx.lost("C17-d", str(e))
    order = rule_d(ctx, R, roots)
    ctx.rule("C17-e", "hash-order isolation: values obtained by iterating a randomly seeded hash container reach only verified commutative reducers")
    try:
        hroots = roots + [R.build_sampler()]
    except RoleLost as e:
        return ctx.lost("C17-e", str(e))
    common.hash_order_isolation(ctx, R, "C17-e", hroots)
    rule_f(ctx, R)
    rule_g(ctx, R)
    rule_h(ctx, R)
    if ctx.cfg == "default":
        from ..fixtures import detectors_alive
        ctx.rule("C17-z", "positive examples: the zero-count detectors (ambient callees, stdout, unsafe, statics, UnsafeCell, hash order) fire on fixtures/")
        detectors_alive(ctx, "C17-z", {"denied", "stdout", "unsafe", "static", "cell", "hash"})


def thorough(ctx):
    """E6: compile-time witness that the sampler can be shared between threads."""
    ctx.rule("C17-i", "witness crate: `SampleGenerator<3>: Send + Sync` type-checks against /repo's current tree (rustc is the checker)")
    w = os.path.join(core.VERIF, "witness")
    repo = core.REPO
    import shutil, tempfile
    tmp = tempfile.mkdtemp(prefix="mtsa-witness-")
    try:
        shutil.copytree(os.path.join(w, "src"), os.path.join(tmp, "src"))
        open(os.path.join(tmp, "Cargo.toml"), "w").write(open(os.path.join(w, "Cargo.toml.in")).read().replace("@REPO@", repo))
        shutil.copy(os.path.join(repo, "Cargo.lock"), os.path.join(tmp, "Cargo.lock"))
        env = dict(os.environ, CARGO_NET_OFFLINE="true", CARGO_TARGET_DIR=os.path.join(core.CACHE, "target-witness"))
        r = subprocess.run(["cargo", "check", "--offline", "--quiet"], cwd=tmp, env=env, capture_output=True, text=True)
        ctx.ob("C17-i", "SampleGenerator<3>: Send + Sync", r.returncode == 0, "SampleGenerator", "send-sync-witness",
               detail=(r.stderr or "")[-600:])
    finally:
        shutil.rmtree(tmp, ignore_errors=True)
