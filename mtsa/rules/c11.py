"""C11 — jacobian monomial and invariance of the rescaling (kernel engine)."""
from .kernels import run_c11_jacobian, run_rescaling


def run(ctx):
    run_c11_jacobian(ctx)
    run_rescaling(ctx, "C11")
