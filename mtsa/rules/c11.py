"""C11 — jacobian monomial and invariance of the rescaling (kernel engine)."""
from .kernels import run_c11_jacobian


def run(ctx):
    run_c11_jacobian(ctx)
    try:
        from .kernels import run_rescaling
        run_rescaling(ctx, "C11")
    except ImportError:
        pass
