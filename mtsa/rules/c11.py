"""C11 — jacobian monomial and invariance of the rescaling (kernel engine)."""
from .kernels import run_c11_jacobian, run_rescaling, iteration_clauses


def run(ctx):
    run_c11_jacobian(ctx)
    run_rescaling(ctx, "C11")
    # the U_tr / V_tr that the rescaling normalises must be maintained in every iteration (otherwise the gauge is not the tropical one)
    iteration_clauses(ctx, "C11-d", "C11-d", False)
