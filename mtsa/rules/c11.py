"""C11 — jacobian monomial and invariance of the rescaling (kernel engine)."""
from .kernels import run_c11_jacobian, run_rescaling, iteration_clauses


def run(ctx):
    run_c11_jacobian(ctx)
    run_rescaling(ctx, "C11")
    # the U_tr / V_tr that the rescaling normalises must be maintained in every iteration (otherwise the gauge is not the tropical one)
    iteration_clauses(ctx, "C11-d", "C11-d", False)
    # the normalisation the jacobian multiplies by is the statement's (restated from C04-b / C03-a)
    from .kernels import normalisation_clause, graph_dod_clause, restated_clause as guarded_clause
    ctx.rule("C11-e", "normalisation = I_tr·Γ(dod)/Π_e Γ(w_e)·π^(D·L/2) with I_tr = J(full graph), dod = Σ w − L·D/2")
    guarded_clause(ctx, "C11-e", "preprocessing::TropicalSubgraphTable::generate_from_tropical", "normalisation", lambda: normalisation_clause(ctx, "C11-e"))
    guarded_clause(ctx, "C11-e", "preprocessing::TropicalGraph::from_graph", "graph-dod", lambda: graph_dod_clause(ctx, "C11-e", topology=True))
    # I_tr = J(full) is built from ω(g), which is built from the loop-number and spanning routines (restated from C03-e / C03-f)
    from .kernels import run_c03_loops, run_c03_flags
    run_c03_flags(ctx, "C11-f")
    run_c03_loops(ctx, "C11-f", soft=True)
    # … and the u, v the monomial divides by are the statement's U and V (restated from C08 / C09; decided there, repeated here because the
    # statement's right-hand side names them)
    from .restate import run_restated
    run_restated(ctx, [("C08", {"C08-a": "U = det L with L[a,b] = Σ x s s", "C08-b": "result.u is that determinant"}),
                       ("C09", {"C09-a": "u vectors u_l = Σ_e x_e s[e,l] p_e", "C09-b": "v = Σ x(m²+p²) − uᵀL⁻¹u",
                                "C09-c": "the matrix inverted in V is L[a,b] = Σ x s s",
                                "C09-d": "L⁻¹ is its inverse: Cholesky recurrence, nilpotent series, product wiring",
                                "C09-e": "the Vector primitives u and V are written in are componentwise over all D components"})])

    # the formulas above are written in the scalar type's own operations; for the f64 instantiation those are decided by C20-a — restated
    # here for exactly the operations this code calls: a `powf` / `sqrt` / `cos` of `impl MomTropFloat for f64` that is not std's breaks
    # this property with every anchored line untouched
    from .restate import restate_f64_primitives
    from .c06 import find_sector
    restate_f64_primitives(ctx, [lambda: find_sector(ctx, ctx.roles)], "the jacobian assembly and the sector routine", shallow=[lambda: ctx.roles.sample()])
    # the signature (and table) these formulas read are the ones the caller handed to build_sampler (restated from C05-b)
    from .restate import restate_sampler_is_callers
    restate_sampler_is_callers(ctx)
