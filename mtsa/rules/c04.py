"""C04 — table contents: code ≡ formula clauses (kernel engine)."""
from .kernels import run_c04


def run(ctx):
    run_c04(ctx)
