"""C04 — table contents: code ≡ formula clauses (kernel engine)."""
from .kernels import run_c04


def run(ctx):
    run_c04(ctx)
    # the ω(g∖e) the recursion divides by and the flags behind them are the statement's (restated from C03-b / C03-e / C03-f: a spanning
    # test that forgets vacuum graphs or a loop number that misses a self-loop changes J(full) and the normalisation while the recursion
    # itself is untouched)
    from .kernels import gdod_clause, run_c03_flags, run_c03_loops, builder_roles, restated_clause
    from ..roles import RoleLost
    ctx.rule("C04-d", "ω(g) = [g≠∅]·(Σ_{e∈g} w_e − ℓ(g)·D/2 − [spanning(g)]·dod) + [g=∅]·1 as stored, entry by entry")
    try:
        bs, fg, tb, jrec = builder_roles(ctx)
        restated_clause(ctx, "C04-d", tb.path, "generalized-dod", lambda: gdod_clause(ctx, "C04-d", tb))
    except RoleLost as e:
        ctx.note("C04-d: restated clause skipped — %s; the owning rules report it" % e)
    run_c03_flags(ctx, "C04-e")
    run_c03_loops(ctx, "C04-e", soft=True)
