"""C08 — returned U / L matrix: structural clauses decided by the kernel engine."""
from .kernels import run_c08


def run(ctx):
    run_c08(ctx)

    # the formulas above are written in the scalar type's own operations; for the f64 instantiation those are decided by C20-a — restated
    # here for exactly the operations this code calls: a `powf` / `sqrt` / `cos` of `impl MomTropFloat for f64` that is not std's breaks
    # this property with every anchored line untouched
    from .restate import restate_f64_primitives
    restate_f64_primitives(ctx, [lambda: ctx.roles.decompose()], "the decomposition")
    # the signature (and table) these formulas read are the ones the caller handed to build_sampler (restated from C05-b)
    from .restate import restate_sampler_is_callers
    restate_sampler_is_callers(ctx)
    from .restate import restate_loops_if_kernels_take_them
    restate_loops_if_kernels_take_them(ctx, 'C08-f', ('lmatrix',), 'the L matrix')
