"""C08 — returned U / L matrix: structural clauses decided by the kernel engine."""
from .kernels import run_c08


def run(ctx):
    run_c08(ctx)
