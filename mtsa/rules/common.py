"""Rule helpers shared between properties."""
from ..vals import Vals, callee_is, bool_edges, norm_path
from ..roles import RoleLost
from .. import pat

SETTINGS_ADT = "TropicalSamplingSettings"


def ty_is_ref_to_adt(facts, tys, adt_suffix):
    t = facts.ty(tys)
    if not t or t.get("k") != "ref":
        return False
    u = facts.ty(t["t"])
    return bool(u) and u.get("k") == "adt" and (u["path"] == adt_suffix or u["path"].endswith("::" + adt_suffix))


def settings_arg(facts, body):
    c = [l["i"] for l in body.locals[1:body.arg_count + 1] if ty_is_ref_to_adt(facts, l["ty"], SETTINGS_ADT)]
    return c[0] if len(c) == 1 else None


def arg_of_type(facts, body, pred):
    c = [l["i"] for l in body.locals[1:body.arg_count + 1] if pred(facts.ty(l["ty"]), l["ty"])]
    return c


def calls_named(body, trait, names):
    return [(bi, t) for bi, t in body.calls() if callee_is(t, trait=trait, name=names)]


def is_l21_norm(ctx, cb):
    """Role: matrix -> scalar helper that takes square roots (formula decided by the kernel engine)."""
    if cb.arg_count != 1:
        return False
    return bool(calls_named(cb, "MomTropFloat", ("sqrt",)))


def is_identity_ctor(ctx, cb):
    has_one = bool(calls_named(cb, "MomTropFloat", ("one",)))
    writes = bool(calls_named(cb, "IndexMut", ("index_mut",)))
    return has_one and writes


def result_edges(term):
    """(ok_target, err_target) of a switch on a Result / ControlFlow discriminant."""
    m = {val: tgt for val, tgt in term["targets"]}
    oth = term["otherwise"]
    ok_t = m.get("0", oth)
    err_t = m.get("1", oth)
    return ok_t, err_t


def consumers_of_result(body, v, call_bb, depth=0):
    """Classify how the Result produced by the call at call_bb is consumed.
    Returns list of ('match', switch_bb) | ('try', switch_bb) | ('return',) | ('unwrap', bb) | ('bad', desc)."""
    t = body.blocks[call_bb]["term"]
    dest = t["dest"]
    if dest["p"]:
        return [("bad", "result stored into a projection")]
    dl = dest["l"]
    if dl == 0:
        return [("return",)]
    out = []
    # uses of dl
    for bi, b in enumerate(body.blocks):
        if b["cleanup"]:
            continue
        for s in b["stmts"]:
            if s["k"] != "assign":
                continue
            rv = s["rv"]
            if rv["k"] == "discr" and rv["place"]["l"] == dl and not [e for e in rv["place"]["p"] if e["k"] != "deref"]:
                # find the switch using this discriminant
                dloc = s["place"]["l"]
                for bj, b2 in enumerate(body.blocks):
                    t2 = b2["term"]
                    if t2["k"] == "switch" and t2["discr"]["k"] in ("copy", "move") and t2["discr"]["place"]["l"] == dloc:
                        out.append(("match", bj))
            elif rv["k"] == "use" and rv["op"]["k"] in ("copy", "move") and rv["op"]["place"]["l"] == dl and not rv["op"]["place"]["p"]:
                if s["place"]["l"] == 0 and not s["place"]["p"]:
                    out.append(("return",))
                else:
                    # moved into another local: follow once
                    out.append(("moved", s["place"]["l"]))
        t2 = b["term"]
        if t2["k"] == "call":
            uses = [a for a in t2["args"] if a["k"] in ("copy", "move") and a["place"]["l"] == dl and not a["place"]["p"]]
            if not uses:
                continue
            if callee_is(t2, trait="Try", name="branch"):
                # switch on discriminant of the ControlFlow result
                cf = t2["dest"]["l"]
                found = False
                for bj, b3 in enumerate(body.blocks):
                    for s3 in b3["stmts"]:
                        if s3["k"] == "assign" and s3["rv"]["k"] == "discr" and s3["rv"]["place"]["l"] == cf:
                            dloc = s3["place"]["l"]
                            for bk, b4 in enumerate(body.blocks):
                                t4 = b4["term"]
                                if t4["k"] == "switch" and t4["discr"]["k"] in ("copy", "move") and t4["discr"]["place"]["l"] == dloc:
                                    out.append(("try", bk))
                                    found = True
                if not found:
                    out.append(("bad", "Try::branch result not matched"))
            elif callee_is(t2, name=("map_err", "map", "and_then", "or_else")) and "Result" in t2["callee"]["path"]:
                if depth < 4:
                    out.extend(consumers_of_result(body, v, bi, depth + 1))
            elif callee_is(t2, name=("unwrap", "expect", "unwrap_or_else")) and "Result" in t2["callee"]["path"] and t2["callee"]["name"] != "unwrap_or_else":
                out.append(("unwrap", bi))
            else:
                out.append(("bad", "result passed to %s" % t2["callee"]["path"] if t2.get("callee") else "indirect call"))
    if not out:
        out.append(("bad", "result is dropped / never inspected"))
    return out


def err_never_reaches_ok(body, v, call_bb):
    """Error discipline for the Result of the call at call_bb inside `body`."""
    oks = [bi for bi, si, s in pat.result_ctor_sites(body, "Ok")]
    cons = consumers_of_result(body, v, call_bb)
    why = []
    ok = True
    for c in cons:
        if c[0] in ("match", "try"):
            ok_t, err_t = result_edges(body.blocks[c[1]]["term"])
            if err_t == ok_t:
                ok = False
                why.append("Ok and Err arms are not distinguished")
                continue
            reach = body.reachable_from(err_t)
            bad = [o for o in oks if o in reach]
            if bad:
                ok = False
                why.append("the Err arm (bb%d) can reach an Ok(..) return at bb%s" % (err_t, bad))
        elif c[0] in ("return", "unwrap"):
            pass
        elif c[0] == "moved":
            ok = False
            why.append("result moved into another local (idiom not recognised)")
        else:
            ok = False
            why.append(c[1])
    return ok, "; ".join(why) or None


def entries_forward(ctx, R, rule):
    """Both public sampling entries forward `settings` and return the callee's Result as is."""
    try:
        e1, e2, s = R.xspace_entry(), R.rng_entry(), R.sample()
    except RoleLost as ex:
        return ctx.lost(rule, str(ex))
    for entry, target in ((e1, s), (e2, e1)):
        ctx.fn(entry.path)
        v = Vals(entry)
        sarg = settings_arg(ctx.facts, entry)
        sites = [(bi, t) for bi, t, cb in R.local_callees(entry) if cb is target]
        if len(sites) != 1:
            ctx.lost(rule, "single call of %s in %s" % (target.path, entry.path), entry.path)
            continue
        bi, t = sites[0]
        tsarg = settings_arg(ctx.facts, target)
        # position of settings among target's params
        idx = tsarg - 1
        r = v.root(t["args"][idx]) if idx < len(t["args"]) else None
        ctx.ob(rule, "%s passes its own settings parameter on" % norm_path(entry.path),
               r is not None and r.kind == "arg" and r.base[1] == sarg and not r.path, entry.path, "forward-settings",
               where=pat.where(t), detail="argument is %r" % (r,))
        direct = t["dest"]["l"] == 0 and not t["dest"]["p"]
        ctx.ob(rule, "%s returns the callee's Result unchanged" % norm_path(entry.path), direct, entry.path,
               "return-callee-result", where=pat.where(t))
