"""Rule helpers shared between properties."""
from ..vals import Vals, callee_is, bool_edges, norm_path
from ..roles import RoleLost
from .. import pat

SETTINGS_ADT = "TropicalSamplingSettings"


def ty_is_ref_to_adt(facts, tys, adt_suffix):
    t = facts.ty(tys)
    if not t or t.get("k") != "ref":
        return False
    u = facts.ty(t["t"])
    return bool(u) and u.get("k") == "adt" and (u["path"] == adt_suffix or u["path"].endswith("::" + adt_suffix))


def settings_arg(facts, body):
    c = [l["i"] for l in body.locals[1:body.arg_count + 1] if ty_is_ref_to_adt(facts, l["ty"], SETTINGS_ADT)]
    return c[0] if len(c) == 1 else None


def arg_of_type(facts, body, pred):
    c = [l["i"] for l in body.locals[1:body.arg_count + 1] if pred(facts.ty(l["ty"]), l["ty"])]
    return c


def calls_named(body, trait, names):
    return [(bi, t) for bi, t in body.calls() if callee_is(t, trait=trait, name=names)]


def _with_delegates(ctx, cb, depth=2):
    """The body and (closures of / local callees of) it: a helper that only forwards to another one still plays the role."""
    out, seen, work = [], set(), [(cb, 0)]
    while work:
        b, d = work.pop()
        if b.key in seen:
            continue
        seen.add(b.key)
        out.append(b)
        for cl in ctx.facts.closures_of(b.path):
            work.append((cl, d))
        if d < depth:
            for _bi, _t, x in ctx.roles.local_callees(b):
                work.append((x, d + 1))
    return out


def is_l21_norm(ctx, cb):
    """Role: matrix -> scalar helper that takes square roots (formula decided by the kernel engine)."""
    if cb.arg_count != 1 or (ctx.facts.ty(cb.local_ty(0)) or {}).get("k") != "param":
        return False
    return any(calls_named(b, "MomTropFloat", ("sqrt",)) for b in _with_delegates(ctx, cb))


def is_identity_ctor(ctx, cb):
    bs = _with_delegates(ctx, cb)
    has_one = any(calls_named(b, "MomTropFloat", ("one",)) for b in bs)
    writes = any(calls_named(b, "IndexMut", ("index_mut",)) for b in bs)
    rty = cb.local_ty(0)
    # an identity constructor only writes: a routine that also READS matrix entries (an inversion, a product) is something else
    reads = any(calls_named(b, "Index", ("index",)) and any("SquareMatrix" in ((t.get("callee") or {}).get("self_ty") or "")
                                                              for _bi, t in calls_named(b, "Index", ("index",))) for b in bs)
    return has_one and writes and not reads and "SquareMatrix" in rty


def result_edges(term):
    """(ok_target, err_target) of a switch on a Result / ControlFlow discriminant."""
    m = {val: tgt for val, tgt in term["targets"]}
    oth = term["otherwise"]
    ok_t = m.get("0", oth)
    err_t = m.get("1", oth)
    return ok_t, err_t


def consumers_of_result(body, v, call_bb, depth=0):
    """Classify how the Result produced by the call at call_bb is consumed.
    Returns list of ('match', switch_bb) | ('try', switch_bb) | ('return',) | ('unwrap', bb) | ('bad', desc)."""
    t = body.blocks[call_bb]["term"]
    dest = t["dest"]
    if dest["p"]:
        return [("bad", "result stored into a projection")]
    return consumers_of_local(body, v, dest["l"], depth, set())


def consumers_of_local(body, v, dl, depth, seen):
    """The same classification for a Result held in local `dl`; plain moves into another local are followed."""
    if dl == 0:
        return [("return",)]
    if dl in seen:
        return []
    seen.add(dl)
    out = []
    # uses of dl
    for bi, b in enumerate(body.blocks):
        if b["cleanup"]:
            continue
        for s in b["stmts"]:
            if s["k"] != "assign":
                continue
            rv = s["rv"]
            if rv["k"] == "discr" and rv["place"]["l"] == dl and not [e for e in rv["place"]["p"] if e["k"] != "deref"]:
                # find the switch using this discriminant
                dloc = s["place"]["l"]
                for bj, b2 in enumerate(body.blocks):
                    t2 = b2["term"]
                    if t2["k"] == "switch" and t2["discr"]["k"] in ("copy", "move") and t2["discr"]["place"]["l"] == dloc:
                        out.append(("match", bj))
            elif rv["k"] == "use" and rv["op"]["k"] in ("copy", "move") and rv["op"]["place"]["l"] == dl and not rv["op"]["place"]["p"]:
                if s["place"]["l"] == 0 and not s["place"]["p"]:
                    out.append(("return",))
                elif s["place"]["p"] or len(seen) > 6:
                    out.append(("moved", s["place"]["l"]))
                else:
                    # moved into another local (a binding, or the return slot of an inlined helper): follow it
                    out.extend(consumers_of_local(body, v, s["place"]["l"], depth, seen))
        t2 = b["term"]
        if t2["k"] == "call":
            uses = [a for a in t2["args"] if a["k"] in ("copy", "move") and a["place"]["l"] == dl and not a["place"]["p"]]
            if not uses:
                continue
            if callee_is(t2, trait="Try", name="branch"):
                # switch on discriminant of the ControlFlow result
                cf = t2["dest"]["l"]
                found = False
                for bj, b3 in enumerate(body.blocks):
                    for s3 in b3["stmts"]:
                        if s3["k"] == "assign" and s3["rv"]["k"] == "discr" and s3["rv"]["place"]["l"] == cf:
                            dloc = s3["place"]["l"]
                            for bk, b4 in enumerate(body.blocks):
                                t4 = b4["term"]
                                if t4["k"] == "switch" and t4["discr"]["k"] in ("copy", "move") and t4["discr"]["place"]["l"] == dloc:
                                    out.append(("try", bk))
                                    found = True
                if not found:
                    out.append(("bad", "Try::branch result not matched"))
            elif callee_is(t2, name=("map_err", "map", "and_then", "or_else")) and "Result" in t2["callee"]["path"]:
                if depth < 4:
                    out.extend(consumers_of_result(body, v, bi, depth + 1))
            elif callee_is(t2, name=("unwrap", "expect", "unwrap_or_else")) and "Result" in t2["callee"]["path"] and t2["callee"]["name"] != "unwrap_or_else":
                out.append(("unwrap", bi))
            else:
                out.append(("bad", "result passed to %s" % t2["callee"]["path"] if t2.get("callee") else "indirect call"))
    if not out:
        out.append(("bad", "result is dropped / never inspected"))
    return out


def err_never_reaches_ok(body, v, call_bb):
    """Error discipline for the Result of the call at call_bb inside `body`."""
    oks = [bi for bi, si, s in pat.result_ctor_sites(body, "Ok")]
    cons = consumers_of_result(body, v, call_bb)
    why = []
    ok = True
    for c in cons:
        if c[0] in ("match", "try"):
            ok_t, err_t = result_edges(body.blocks[c[1]]["term"])
            if err_t == ok_t:
                ok = False
                why.append("Ok and Err arms are not distinguished")
                continue
            reach = body.reachable_from(err_t)
            bad = [o for o in oks if o in reach]
            if bad:
                ok = False
                why.append("the Err arm (bb%d) can reach an Ok(..) return at bb%s" % (err_t, bad))
        elif c[0] in ("return", "unwrap"):
            pass
        elif c[0] == "moved":
            ok = False
            why.append("result moved into another local (idiom not recognised)")
        else:
            ok = False
            why.append(c[1])
    return ok, "; ".join(why) or None


def entries_forward(ctx, R, rule):
    """Both public sampling entries forward `settings` and return the callee's Result as is."""
    try:
        e1, e2, s = R.xspace_entry(), R.rng_entry(), R.sample()
    except RoleLost as ex:
        return ctx.lost(rule, str(ex))
    from ..roles import returns_unchanged
    # the random-number entry either calls the x-space entry or, like it, the sampling routine itself (a shared delegate / after inlining)
    e2_target = e1 if any(cb is e1 for _bi, _t, cb in R.local_callees(e2)) else s
    for entry, target in ((e1, s), (e2, e2_target)):
        ctx.fn(entry.path)
        v = Vals(entry)
        sarg = settings_arg(ctx.facts, entry)
        sites = [(bi, t) for bi, t, cb in R.local_callees(entry) if cb is target]
        if len(sites) != 1:
            ctx.lost(rule, "single call of %s in %s" % (target.path, entry.path), entry.path)
            continue
        bi, t = sites[0]
        tsarg = settings_arg(ctx.facts, target)
        # position of settings among target's params
        idx = tsarg - 1
        r = v.root(t["args"][idx]) if idx < len(t["args"]) else None
        ctx.ob(rule, "%s passes its own settings parameter on" % norm_path(entry.path),
               r is not None and r.kind == "arg" and r.base[1] == sarg and not r.path, entry.path, "forward-settings",
               where=pat.where(t), detail="argument is %r" % (r,))
        direct = returns_unchanged(entry, t)
        ctx.ob(rule, "%s returns the callee's Result unchanged" % norm_path(entry.path), direct, entry.path,
               "return-callee-result", where=pat.where(t))


IDENTITY_VIEWS = ("as_slice", "as_mut_slice", "as_ref", "as_mut", "deref", "deref_mut", "borrow", "borrow_mut", "clone", "to_vec", "to_owned", "as_ptr_range_not")


def through_identity_views(v, r):
    """The value behind a chain of views that hand back the same elements: `x.as_slice()`, `&x[..]`, `x.as_ref()`, `&*x`, `x.clone()`."""
    for _ in range(6):
        if r.kind != "call":
            break
        t = v.call_term(r)
        if t is None or not t.get("args"):
            break
        nm = (t.get("callee") or {}).get("name")
        if nm in IDENTITY_VIEWS and len(t["args"]) == 1:
            r = v.root(t["args"][0])
            continue
        if nm in ("index", "index_mut") and len(t["args"]) == 2:
            a1 = t["args"][1]
            full = a1.get("k") == "const" and "RangeFull" in str(a1.get("ty") or a1.get("disp") or "")
            if a1.get("k") in ("copy", "move") and not a1["place"]["p"]:
                full = "RangeFull" in str(v.body.local_ty(a1["place"]["l"]))
            if full:
                r = v.root(t["args"][0])
                continue
        break
    return r


def entry_forwards_inputs(ctx, R, rule):
    """The x-space entry hands the caller's point (and every other input) to the sampling routine as it received it: each argument of
    that call is one of the entry's own parameters or a field of `self`, not a value computed in between (a clamped / re-collected
    copy of the point would make every coordinate-level statement about `sample` a statement about something else)."""
    try:
        e1, s = R.xspace_entry(), R.sample()
    except RoleLost as ex:
        return ctx.lost(rule, str(ex))
    ctx.fn(e1.path)
    v = Vals(e1)
    sites = [(bi, t) for bi, t, cb in R.local_callees(e1) if cb is s]
    if len(sites) != 1:
        return ctx.lost(rule, "single call of %s in %s" % (s.path, e1.path), e1.path)
    bi, t = sites[0]
    bad = []
    for i, a in enumerate(t["args"]):
        if a.get("k") == "const":
            continue
        r = through_identity_views(v, v.root(a))
        if r.kind != "arg":
            bad.append("argument %d is %r" % (i, r))
    ctx.ob(rule, "%s passes its inputs (point, edge data, settings, table) to the sampling routine unmodified" % norm_path(e1.path), not bad, e1.path,
           "entry-forwards-inputs", where=pat.where(t), detail="; ".join(bad))


def builder_forwards_graph(ctx, R, rule, from_graph):
    """build_sampler hands the caller's graph to the graph constructor as it received it: the argument is the `self` parameter itself and
    nothing in build_sampler writes to it or borrows it mutably before (dropping "dangling" externals, reordering edges … would make every
    statement about the table a statement about another graph)."""
    try:
        bs = R.build_sampler()
    except RoleLost as ex:
        return ctx.lost(rule, str(ex))
    ctx.fn(bs.path)
    v = Vals(bs)
    sites = [(bi, t) for bi, t, cb in R.local_callees(bs) if cb is from_graph]
    if len(sites) != 1:
        return ctx.lost(rule, "single call of the graph constructor in %s (found %d)" % (bs.path, len(sites)), bs.path)
    bi, t = sites[0]
    r = through_identity_views(v, v.root(t["args"][0]))
    ok_arg = r.kind == "arg" and not r.path
    writes = []
    if ok_arg:
        gl = r.base[1]
        for bj, si, st in pat.stmts(bs):
            if bs.blocks[bj]["cleanup"]:
                continue
            if st["place"]["l"] == gl and st["place"]["p"]:
                writes.append("write to a field at %s" % pat.where(st))
            rv = st["rv"]
            if rv["k"] == "ref" and rv.get("mut") and rv["place"]["l"] == gl:
                writes.append("mutable borrow at %s" % pat.where(st))
            if rv["k"] == "ref" and rv.get("mut") and rv["place"]["l"] != gl:
                # a mutable borrow of a copy / reborrow chain rooted in the graph parameter
                rr = v.root_place(rv["place"])
                if rr.kind == "arg" and rr.base[1] == gl:
                    writes.append("mutable borrow at %s" % pat.where(st))
    ctx.ob(rule, "%s passes its graph to the graph constructor unmodified" % norm_path(bs.path), ok_arg and not writes, bs.path, "builder-forwards-graph",
           where=pat.where(t), detail=("argument is %r" % (r,)) if not ok_arg else "; ".join(writes))


# ---- loops and commutative reducers -------------------------------------------------------------
def loop_next_sites(body, v):
    """[(next_call_bb, switch_bb, some_target, none_target, term)] for `match Iterator::next(&mut it)` loop heads."""
    out = []
    for bi, t in body.calls():
        if not callee_is(t, trait="Iterator", name="next"):
            continue
        dl = t["dest"]["l"]
        for bj, root, pl, st in pat.discr_switches(body, v):
            if pl["l"] == dl and not pl["p"]:
                m = {val: tgt for val, tgt in st["targets"]}
                none_t = m.get("0", st["otherwise"])
                some_t = m.get("1", st["otherwise"])
                out.append((bi, bj, some_t, none_t, t))
    return out


COMMUTATIVE_INT_OPS = ("BitOr", "BitAnd", "BitXor", "Add", "AddWithOverflow", "Mul", "MulWithOverflow")


def verify_commutative_reducer(facts, body):
    """True iff `body` folds a sequence into integer accumulators only by acc = acc (+) f(elem) with (+) commutative and
    associative, and has no other order-dependent effect.  Returns (ok, why)."""
    v = Vals(body)
    heads = loop_next_sites(body, v)
    if not heads:
        return _verify_fold_reducer(facts, body, v)
    if len(heads) != 1:
        return False, "expected exactly one iterator loop, found %d" % len(heads)
    nbb, sbb, some_t, none_t, nt = heads[0]
    loop_blocks = body.reachable_from(some_t, avoid=frozenset([nbb]))
    # locals with a (whole) definition outside the loop and one inside: accumulators
    inside, outside = {}, set()
    for bi, b in enumerate(body.blocks):
        if b["cleanup"]:
            continue
        for s in b["stmts"]:
            if s["k"] != "assign" or s["place"]["p"]:
                continue
            l = s["place"]["l"]
            if bi in loop_blocks:
                inside.setdefault(l, []).append(s)
            else:
                outside.add(l)
    accs = [l for l in inside if l in outside and body.local_name(l)]
    for l in accs:
        tyk = facts.ty(body.local_ty(l)) or {}
        if tyk.get("k") != "prim" or tyk.get("name") in ("f64", "f32"):
            return False, "accumulator _%d is not an integer" % l
        for s in inside[l]:
            rv = s["rv"]
            if rv["k"] == "binop" and rv["op"] in COMMUTATIVE_INT_OPS:
                a, b2 = rv["a"], rv["b"]
                def is_acc(o, _l=l):
                    if o["k"] not in ("copy", "move"):
                        return False
                    if o["place"]["l"] == _l and not o["place"]["p"]:
                        return True
                    r_ = v.root(o)   # a temporary copy of the accumulator (`acc = x | acc`)
                    return r_.kind == "local" and r_.base[1] == _l and not r_.path
                sa, sb_ = is_acc(a), is_acc(b2)
                if sa != sb_:
                    continue
            elif rv["k"] == "use" and rv["op"]["k"] in ("copy", "move") and rv["op"]["place"]["p"] and rv["op"]["place"]["p"][0]["k"] == "field":
                # `acc = move tmp.0` after a checked op: follow the tuple temp
                tl = rv["op"]["place"]["l"]
                d = v.single_def(tl)
                if d and d[0] == "stmt" and d[3]["k"] == "binop" and d[3]["op"] in COMMUTATIVE_INT_OPS:
                    continue
            return False, "accumulator _%d updated by a non-commutative statement" % l
    for bi in loop_blocks:
        t = body.blocks[bi]["term"]
        if t["k"] == "call" and bi != nbb:
            for a in t["args"]:
                if a["k"] in ("copy", "move") and "&mut" in body.local_ty(a["place"]["l"]):
                    return False, "loop body passes a mutable reference to %s" % (t.get("callee", {}).get("path"))
    if not accs:
        return False, "no accumulator found"
    return True, "accumulators %s updated only by commutative integer ops" % accs


def _verify_fold_reducer(facts, body, v):
    """The same reducer written as `seq.fold(init, |acc, x| acc (+) g(x))` with (+) a commutative, associative integer operation."""
    folds = [(bi, t) for bi, t in body.calls() if callee_is(t, trait="Iterator", name="fold")]
    if len(folds) != 1 or len(folds[0][1]["args"]) != 3:
        return False, "no iterator loop and no single fold"
    t = folds[0][1]
    cr = v.root(t["args"][2])
    rv = v.rvalue_of(cr) if cr.kind == "local" else None
    clos = facts.mir.get(rv["closure"]) if rv and rv["k"] == "aggregate" and rv.get("agg") == "closure" else None
    if clos is None:
        return False, "fold closure not found"
    if any(callee_is(t2, trait="Iterator") for _b, t2 in clos.calls()) or loop_next_sites(clos, Vals(clos)):
        return False, "fold closure iterates itself"
    tyk = facts.ty(clos.local_ty(0)) or {}
    if tyk.get("k") != "prim" or tyk.get("name") in ("f64", "f32"):
        return False, "fold accumulator is not an integer"
    vc = Vals(clos)
    acc_root = ("arg", 2)
    ok = False
    for bi, si, st in pat.stmts(clos):
        if st["place"]["l"] == 0 and not st["place"]["p"]:
            r_ = st["rv"]
            if r_["k"] == "use" and r_["op"]["k"] in ("copy", "move") and not r_["op"]["place"]["p"]:
                d = vc.def_rvalue(r_["op"]["place"]["l"])
                r_ = d or r_
            elif r_["k"] == "use" and r_["op"]["k"] in ("copy", "move") and r_["op"]["place"]["p"] and r_["op"]["place"]["p"][0]["k"] == "field":
                d = vc.def_rvalue(r_["op"]["place"]["l"])     # checked op: (value, overflow).0
                r_ = d or r_
            if r_["k"] == "binop" and r_["op"] in COMMUTATIVE_INT_OPS:
                sa = vc.root(r_["a"]).base == acc_root and not vc.root(r_["a"]).path
                sb_ = vc.root(r_["b"]).base == acc_root and not vc.root(r_["b"]).path
                if sa != sb_:
                    ok = True
                    continue
            return False, "fold closure does not return acc (+) g(x) with a commutative integer operation"
    # the accumulator parameter must not be used anywhere else (e.g. as an argument of g)
    uses = 0
    for bi, t2 in clos.calls():
        for a in t2["args"]:
            if a["k"] in ("copy", "move") and vc.root(a).base == acc_root:
                uses += 1
    if not ok or uses:
        return False, "fold closure uses its accumulator outside the commutative update"
    return True, "fold with a commutative integer update of the accumulator"


def hash_order_isolation(ctx, R, rule, roots):
    """Order taint from iterating hash containers must not reach any function result reachable from `roots`
    except through verified commutative reducers."""
    from ..flow import Flow, fmt_source
    f = ctx.facts
    # candidate reducers: local callees that receive a hash-order tainted argument; verified ones kill the taint
    reducers = {}
    for key, b in f.mir.items():
        ok, why = (False, "")
        if b.arg_count >= 1 and not b.j.get("root"):
            v = Vals(b)
            if len(loop_next_sites(b, v)) == 1 or (not loop_next_sites(b, v) and any(callee_is(t_, trait="Iterator", name="fold") for _bi, t_ in b.calls())):
                ok, why = verify_commutative_reducer(f, b)
        if ok:
            reducers[key] = why
    fl = Flow(f, R, track_hash=True, hash_kill=frozenset(reducers))
    n_src = 0
    bad = []
    seen = set()
    work = list(roots)
    while work:
        b = work.pop()
        if b.key in seen:
            continue
        seen.add(b.key)
        sm = fl.summary(b)
        ctx.fn(b.path)
        hs = [s for s in sm.ret if s[0] == "hash"]
        for pi, ws in sm.mut.items():
            hs += [s for s in ws if s[0] == "hash"]
        n_src += len([s for s in sm.internal if s[0] == "hash"])
        if hs and not b.j.get("root"):
            bad.append((b, hs))
        for bi, t, cb in R.local_callees(b):
            work.append(cb)
        for cb in f.closures_of(b.path):
            work.append(cb)
    used = sorted(k for k in reducers if any(k == x.key for x in [f.mir[y] for y in seen if y in f.mir]))
    ctx.note("hash-iteration sources seen: %d; verified commutative reducers: %s" % (n_src, sorted(reducers)))
    for b, hs in bad:
        ctx.ob(rule, "result of %s is independent of hash iteration order" % norm_path(b.path), False, b.path, "hash-order-leak",
               detail="the value returned (or written through a parameter) by %s depends on the iteration order of a randomly seeded hash container: %s"
                      % (norm_path(b.path), sorted(set(fmt_source(s) for s in hs))))
    if not bad:
        ctx.ob(rule, "no function result reachable from the roots depends on hash iteration order (%d functions, %d hash-iteration sites, "
                     "killed only by verified reducers %s)" % (len(seen), n_src, sorted(norm_path(k) for k in reducers)), True, "*", "hash-order-leak")
    return n_src


# ---- comparisons (trait calls on T and builtin binops on f64/ints, uniformly) ---------------------
CMP_BINOPS = {"Lt": "lt", "Le": "le", "Gt": "gt", "Ge": "ge", "Eq": "eq", "Ne": "ne"}


def cmp_of(v, cond):
    """For a classified bool (Vals.classify_bool) return (op, left operand, right operand, where) with op in lt/le/gt/ge/eq/ne,
    for PartialOrd/PartialEq calls as well as builtin comparisons; None otherwise."""
    if not cond:
        return None
    if cond[0] == "call":
        t = cond[1]
        if callee_is(t, trait=("PartialOrd", "PartialEq"), name=("lt", "le", "gt", "ge", "eq", "ne")) and len(t["args"]) == 2:
            return t["callee"]["name"], t["args"][0], t["args"][1], pat.where(t)
        return None
    if cond[0] == "binop" and cond[1]["op"] in CMP_BINOPS:
        return CMP_BINOPS[cond[1]["op"]], cond[1]["a"], cond[1]["b"], None
    return None


def const_value_of(v, operand):
    """Numeric value of an operand that is a literal, MomTropFloat::zero()/one(), or from_f64/from_isize(literal); else None."""
    import struct
    if operand["k"] == "const":
        if operand.get("ty") == "f64" and "bits" in operand:
            return struct.unpack("<d", struct.pack("<Q", int(operand["bits"])))[0]
        if "int" in operand:
            return float(operand["int"])
        return None
    r = v.root(operand)
    if r.kind == "const" and r.base[2] == "f64" and r.base[1] is not None:
        try:
            return struct.unpack("<d", struct.pack("<Q", int(r.base[1])))[0]
        except (ValueError, struct.error):
            return None
    t = v.call_term(r)
    if t is None:
        return None
    if callee_is(t, trait="MomTropFloat", name="zero"):
        return 0.0
    if callee_is(t, trait="MomTropFloat", name="one"):
        return 1.0
    if callee_is(t, trait="MomTropFloat", name=("from_f64", "from_isize")) and len(t["args"]) > 1:
        return const_value_of(v, t["args"][1])
    return None


def strip_abs(v, root):
    """Root of x for a root that is abs(x) (MomTropFloat::abs or f64::abs); (root, False) otherwise."""
    t = v.call_term(root)
    if t is not None and t.get("callee", {}).get("name") == "abs" and t["args"]:
        return v.root(t["args"][0]), True
    return root, False


def eval_cmp(op, a, b):
    return {"lt": a < b, "le": a <= b, "gt": a > b, "ge": a >= b, "eq": a == b, "ne": a != b}[op]


def scalar_value_root(v, operand):
    """Root of a scalar operand, looking through to_f64 narrowing (the same value in another representation)."""
    r = v.root(operand)
    t = v.call_term(r)
    if t is not None and callee_is(t, trait="MomTropFloat", name="to_f64"):
        return v.root(t["args"][0])
    return r


SIG_TY = "alloc::vec::Vec<alloc::vec::Vec<isize>>"


def signature_wiring(ctx, R, rule):
    """The loop signature the kernels see is the caller's: build_sampler stores its signature argument untouched, and the x-space entry
    hands `&self.<that field>` to sample."""
    f = ctx.facts
    try:
        bs, e1, s = R.build_sampler(), R.xspace_entry(), R.sample()
    except RoleLost as ex:
        return ctx.lost(rule, str(ex))
    ctx.fn(bs.path)
    v = Vals(bs)
    sig_params = [l["i"] for l in bs.locals[1:bs.arg_count + 1] if l["ty"].replace(" ", "").startswith(SIG_TY)]
    aggs = list(pat.aggregates(bs, "SampleGenerator"))
    if len(sig_params) != 1 or not aggs:
        from ..roles import want, builds_adt
        want(builds_adt("SampleGenerator"))
        return ctx.lost(rule, "signature parameter / SampleGenerator aggregate in build_sampler (%d, %d)" % (len(sig_params), len(aggs)), bs.path)
    sp_ = sig_params[0]
    field = None
    for bj, sj, st in aggs:
        rv = st["rv"]
        for i, op in enumerate(rv["ops"]):
            if op["k"] in ("copy", "move") and bs.local_ty(op["place"]["l"]).replace(" ", "").startswith(SIG_TY) and not op["place"]["p"]:
                field = rv["fields"][i]
                r = v.root(op)
                ctx.ob(rule, "SampleGenerator.%s is build_sampler's signature argument itself" % field,
                       r.kind == "arg" and r.base[1] == sp_ and not r.path, bs.path, "signature-stored-unmodified", where=pat.where(st),
                       detail="the stored signature is %r, not the caller's argument: every formula in terms of the caller's signature (L matrix, u "
                              "vectors, edge momenta) is then evaluated on a different matrix while the caller's shifts are kept" % (r,))
    if field is None:
        return ctx.lost(rule, "signature field of SampleGenerator", bs.path)
    # the argument is not modified in place before it is stored
    muts = []
    for bi, si, st in pat.stmts(bs):
        rv = st["rv"]
        if rv["k"] == "ref" and rv.get("mut") and rv["place"]["l"] == sp_:
            muts.append(pat.where(st))
        if st["place"]["l"] == sp_:
            muts.append(pat.where(st))
    ctx.ob(rule, "the signature argument is neither reassigned nor mutably borrowed in build_sampler", not muts, bs.path, "signature-not-mutated",
           detail="mutable uses at %s" % muts)
    # entry -> sample
    ctx.fn(e1.path)
    ve = Vals(e1)
    sites = [(bi, t) for bi, t, cb in R.local_callees(e1) if cb is s]
    if len(sites) != 1:
        return ctx.lost(rule, "single call of sample in the x-space entry", e1.path)
    bi, t = sites[0]
    ok = False
    det = "no argument of signature type"
    for ai, a in enumerate(t["args"]):
        pty = s.local_ty(ai + 1).replace(" ", "")
        if "alloc::vec::Vec<isize>" in pty:
            r = ve.root(a)
            det = "argument root %r" % (r,)
            ok = r.kind == "arg" and r.base[1] == 1 and r.path == (field,)
    ctx.ob(rule, "the entry hands &self.%s to sample" % field, ok, e1.path, "signature-forwarded", where=pat.where(t), detail=det)


def built_structs(facts, R, body, adt):
    """Like pat.aggregates(body, adt), plus structs built through a local constructor function whose body forwards its parameters into
    the aggregate (`Metadata::new(a, b, …)`): yields (bb, idx|None, pseudo-statement) whose `ops` are the CALLER's operands, so that field
    provenance is unchanged by the indirection (and a constructor that swaps two parameters shows up as swapped fields)."""
    found = False
    for x in pat.aggregates(body, adt):
        found = True
        yield x
    # built inside a closure created here (`flag.then(|| Metadata { .. })`): the fields are captured variables of this body
    v0 = None
    for clo in facts.closures_of(body.path):
        if clo.j.get("parent") != body.path:
            continue
        caggs = list(pat.aggregates(clo, adt))
        if not caggs:
            continue
        site = [(bi, si, st) for bi, si, st in pat.stmts(body) if st["rv"]["k"] == "aggregate" and st["rv"].get("agg") == "closure"
                and st["rv"].get("closure") == clo.path]
        if len(site) != 1:
            continue
        cbi, csi, cst = site[0]
        vc = Vals(clo)
        for _bj, _sj, ast_ in caggs:
            rv = ast_["rv"]
            fields, ops = [], []
            for fld, op in zip(rv["fields"], rv["ops"]):
                r = vc.root(op) if op["k"] in ("copy", "move") else None
                if r is None or r.kind != "arg" or r.base[1] != 1 or not r.path:
                    continue
                cap_names = [c_.get("name") for c_ in (clo.j.get("captures") or [])]
                try:
                    ci = int(r.path[0])
                except (TypeError, ValueError):
                    if r.path[0] in cap_names and cap_names.count(r.path[0]) == 1:
                        ci = cap_names.index(r.path[0])
                    else:
                        continue
                if ci >= len(cst["rv"]["ops"]):
                    continue
                cap = cst["rv"]["ops"][ci]
                if cap["k"] not in ("copy", "move"):
                    continue
                rest = [p_ for p_ in r.path[1:] if isinstance(p_, str) and not p_.startswith("as:")]
                proj = list(cap["place"]["p"]) + [{"k": "deref"}] * 0 + [{"k": "field", "name": n_} for n_ in rest]
                fields.append(fld)
                ops.append({"k": "copy", "place": {"l": cap["place"]["l"], "p": proj}})
            found = True
            yield cbi, None, {"k": "assign", "place": cst["place"], "span": ast_.get("span"),
                              "rv": {"k": "aggregate", "agg": "adt", "adt": rv["adt"], "variant": rv.get("variant"), "fields": fields, "ops": ops}}
    if found:
        return
    for bi, t, cb in R.local_callees(body):
        rty = cb.local_ty(0)
        if not (rty == adt or rty.endswith("::" + adt) or ("::" + adt + "<") in rty or rty.startswith(adt + "<")):
            continue
        aggs = list(pat.aggregates(cb, adt))
        if len(aggs) != 1:
            continue
        vc = Vals(cb)
        vb = Vals(body)
        rv = aggs[0][2]["rv"]
        fields, ops = [], []
        chained = False
        for fld, op in zip(rv["fields"], rv["ops"]):
            r = vc.deep_root(op) if op["k"] in ("copy", "move") else None
            if r is not None and r.kind == "arg" and 1 <= r.base[1] <= len(t["args"]) and all(isinstance(p_, str) and not p_.startswith("as:") for p_ in r.path):
                ca = t["args"][r.base[1] - 1]
                if r.path:
                    if ca["k"] not in ("copy", "move"):
                        continue
                    ca = {"k": "copy", "place": {"l": ca["place"]["l"], "p": list(ca["place"]["p"]) + [{"k": "field", "name": n_} for n_ in r.path]}}
                # a value that itself comes out of another constructor of this struct (`new(..).with_metadata(..)`) cannot be followed here
                if ca["k"] in ("copy", "move"):
                    rr = vb.deep_root(ca)
                    if rr.kind == "call":
                        cb2 = R.body_of_callee(body.blocks[rr.base[1]]["term"].get("callee"))
                        if cb2 is not None and (cb2.local_ty(0) == rty):
                            chained = True
                fields.append(fld)
                ops.append(ca)
        if chained or len(fields) != len(rv["fields"]):
            continue      # incomplete view of the struct: leave it to the helper-inlining normal form
        yield bi, None, {"k": "assign", "place": t["dest"], "span": t.get("span"),
                         "rv": {"k": "aggregate", "agg": "adt", "adt": rv["adt"], "variant": rv.get("variant"), "fields": fields, "ops": ops}}
