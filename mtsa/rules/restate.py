"""Composite checks: a property whose statement is a theorem about runtime values (C01, C02) is decided only through the
structural clauses at the mechanisms its anchors name.  Those clauses are owned (and implemented) by other properties' rule modules;
here the owning module is run under a proxy context that keeps exactly the selected rule ids and files them under this property's
own rule ids (`C01.C11-a`), so that the report, the evidence and the violation keys belong to this property.

Nothing is approximated: a selected clause is decided by the same engine code as in its owner; an unselected one is dropped.
Anchor loss of a selected clause (or of a whole owner module) fails closed here as well — nothing would have been verified."""
import importlib
import traceback


class RestateCtx:
    def __init__(self, real, owner, selected, why, keep=None):
        object.__setattr__(self, "_keep", keep)      # optional predicate on (rule id, construct): restate only these instances
        object.__setattr__(self, "_real", real)
        object.__setattr__(self, "_owner", owner)
        object.__setattr__(self, "_sel", selected)
        object.__setattr__(self, "_why", why)
        object.__setattr__(self, "_seen", set())

    def __getattr__(self, k):
        return getattr(self._real, k)

    def __setattr__(self, k, v):
        setattr(self._real, k, v)

    def _map(self, rid):
        if rid in self._sel:
            return "%s.%s" % (self._real.pid, rid)
        if rid in (self._owner, "internal"):
            return "%s.%s" % (self._real.pid, self._owner)
        return None

    def rule(self, rid, text):
        m = self._map(rid)
        if m and rid in self._sel:
            self._real.rule(m, "[%s] %s" % (self._why.get(rid, "restated"), text))

    def ob(self, rule, desc, ok, fn="?", construct=None, where=None, detail=None):
        m = self._map(rule)
        if m is None:
            return ok
        if self._keep is not None and rule in self._sel and not self._keep(rule, construct):
            return ok
        self._seen.add(rule)
        return self._real.ob(m, desc, ok, fn, construct, where, detail)

    def lost(self, rule, what, fn="?"):
        m = self._map(rule)
        if m is None:
            return None
        self._seen.add(rule)
        return self._real.lost(m, what, fn)

    def note(self, s):
        pass


def run_restated(ctx, plan, keep=None):
    """plan: list of (owner pid, {rule id: one-line reason why it is a necessary condition of this property})."""
    for owner, sel in plan:
        mod = importlib.import_module("mtsa.rules.%s" % owner.lower())
        px = RestateCtx(ctx, owner, set(sel), sel, keep)
        try:
            mod.run(px)
        except Exception as e:  # fail closed
            traceback.print_exc()
            ctx.lost("%s.%s" % (ctx.pid, owner), "analysis error in the owner's rules: %s: %s" % (type(e).__name__, e))
        # vacuity: every selected clause must have produced at least one instance (or an anchor-lost report)
        for rid in sel:
            if rid not in px._seen:
                ctx.lost("%s.%s" % (ctx.pid, rid), "the restated clause %s produced no instance on this tree" % rid)


def used_float_methods(ctx, roots, shallow=()):
    """Names of the scalar trait's methods called (transitively, through crate-local callees and closures) from the given bodies; of a
    `shallow` body only its own calls (and its closures') count — its callees are other properties' kernels."""
    f, R = ctx.facts, ctx.roles
    seen, st, used = set(), [b.key for b in roots if b is not None], set()
    for b in shallow:
        if b is None:
            continue
        for body in [b] + list(f.closures_of(b.path)):
            for _bi, t in body.calls():
                c = t.get("callee") or {}
                if str(c.get("trait") or "").endswith("MomTropFloat"):
                    used.add(c.get("name"))
    while st:
        k = st.pop()
        if k in seen or k not in f.mir:
            continue
        seen.add(k)
        b = f.mir[k]
        for _bi, t in b.calls():
            c = t.get("callee") or {}
            if str(c.get("trait") or "").endswith("MomTropFloat"):
                used.add(c.get("name"))
        for _bi, _t, cb in R.local_callees(b):
            st.append(cb.key)
        for cl in f.closures_of(b.path):
            st.append(cl.key)
    return used


def _f64_construct_method(construct):
    """method name behind a C20-a construct (`f64-method:m`, `f64-override:m`, either possibly reported as `kernel-undecided:…`)"""
    if not isinstance(construct, str):
        return None
    c = construct[len("kernel-undecided:"):] if construct.startswith("kernel-undecided:") else construct
    if c.startswith("f64-method:") or c.startswith("f64-override:"):
        return c.split(":", 1)[1]
    return None


def restate_f64_primitives(ctx, roots, what, shallow=()):
    """C20-a restated for exactly the scalar operations that the code behind this property calls: for the f64 instantiation each of them
    is the like-named std function.  (A change to a primitive this property's code never calls is not this property's business.)"""
    try:
        used = used_float_methods(ctx, [r() if callable(r) else r for r in roots], [r() if callable(r) else r for r in shallow])
    except Exception as e:     # a role could not be located: the owning rules report it
        return ctx.note("%s.C20-a: restated clause skipped — %s" % (ctx.pid, e))
    if not used:
        return ctx.note("%s.C20-a: no scalar-trait call reachable from %s" % (ctx.pid, what))
    ctx.note("%s.C20-a: scalar operations reachable from %s: %s" % (ctx.pid, what, sorted(used)))
    run_restated(ctx, [("C20", {"C20-a": "for T = f64 the scalar operations %s is written in (%s) are std's" % (what, ", ".join(sorted(used)))})],
                 keep=lambda rule, construct: _f64_construct_method(construct) in used)


def restate_sampler_is_callers(ctx):
    """C05-b restated for the properties whose formulas read the sampler's loop signature (L, u, V, momenta, jacobian): the sampler
    that build_sampler returns is the one assembled in that call, and its `loop_signature` is the caller's argument.  (A sampler
    memoised on the graph alone silently carries another call's routing.)"""
    sel = ("ok-payload-built-here", "ok-payload-floor", "signature-is-parameter", "table-moved-unmodified")
    run_restated(ctx, [("C05", {"C05-b": "the sampler returned by build_sampler is assembled in that call from its own table and the caller's loop signature"})],
                 keep=lambda rule, construct: construct in sel)


class _Without:
    """context proxy that drops the obligations with the given construct names"""
    def __init__(self, real, drop):
        object.__setattr__(self, "_real", real)
        object.__setattr__(self, "_drop", tuple(drop))

    def __getattr__(self, k):
        return getattr(self._real, k)

    def __setattr__(self, k, v):
        setattr(self._real, k, v)

    def ob(self, rule, desc, ok, fn="?", construct=None, where=None, detail=None):
        if construct in self._drop:
            return ok
        return self._real.ob(rule, desc, ok, fn, construct, where, detail)


def restate_loops_if_kernels_take_them(ctx, RID, kernels, what):
    """Conditional restatement: where the sampling routine hands one of the given kernels (L matrix, u vectors, …) an argument that is
    rooted at a stored `num_loops` field, the kernel's extent is the table's loop count — then, and only then, that count being the
    graph's loop number (C04-c / C03-f) is a necessary condition of this property too."""
    from ..vals import Vals
    from ..roles import RoleLost
    from .kernels import sample_world, graph_dod_clause, restated_clause, run_c03_loops, Undecided
    try:
        sm = ctx.roles.sample()
        w = sample_world(ctx)
        targets = {w.roles[k].path: k for k in kernels if k in w.roles}
    except (RoleLost, Undecided, KeyError, AttributeError) as e:
        return ctx.note("%s: conditional loop-count clause skipped — %s; the owning rule reports it" % (RID, e))
    v = Vals(sm)
    hits = []
    for _bi, t, cb in ctx.roles.local_callees(sm):
        if cb.path not in targets:
            continue
        for ai, a in enumerate(t["args"]):
            if a["k"] in ("copy", "move") and "num_loops" in [p_ for p_ in v.root(a).path if isinstance(p_, str)]:
                hits.append("%s argument %d" % (targets[cb.path], ai))
    if not hits:
        return ctx.note("%s: no kernel of %s takes the stored loop count; its extent comes from the signature" % (RID, what))
    ctx.rule(RID, "%s is sized by the table's stored loop count (%s): that count is the loop-number routine's value on all edges "
                  "(sum over components, Euler per component)" % (what, ", ".join(hits)))
    px = _Without(ctx, ("dod-formula",))     # the degree of divergence is not this property's business
    restated_clause(px, RID, "preprocessing::TropicalGraph::from_graph", "graph-loops", lambda: graph_dod_clause(px, RID))
    run_c03_loops(ctx, RID, soft=True)
