"""Guard facts on one f64 value: a forward may-analysis over the CFG of the value's possible
IEEE classes, refined at every switch whose condition inspects that value.

Classes: NAN, NINF, NEG (finite <0), ZERO (+-0), POS (finite >0), PINF.
"""
import math
import struct

from .vals import Vals, callee_is, bool_edges

NAN, NINF, NEG, ZERO, POS, PINF = "nan", "-inf", "neg", "zero", "pos", "+inf"
ALL = frozenset([NAN, NINF, NEG, ZERO, POS, PINF])

# class -> (lo, hi, kind) ; kind 'open' interval or 'point'
_INT = {
    NINF: (-math.inf, -math.inf, "point"),
    NEG: (-math.inf, 0.0, "open"),
    ZERO: (0.0, 0.0, "point"),
    POS: (0.0, math.inf, "open"),
    PINF: (math.inf, math.inf, "point"),
}


def _bits_to_f64(bits):
    return struct.unpack("<d", struct.pack("<Q", int(bits) & ((1 << 64) - 1)))[0]


def const_f64(operand):
    if operand["k"] != "const" or operand.get("ty") != "f64" or "bits" not in operand:
        return None
    return _bits_to_f64(operand["bits"])


def _can(cls, op, c, want):
    """Can some x in class `cls` make (x op c) evaluate to `want`?"""
    if cls == NAN:
        res = (op == "Ne")
        return res == want
    lo, hi, kind = _INT[cls]
    if math.isnan(c):
        res = (op == "Ne")
        return res == want

    def truth_possible(pred_true):
        # pred_true(x) for x in class: evaluate on representative points incl. limits near c
        pts = []
        if kind == "point":
            pts = [lo]
        else:
            # open interval (lo,hi): sample near the ends and around c if inside
            a = lo if lo != -math.inf else -1e300
            b = hi if hi != math.inf else 1e300
            eps_a = a + abs(a) * 1e-12 + 1e-300 if a != 0 else 1e-300
            eps_b = b - abs(b) * 1e-12 - 1e-300 if b != 0 else -1e-300
            pts = [eps_a, eps_b, (a + b) / 2 if math.isfinite(a + b) else 0.5 * a + 0.5 * b]
            if lo < c < hi:
                pts += [c, math.nextafter(c, math.inf), math.nextafter(c, -math.inf)]
            pts = [p for p in pts if lo < p < hi]
        return any(pred_true(p) for p in pts)

    ops = {
        "Gt": lambda x: x > c, "Ge": lambda x: x >= c, "Lt": lambda x: x < c, "Le": lambda x: x <= c,
        "Eq": lambda x: x == c, "Ne": lambda x: x != c,
    }
    f = ops[op]
    if want:
        return truth_possible(f)
    return truth_possible(lambda x: not f(x))


SWAP = {"Gt": "Lt", "Ge": "Le", "Lt": "Gt", "Le": "Ge", "Eq": "Eq", "Ne": "Ne"}

CLASS_CALLS = {
    # name -> classes for which the predicate is true
    "is_nan": frozenset([NAN]),
    "is_finite": frozenset([NEG, ZERO, POS]),
    "is_infinite": frozenset([NINF, PINF]),
    "is_normal": frozenset([NEG, POS]),       # subnormals excluded: true => non-zero finite
}


def _cond_classes(v, cond, target_root):
    """For a classified bool (from Vals.classify_bool) return (true_set, false_set) of classes of the
    target value compatible with the condition being true / false; None if it does not inspect it."""
    if cond is None:
        return None
    k = cond[0]
    if k == "not":
        inner = _cond_classes(v, cond[1], target_root)
        if inner is None:
            return None
        return inner[1], inner[0]
    if k == "call":
        t = cond[1]
        c = t.get("callee") or {}
        name = c.get("name")
        if name in CLASS_CALLS and "f64" in c.get("path", "") and t["args"]:
            if v.root(t["args"][0]) == target_root:
                tset = CLASS_CALLS[name]
                if name == "is_normal":
                    # false edge: anything (subnormal positives are POS too)
                    return tset, ALL
                return tset, ALL - tset
        # a predicate defined in the crate (`fn is_valid(x: f64) -> bool`): summarised from its own body
        summ = _predicate_summary(v, t, target_root)
        if summ is not None:
            return summ
        return None
    if k == "binop":
        rv = cond[1]
        op = rv["op"]
        if op not in SWAP:
            return None
        ra, rb = v.root(rv["a"]), v.root(rv["b"])
        ca, cb = const_f64(rv["a"]), const_f64(rv["b"])
        if ra == target_root and cb is not None:
            o, c = op, cb
        elif rb == target_root and ca is not None:
            o, c = SWAP[op], ca
        else:
            return None
        tset = frozenset(k2 for k2 in ALL if _can(k2, o, c, True))
        fset = frozenset(k2 for k2 in ALL if _can(k2, o, c, False))
        return tset, fset
    return None


_summaries = {}


def _local_body(facts, callee):
    from .vals import norm_path
    for key in ("resolved", "path"):
        p = callee.get(key)
        if p and p in facts.mir:
            return facts.mir[p]
    p = callee.get("path")
    if p:
        hits = [b for b in facts.mir.values() if norm_path(b.path) == norm_path(p)]
        if len(hits) == 1:
            return hits[0]
    return None


def _predicate_summary(v, term, target_root, depth=0):
    """(classes for which the local predicate may return true, classes for which it may return false) of the argument that is the
    target value; None when the callee is not a local bool function of that value."""
    facts = getattr(v.body, "facts", None)
    c = term.get("callee") or {}
    if facts is None or c.get("trait") or depth > 2:
        return None
    cb = _local_body(facts, c)
    if cb is None or cb.local_ty(0) != "bool":
        return None
    idx = [i for i, a in enumerate(term["args"]) if a["k"] in ("copy", "move") and v.root(a) == target_root]
    if len(idx) != 1 or cb.local_ty(idx[0] + 1) != "f64":
        return None
    key = (id(facts), cb.key, idx[0])
    if key in _summaries:
        return _summaries[key]
    from .vals import Root
    vv = Vals(cb)
    tr = Root(("arg", idx[0] + 1))
    IN, _g, _o = classes_at(cb, tr, vv)
    tset, fset = set(), set()
    for bi, blk in enumerate(cb.blocks):
        if blk["cleanup"] or bi not in IN:
            continue
        cur = IN[bi]
        defs = [st for st in blk["stmts"] if st["place"]["l"] == 0 and not st["place"]["p"]]
        t_ = blk["term"]
        if t_["k"] == "call" and t_["dest"]["l"] == 0 and not t_["dest"]["p"]:
            cc = _cond_classes(vv, ("call", t_, bi), tr)
            if cc is None:
                tset |= cur
                fset |= cur
            else:
                tset |= cur & cc[0]
                fset |= cur & cc[1]
        for st in defs:
            rv = st["rv"]
            if rv["k"] == "use" and rv["op"]["k"] == "const":
                (tset if rv["op"].get("int") == "1" or rv["op"].get("disp") == "true" else fset).update(cur)
                continue
            cond = vv.classify_bool(rv["op"]) if rv["k"] == "use" else (("binop", rv) if rv["k"] == "binop" else None)
            cc = _cond_classes(vv, cond, tr) if cond is not None else None
            if cc is None:
                tset |= cur
                fset |= cur
            else:
                tset |= cur & cc[0]
                fset |= cur & cc[1]
    out = (frozenset(tset), frozenset(fset))
    _summaries[key] = out
    return out


def class_of_const(c):
    if math.isnan(c):
        return NAN
    if c == math.inf:
        return PINF
    if c == -math.inf:
        return NINF
    if c == 0:
        return ZERO
    return POS if c > 0 else NEG


def classes_at(body, target_root, v=None, init=None):
    """dict block -> frozenset of classes the value may have on entry to the block.  For a root that is a re-assigned local the
    assignments inside blocks are followed (constant => its class, anything else => unknown)."""
    v = v or Vals(body)
    n = len(body.blocks)
    IN = {0: frozenset(init) if init is not None else ALL}
    succ = body.succs()
    work = [0]
    guards = {}
    tl = target_root.base[1] if target_root.kind == "local" and not target_root.path else None

    def through_block(b, cur):
        if tl is None:
            return cur
        for st in body.blocks[b]["stmts"]:
            if st["k"] == "assign" and st["place"]["l"] == tl and not st["place"]["p"]:
                rv = st["rv"]
                c = const_f64(rv["op"]) if rv["k"] == "use" else None
                cur = frozenset([class_of_const(c)]) if c is not None else ALL
                if c is None and rv["k"] == "use":
                    ct = v.call_term(v.root(rv["op"]))
                    if ct is not None and (ct.get("callee") or {}).get("impl_self") == "f64" and ct["callee"].get("name") == "max":
                        if any((const_f64(a) or 0) > 0 for a in ct["args"]):
                            cur = frozenset([POS, PINF])
        t_ = body.blocks[b]["term"]
        if t_["k"] == "call" and t_["dest"]["l"] == tl and not t_["dest"]["p"]:
            cur = ALL
            c_ = t_.get("callee") or {}
            if c_.get("impl_self") == "f64" and c_.get("name") == "max" and len(t_["args"]) == 2:
                # x.max(c) with a positive constant c: the result is >= c > 0 (max ignores a NaN operand)
                consts = [const_f64(a) for a in t_["args"]]
                if any(c is not None and c > 0 for c in consts):
                    cur = frozenset([POS, PINF])
        return cur

    while work:
        b = work.pop()
        cur = through_block(b, IN[b])
        t = body.blocks[b]["term"]
        outs = {}
        if t["k"] == "switch":
            cond = v.classify_bool(t["discr"])
            cc = _cond_classes(v, cond, target_root)
            if cc is not None:
                te, fe = bool_edges(body, b)
                guards[b] = cc
                if te is not None:
                    outs[te] = cur & cc[0]
                    outs[fe] = cur & cc[1] if fe not in outs else outs[fe] | (cur & cc[1])
        for s in succ[b]:
            o = outs.get(s, cur)
            if not o:
                continue  # edge infeasible for every class: unreachable for this value
            old = IN.get(s)
            new = o if old is None else (old | o)
            if new != old:
                IN[s] = new
                work.append(s)
    OUT = {b: through_block(b, c_) for b, c_ in IN.items()}
    return IN, guards, OUT
