"""Roles of private helpers found by SHAPE or PROVENANCE (never by name): the methods of the subgraph-id bit mask and the
graph routines whose values the table stores.  A rename of any of them changes nothing here."""
from .roles import RoleLost
from .vals import Vals
from . import pat


def id_adt(ctx):
    """The subgraph-id type: the local ADT (other than the table) that the scan takes (by reference or by value)."""
    from .rules.c06 import find_scan
    f = ctx.facts
    sector, scan_site = find_scan(ctx, ctx.roles)
    scan = scan_site[2]
    cands = []
    for l in scan.locals[1:scan.arg_count + 1]:
        t = f.ty(l["ty"]) or {}
        u = (f.ty(t["t"]) or {}) if t.get("k") == "ref" else t      # by reference, or (the id is Copy) by value
        if u.get("k") == "adt" and u["path"] in f.adts and not u["path"].endswith("TropicalSubgraphTable"):
            cands.append(u["path"])
    if len(cands) != 1:
        raise RoleLost("subgraph-id type: ADT parameter of the scan (found %d)" % len(cands))
    return cands[0]


_cache = {}


def id_roles(ctx):
    key = id(ctx.facts)
    if key in _cache:
        return _cache[key]
    from .kern.interp import Interp, Undecided, Num, Arr, Struct, Cond, num_size
    from .kern.expr import Expr, bitop
    f = ctx.facts
    adt = id_adt(ctx)
    fields = [x["name"] for x in f.adts[adt]["variants"][0]["fields"]]
    if len(fields) != 2:
        raise RoleLost("subgraph-id type is not (mask, extent)")
    G = Expr.symbol("g")
    one = Expr.const(1)
    out = {"adt": adt}

    def mk_me(order):
        return Struct("Id", {order[0]: Num(G), order[1]: num_size("E")})

    methods = [b for b in f.mir.values() if (f.ty((f.fns.get(b.path) or {}).get("impl_self") or "") or {}).get("path") == adt
               and not (f.fns.get(b.path) or {}).get("impl_trait") and not b.j.get("root")]
    for order in (fields, fields[::-1]):
        me = mk_me(order)
        mask, ext = order
        found = {}
        for b in methods:
            fi = f.fns[b.path]
            ins = fi.get("inputs", [])
            args = None
            if fi.get("has_self") and len(ins) == 1:
                args = [me]
            elif fi.get("has_self") and len(ins) == 2 and ins[1] == "usize":
                args = [me, Num(Expr.leaf("$ix", "e"), ent="e")]
            elif not fi.get("has_self") and ins == ["usize"]:
                args = [num_size("E")]
            elif not fi.get("has_self") and ins == ["usize", "usize"]:
                args = [Num(Expr.leaf("$ix", "i"), ent="i"), num_size("E")]
            if args is None:
                continue
            try:
                r = Interp(f).run_fn(b.path, args)
            except Undecided:
                continue
            role = None
            if isinstance(r, Struct) and mask in r.fields and isinstance(r.fields[mask], Num):
                e_ = r.fields[mask].expr
                if len(args) == 2 and fi.get("has_self") and e_ == bitop("bitxor", G, Expr.atom(("call", "shl", one, Expr.leaf("$ix", "e")))):
                    role = "pop_edge"
                elif len(args) == 1 and not fi.get("has_self") and e_ == Expr.atom(("call", "shl", one, Expr.symbol("E"))) - one:
                    role = "new"
                elif len(args) == 2 and not fi.get("has_self") and e_ == Expr.leaf("$ix", "i"):
                    role = "from_id"
            elif isinstance(r, Cond):
                def is_cmp(op, x, y):
                    # the comparison in either operand order, or its negated dual
                    t = r.tree
                    neg = False
                    while t[0] == "not":
                        t, neg = t[1], not neg
                    if t[0] != "cmp" or {t[2], t[3]} != {x, y}:
                        return False
                    eff = {"Eq": "Ne", "Ne": "Eq"}.get(t[1], t[1]) if neg else t[1]
                    return eff == op
                zero = Expr.zero().key()
                if is_cmp("Ne", bitop("bitand", G, Expr.atom(("call", "shl", one, Expr.leaf("$ix", "e")))).key(), zero):
                    role = "has_edge"
                elif is_cmp("Eq", G.key(), zero):
                    role = "is_empty"
                elif is_cmp("Eq", Expr.atom(("call", "popcount", G)).key(), one.key()):
                    role = "has_one_edge"
            elif isinstance(r, Num) and r.expr == G and len(args) == 1:
                role = "get_id"
            elif isinstance(r, Arr) and len(r.classes) == 1 and isinstance(r.classes[0], str) and r.classes[0].startswith("{§∈E | ") and "bitand" in r.classes[0]:
                role = "contains_edges"
            if role is not None and role not in found:
                found[role] = b
        if len(found) > len(out) - 1:
            out = dict(found, adt=adt, mask_field=mask, extent_field=ext)
    need = ("pop_edge", "is_empty", "has_one_edge", "contains_edges", "new", "get_id")
    missing = [r for r in need if r not in out]
    if missing:
        raise RoleLost("subgraph-id methods not recognised by shape: %s" % missing)
    _cache[key] = out
    return out


def is_role(ctx, term_or_callee, role):
    """Does this call terminator / callee record call the body playing `role`?"""
    c = term_or_callee.get("callee", term_or_callee)
    try:
        idr = id_roles(ctx)
    except RoleLost:
        return False
    b = ctx.roles.body_of_callee(c)
    return b is not None and b is idr.get(role)


_gcache = {}


def graph_roles(ctx):
    """loopnum / spanning: callees of the table builder whose results are stored in the entry's loop_number / mass_momentum_spanning;
    components: the local callee of `spanning` that returns a Vec of subgraph ids; full_id: the callee returning an id from the graph alone."""
    key = id(ctx.facts)
    if key in _gcache:
        return _gcache[key]
    from .rules.c05 import table_builder
    R = ctx.roles
    f = ctx.facts
    bs, site = table_builder(R)
    tb = site[2]
    v = Vals(tb)
    out = {"table_builder": tb}
    idr = id_roles(ctx)
    stores = []
    for bi, si, st in pat.stmts(tb):
        flds = [e for e in st["place"]["p"] if e["k"] == "field"]
        if flds and flds[-1]["name"] in ("loop_number", "mass_momentum_spanning"):
            stores.append((flds[-1]["name"], st["rv"].get("op")))
        rv_ = st["rv"]
        if rv_["k"] == "aggregate" and rv_.get("agg") == "adt" and rv_.get("fields"):
            # the whole entry written at once: `*entry = Entry { loop_number: Some(..), .. }`
            for nm_ in ("loop_number", "mass_momentum_spanning"):
                if nm_ in rv_["fields"]:
                    stores.append((nm_, rv_["ops"][rv_["fields"].index(nm_)]))
    for fname, op in stores:
        if not op or op["k"] not in ("copy", "move"):
            continue
        r = v.deep_root(op)
        rv = v.rvalue_of(r) if r.kind == "local" else None
        for _ in range(4):
            if rv is not None and rv["k"] == "aggregate" and rv.get("variant") == "Some":
                r = v.deep_root(rv["ops"][0])
                rv = v.rvalue_of(r) if r.kind == "local" else None
                continue
            if rv is not None and rv["k"] == "cast":
                r = v.deep_root(rv["op"])
                rv = v.rvalue_of(r) if r.kind == "local" else None
                continue
            break
        t = v.call_term(r)
        if t is None and r.kind == "local":
            d = v.single_def(r.base[1])
            if d and d[0] == "call":
                t = d[2]
        cb = R.body_of_callee(t.get("callee")) if t is not None else None
        if cb is not None:
            out.setdefault("loopnum" if fname == "loop_number" else "spanning", cb)
    for k in ("loopnum", "spanning"):
        if k not in out:
            from .roles import writes_field
            raise RoleLost("graph routine `%s`: producer of the stored entry field" % k, wanted=writes_field("loop_number", "mass_momentum_spanning"))
    idty = f.adts[idr["adt"]]["self_ty"]
    comps = [cb for bi, t, cb in R.local_callees(out["spanning"]) if cb.local_ty(0).startswith("alloc::vec::Vec<") and idty in cb.local_ty(0)]
    if len(set(id(c) for c in comps)) == 1:
        out["components"] = comps[0]
    fulls = [cb for bi, t, cb in R.local_callees(tb) if cb.local_ty(0) == idty and cb.arg_count == 1]
    if len(set(id(c) for c in fulls)) == 1:
        out["full_id"] = fulls[0]
    _gcache[key] = out
    return out
