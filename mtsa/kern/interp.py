"""E5 — abstract interpreter over typed HIR (THIR) with symbolic sizes.

Evaluates a function body ONCE, with loop variables symbolic; `for` loops over ranges and iterator pipelines are summarised
(Σ / Π / element-wise rules), never unrolled; local callees are evaluated from their own bodies.  Scalars are Σ-polynomials
(expr.py).  A statement the model cannot summarise makes the locals it may modify OPAQUE (named atoms), so a compared output
that depends on it cannot match its reference formula: undecided parts fail closed.  No momtrop code is executed.
"""
import sympy as sp

from .expr import Expr, Term, fresh, S, sym, lift

INT_TYPES = {"usize", "isize", "u8", "u16", "u32", "u64", "i8", "i16", "i32", "i64", "u128", "i128"}


class Undecided(Exception):
    def __init__(self, what, span=None):
        Exception.__init__(self, what)
        self.what = what
        self.span = span


class ControlUndecided(Undecided):
    """A jump (continue / break / return) the model cannot follow: must not be swallowed by the statement-level fallback —
    it invalidates the whole enclosing loop (or function)."""


# ---------------------------------------------------------------------------------------------------
# values

class Val:
    pass


class Num(Val):
    """Any numeric value.  `ent` = index entity when the value is usable as an index (variable or small int);
    `size` = size-class name when the value is the extent of a class (used as range bound)."""
    def __init__(self, expr, ent=None, size=None):
        self.expr = lift(expr)
        self.ent = ent
        self.size = size

    def __repr__(self):
        return "Num(%s)" % self.expr.key()


def num_const(c):
    return Num(Expr.const(c), ent=c if isinstance(c, int) and abs(c) < 64 else None)


def num_index(var):
    return Num(Expr.leaf("$ix", var), ent=var)


def num_size(cls):
    return Num(Expr.symbol(cls), size=cls)


class Arr(Val):
    """n-dimensional array / sequence with symbolic extent(s): base(idx...) -> Val plus ordered write rules."""
    def __init__(self, classes, base, rules=(), guards_fn=None, name=None, elem_kind="val"):
        self.classes = tuple(classes)      # size class per dimension
        self.base = base                   # callable(*entities) -> Val
        self.rules = tuple(rules)
        self.guards_fn = guards_fn         # for ranges: callable(k) -> guards restricting the element index
        self.name = name

    def at(self, *idx):
        v = self.base(*idx)
        for r in self.rules:
            v = r.apply(v, idx)
        return v

    def with_rule(self, rule):
        return Arr(self.classes, self.base, self.rules + (rule,), self.guards_fn, self.name)


class Rule:
    """One summarised write: for all binders (under guards): target[index](.field)* (op)= value."""
    def __init__(self, index, op, value, binders=(), guards=(), subpath=()):
        self.index = tuple(index)          # entities (binder vars, free vars or ints)
        self.op = op                       # '=', '+', '-', '*'
        self.value = value                 # Val (scalar Num or structured), may mention binders
        self.binders = tuple(binders)      # (name, cls)
        self.guards = tuple(guards)
        self.subpath = tuple(subpath)      # field names below the element

    def apply(self, old, idx):
        if self.subpath:
            if not isinstance(old, Struct):
                raise Undecided("field write on a non-struct element")
            fname = self.subpath[0]
            inner = Rule(self.index, self.op, self.value, self.binders, self.guards, self.subpath[1:])
            f = dict(old.fields)
            f[fname] = inner.apply(old.fields[fname], idx)
            return Struct(old.name, f)
        return self.apply_here(old, idx)

    def apply_here(self, old, idx):
        m = {}
        gs = list(self.guards)
        bnames = [b for b, _c in self.binders]
        for f, r in zip(self.index, idx):
            if isinstance(f, str) and f in bnames and f not in m:
                m[f] = r
            else:
                f2 = m.get(f, f) if isinstance(f, str) else f
                gs.append(("=", f2, r))
        rest = [(b, c) for b, c in self.binders if b not in m]
        gs = [tuple([g[0]] + [m.get(x, x) if isinstance(x, str) else x for x in g[1:]]) for g in gs]

        def contrib(v):
            e = v.expr.subst(m, drop=False) if m else v.expr
            e = e.guarded(gs) if gs else e
            for b, c in rest:
                e = e.sum_over(b, c)
            return e

        if not isinstance(old, Num) or not isinstance(self.value, Num):
            # structured elements: only plain overwrite without residual binders is supported
            if self.op == "=" and not rest and not gs:
                return subst_val(self.value, m)
            raise Undecided("write rule on structured element (op %s, residual binders %s, guards %s)" % (self.op, rest, gs))
        if self.op == "+":
            return Num(old.expr + contrib(self.value))
        if self.op == "-":
            return Num(old.expr - contrib(self.value))
        if self.op == "*":
            if rest or gs:
                raise Undecided("guarded / reduced multiplicative update")
            return Num(old.expr * self.value.expr.subst(m))
        if self.op == "=":
            if rest:
                raise Undecided("overwrite with residual binders")
            newv = self.value.expr.subst(m)
            if not gs:
                return Num(newv)
            def neg_(g):
                return {"<": ("<=", g[2], g[1]), "<=": ("<", g[2], g[1]), "=": ("!=", g[1], g[2]), "!=": ("=", g[1], g[2])}[g[0]]
            # ¬(g1 ∧ g2 ∧ ..) as a disjoint union: ¬g1  ∪  g1∧¬g2  ∪  g1∧g2∧¬g3 ..
            keep = Expr.zero()
            for i_, g in enumerate(gs):
                keep = keep + old.expr.guarded(list(gs[:i_]) + [neg_(g)])
            return Num(newv.guarded(gs) + keep)
        raise Undecided("rule op %s" % self.op)


class Struct(Val):
    def __init__(self, name, fields):
        self.name = name
        self.fields = dict(fields)

    def __repr__(self):
        return "Struct(%s)" % self.name


class Tup(Val):
    def __init__(self, items):
        self.items = list(items)


class Opt(Val):
    def __init__(self, some, payload=None):
        self.some = some
        self.payload = payload


class Cond(Val):
    """Boolean value: either a Python bool, an order relation between index entities, or an opaque condition key."""
    def __init__(self, kind, data, tree=None):
        self.kind = kind      # 'const' | 'rel' | 'key'
        self.data = data
        self._tree = tree     # optional boolean structure: ('cmp', op, lkey, rkey) | ('or'|'and', t, t) | ('not', t) | ('atom', key)

    @property
    def tree(self):
        if self._tree is not None:
            return self._tree
        if self.kind == "const":
            return ("const", bool(self.data))
        return ("atom", self.key())

    def negate(self):
        if self.kind == "const":
            return Cond("const", not self.data)
        if self.kind == "rel":
            rel, a, b = self.data
            return Cond("rel", {"<": ("<=", b, a), "<=": ("<", b, a), "=": ("!=", a, b), "!=": ("=", a, b)}[rel])
        n_ = Cond("key", "!(%s)" % self.data, tree=("not", self.tree))
        cm = getattr(self, "cmp", None)
        if cm is not None:     # over the reals (the engine's reading of f64): !(a < b) is a >= b
            n_.cmp = ({"Lt": "Ge", "Le": "Gt", "Gt": "Le", "Ge": "Lt", "Eq": "Ne", "Ne": "Eq"}[cm[0]], cm[1], cm[2])
        return n_

    def key(self):
        if self.kind == "rel":
            return "«%s»%s«%s»" % (self.data[1], self.data[0], self.data[2])
        return str(self.data)


class Closure(Val):
    def __init__(self, path, env):
        self.path = path
        self.env = env


class FnItem(Val):
    def __init__(self, callee):
        self.callee = callee


class UnitV(Val):
    pass


class Opaque(Val):
    """A value the model could not compute; shaped lazily by how it is used."""
    def __init__(self, name):
        self.name = name


class PlaceRef(Val):
    """&mut reference to a place (var + path) — closure parameters of for_each, &mut arguments."""
    def __init__(self, var, path):
        self.var = var
        self.path = tuple(path)


UNIT = UnitV()
BREAK = UnitV()


def subst_val(v, m):
    if not m:
        return v
    if isinstance(v, Num):
        ent = m.get(v.ent, v.ent) if isinstance(v.ent, str) else v.ent
        return Num(v.expr.subst(m), ent, v.size)
    if isinstance(v, Struct):
        return Struct(v.name, {k: subst_val(x, m) for k, x in v.fields.items()})
    if isinstance(v, Tup):
        return Tup([subst_val(x, m) for x in v.items])
    if isinstance(v, Arr):
        base, rules = v.base, v.rules

        def nb(*idx):
            return subst_val(base(*idx), m)
        return Arr(v.classes, nb, [Rule([m.get(i, i) if isinstance(i, str) else i for i in r.index], r.op, subst_val(r.value, m), r.binders,
                                        [tuple([g[0]] + [m.get(x, x) if isinstance(x, str) else x for x in g[1:]]) for g in r.guards], r.subpath) for r in rules],
                   v.guards_fn, v.name)
    if isinstance(v, Opt):
        some = v.some
        if isinstance(some, Cond):
            some = subst_val(some, m)
        return Opt(some, subst_val(v.payload, m) if v.payload is not None else None)
    if isinstance(v, Cond):
        if v.kind == "rel":
            return Cond("rel", tuple([v.data[0]] + [m.get(x, x) if isinstance(x, str) else x for x in v.data[1:]]))
        if v.kind == "key":
            from .expr import cond_subst
            return Cond("key", cond_subst(v.data, m))
        return v
    if hasattr(v, "m_subst"):
        return v.m_subst(m)
    return v


def opaque_by_type(ty_s, name, types, dims=None):
    """Shape an opaque value from its type string (scalars become symbols, containers named leaves)."""
    t = types.get(ty_s) or {}
    k = t.get("k")
    if k == "ref":
        return opaque_by_type(t["t"], name, types, dims)
    if k == "param":
        return Num(Expr.atom(("leaf", name)))
    if k == "prim":
        if t["name"] in INT_TYPES:
            return Num(Expr.atom(("leaf", name)))
        if t["name"] in ("f64", "f32"):
            return Num(Expr.atom(("leaf", name)))
        if t["name"] == "bool":
            return Cond("key", name)
    if k == "adt":
        p = t["path"]
        for suffix, factory in OPAQUE_ADT_FACTORIES.items():
            if p.endswith(suffix):
                return factory(name)
        if p.endswith("SquareMatrix"):
            return Arr(("n", "n"), lambda r, c, _n=name: Num(Expr.leaf(_n, r, c)), name=name)
        if p.endswith("vec::Vec") or p.endswith("SmallVec"):
            inner = [a["t"] for a in t["args"] if a["k"] == "ty"]
            return Arr(("?",), lambda i, _n=name, _in=inner: elem_opaque(_in[0] if _in else None, _n, (i,), types), name=name)
        if p.endswith("vector::Vector"):
            return Struct("Vector", {"elements": Arr(("D",), lambda c, _n=name: Num(Expr.leaf(_n, c)), name=name)})
    if k in ("slice", "array"):
        return Arr(("?",), lambda i, _n=name, _t=t["t"]: elem_opaque(_t, _n, (i,), types), name=name)
    return Opaque(name)


OPAQUE_ADT_FACTORIES = {}


def elem_opaque(ty_s, name, idx, types):
    t = types.get(ty_s) or {}
    k = t.get("k")
    if k == "ref":
        return elem_opaque(t["t"], name, idx, types)
    if k in ("param", "prim"):
        return Num(Expr.leaf(name, *idx))
    if k == "adt" and t["path"].endswith("vector::Vector"):
        return Struct("Vector", {"elements": Arr(("D",), lambda c: Num(Expr.leaf(name, *(idx + (c,)))))})
    if k == "adt" and t["path"].endswith("SquareMatrix"):
        return Arr(("n", "n"), lambda r, c: Num(Expr.leaf(name, *(idx + (r, c)))))
    if k == "adt" and t["path"].endswith("vec::Vec"):
        inner = [a["t"] for a in t["args"] if a["k"] == "ty"]
        return Arr(("?",), lambda j: elem_opaque(inner[0] if inner else None, name, idx + (j,), types))
    return Opaque("%s[%s]" % (name, ",".join(str(i) for i in idx)))


# ---------------------------------------------------------------------------------------------------

class LoopCtx:
    def __init__(self, binder, cls, guards, inner_vars):
        self.binder = binder
        self.cls = cls
        self.guards = list(guards)
        self.inner_vars = inner_vars     # set of var ids defined inside the loop body
        self.effects = []                # (var, path, op, value, guards, binders)
        self.reads = set()               # variables read while this loop was active
        self.order = 0


ALL_INTERPS = []


def engine_assumptions():
    out = []
    for I in ALL_INTERPS:
        for a in I.assumptions:
            if a not in out:
                out.append(a)
    return out


class Interp:
    def __init__(self, facts, models=None, max_inline_depth=12):
        self.f = facts
        self.thir = facts.thir
        self.types = facts.types
        self.models = models or {}
        self.depth = 0
        self.max_depth = max_inline_depth
        self.undecided = []        # (what, span)
        self.assumptions = []
        ALL_INTERPS.append(self)   # the evidence lists every assumption an interpreter of this run relied on
        self.loops = []            # stack of LoopCtx
        self.opaque_counter = 0
        self.trace = []
        self.early_returns = []
        self.recurrences = []
        self.named_locals = {}
        self.block_envs = []
        self.self_opaque = set()
        self.write_log = []
        self.cur_env = None
        self.breaks = []
        self.while_loops = []
        self.derived_sizes = {}
        self.var_names = {}
        self.cond_stack = []
        self.extra_guards = []
        self.homes = {}            # variable id -> environment that defines it (for &mut references crossing call frames)
        self.early_conds = []      # (condition with boolean tree, value, index guards) of every early exit
        self.frames = []           # call frames: early returns of the frame are folded into its result (see note_early)
        self.allow_ref_writes_after_exit = False   # a rule that reads the write log (with its conditions) itself may switch this on
        self.fold_early = True     # rules that account for early returns themselves (strictly) switch this off
        self.ref_writes = 0        # writes that went through a &mut reference (caller-visible effects)
        self.matrix_level = False  # polynomials in one matrix are kept at matrix level (models.MatArr); switched on by the matrix rules
        self.mat_defs = {}         # name of a matrix-level value -> its polynomial in the base matrix
        self.mat_base = None       # the Arr that plays N̂
        self.mat_ops_used = set()  # operator impls that were short-cut at matrix level (their entry-wise meaning is verified by the rule)
        self.list_recurrences = [] # closed forms found for lists built by a push recurrence

    # ---- environment ------------------------------------------------------------------------
    class Env:
        def __init__(self, parent=None):
            self.vars = {}
            self.parent = parent
            self.homes = parent.homes if parent is not None else None     # per-interpreter registry, attached by run_fn

        # variable ids are unique per body, so a `&mut` reference handed to a callee (whose environment does not chain to the caller's)
        # still names one variable: where it lives is remembered when it is defined
        def lookup(self, vid):
            e = self
            while e is not None:
                if vid in e.vars:
                    return e
                e = e.parent
            h = self.homes.get(vid) if self.homes is not None else None
            if h is not None and vid in h.vars:
                return h
            return None

        def get(self, vid):
            e = self.lookup(vid)
            if e is None:
                raise Undecided("unbound variable %s" % vid)
            return e.vars[vid]

        def set(self, vid, val):
            e = self.lookup(vid)
            (e or self).vars[vid] = val

        def define(self, vid, val):
            self.vars[vid] = val
            if self.homes is not None:
                self.homes[vid] = self

    # ---- entry points -------------------------------------------------------------------------
    def body_of(self, path):
        b = self.thir.get(path)
        if b is not None:
            return b
        for k, bb in self.thir.items():
            if bb["path"] == path:
                return bb
        return None

    def run_fn(self, path, args, env=None):
        """Evaluate function `path` with argument values; returns the result value."""
        b = self.body_of(path)
        if b is None:
            raise Undecided("no body for %s" % path)
        e = Interp.Env(env)
        if e.homes is None:
            e.homes = self.homes
        if env is not None and env.homes is None:
            # a synthetic environment built by a rule (`env.define("T", table)`): adopt it
            env.homes = self.homes
            for vid_ in env.vars:
                self.homes[vid_] = env
        params = [p for p in b["params"]]
        if len(params) != len(args):
            # closures: first THIR param is the closure environment
            if len(params) == len(args) + 1:
                params = params[1:]
            else:
                raise Undecided("arity mismatch calling %s" % path)
        for p, a in zip(params, args):
            if "pat" in p:
                self.bind(p["pat"], a, e)
        if self.depth == 0:
            self.top_env = e
        if self.loops and env is None:
            # a function called from inside a summarised loop: its own locals are per-iteration temporaries of that loop, not
            # accumulators that outlive it
            own = collect_bound_vars(b["body"]) | collect_bound_vars(b["params"])
            for lc in self.loops:
                if isinstance(lc.inner_vars, set):
                    lc.inner_vars |= own
        self.depth += 1
        fr = {"path": path, "early": [], "loops": len(self.loops), "conds": len(self.cond_stack), "refw": None}
        self.frames.append(fr)
        try:
            if self.depth > self.max_depth:
                raise Undecided("inlining depth exceeded at %s" % path)
            try:
                try:
                    ret = self.eval(b["body"], e)
                except ReturnSignal as r:
                    ret = r.value
                return self.fold_frame(fr, ret)
            except ControlUndecided as cu:
                raise Undecided("function body: %s" % cu.what, cu.span)
        finally:
            self.frames.pop()
            self.depth -= 1

    def note_early(self, c, value):
        """One arm of a conditional returned from the function while the other goes on.  The pair is always logged (rules that account
        for early returns themselves read the log and switch folding off); with folding on, the frame's result becomes
        ite(c, value, rest-of-function) when the frame is left — provided the shape is one the model can express."""
        self.early_returns.append((c.key(), value))
        # the full condition of the exit (enclosing opaque conditions included), with its boolean structure, for rules that decide
        # WHEN a function gives up (error discipline) rather than what it computes
        full = c
        for oc in reversed(self.cond_stack):
            full = cond_and(oc, full)
        self.early_conds.append((full, value, [tuple(g) for g in self.current_guards()]))
        if not self.fold_early or not self.frames:
            return
        fr = self.frames[-1]
        is_failure = isinstance(value, Opt) and value.some is False
        in_loop = len(self.loops) > fr["loops"]
        # the exit happens under every opaque condition entered since the frame began (enclosing arms, earlier exits' negations)
        full = c
        for oc in reversed(self.cond_stack[fr["conds"]:]):
            full = cond_and(oc, full)
        if is_failure:
            # an error exit (Err / None): the summaries describe the function on its Ok path, where no error exit was taken; outside
            # loops its condition is folded into the presence of the result, inside a loop it is only logged
            if not in_loop:
                fr["early"].append((full, value))
                self.cond_stack.append(c.negate())
            return
        # ControlUndecided: the statement-level opaque fallback must not swallow this (the jump would silently disappear)
        if in_loop:
            # search loop: `for x in xs { if p(x) { return CONST } }` — the loop leaves the function with a constant truth value at the
            # first element satisfying p; recorded on the loop and turned into a quantifier when the loop has been summarised
            lc = self.loops[-1]
            if len(self.loops) == fr["loops"] + 1 and isinstance(value, Cond) and value.kind == "const":
                full_l = c
                for oc in reversed(self.cond_stack[getattr(lc, "cond_base", 0):]):
                    full_l = cond_and(oc, full_l)
                if not hasattr(lc, "search_exits"):
                    lc.search_exits = []
                lc.search_exits.append((full_l, value))
                return
            raise ControlUndecided("value-returning early exit inside a summarised loop of %s (condition %s)" % (fr["path"], c.key()[:80]))
        fr["early"].append((full, value))
        # what follows in this frame happens only when the exit was not taken
        self.cond_stack.append(c.negate())
        if fr["refw"] is None:
            fr["refw"] = self.ref_writes

    def note_continue(self, c, depth, span=None):
        """`if c { continue }` in a summarised for loop.  Innermost loop: the rest of this iteration happens only under ¬c (dropped when
        the iteration ends).  The loop around it (`continue 'outer` inside a nested search): this inner loop becomes the search
        "some element satisfies c", and the rest of the OUTER iteration happens only when none does."""
        if not self.loops:
            raise ControlUndecided("continue outside a summarised loop", span)
        lc = self.loops[-1]
        full = c
        for oc in reversed(self.cond_stack[getattr(lc, "cond_base", 0):]):
            full = cond_and(oc, full)
        if depth == 0:
            self.cond_stack.append(c.negate())
            return
        if depth == 1 and len(self.loops) >= 2:
            if not hasattr(lc, "skip_outer"):
                lc.skip_outer = []
            lc.skip_outer.append(full)
            self.cond_stack.append(c.negate())
            return
        raise ControlUndecided("continue of a loop further out", span)

    def note_early_rel(self, c, value, span=None):
        """Early return under an order relation between index entities (e.g. `if id == 0 { return 1.0 }`): the rest of the function
        is evaluated under the negated relation and the results are joined as guarded terms when the frame is left."""
        if not self.frames:
            raise ControlUndecided("return under an index relation outside a function frame", span)
        fr = self.frames[-1]
        if len(self.loops) > fr["loops"] or len(self.cond_stack) > fr["conds"] or not isinstance(value, Num):
            raise ControlUndecided("early return under an index relation in a shape outside the model", span)
        neg = c.negate()
        stack = self.extra_guards if not self.loops else self.loops[-1].guards
        stack.append(neg.data)
        fr.setdefault("rel_guards", []).append(stack)
        fr["early"].append((c, value))

    def fold_frame(self, fr, ret):
        del self.cond_stack[fr["conds"]:]
        for st_ in reversed(fr.get("rel_guards", [])):
            st_.pop()
        if not fr["early"]:
            return ret
        if fr["refw"] is not None and self.ref_writes != fr["refw"] and not self.allow_ref_writes_after_exit:
            raise Undecided("%s writes through a &mut reference after a value-returning early exit: the effect is conditional" % fr["path"])
        for c, v in reversed(fr["early"]):
            if c.kind == "rel":
                if not (isinstance(v, Num) and isinstance(ret, Num)):
                    raise Undecided("early return under an index relation joins structured values in %s" % fr["path"])
                ret = Num(v.expr.guarded([c.data]) + ret.expr.guarded([c.negate().data]))
            else:
                ret = merge_vals(c, v, ret)
        return ret

    def local_by_name(self, name):
        """Final value of the top-level function's local called `name` (searches nested block environments is not possible after
        they are gone, so locals are recorded when bound)."""
        return self.named_locals.get(name)

    # ---- patterns -----------------------------------------------------------------------------
    def bind(self, pat, val, env):
        k = pat["k"]
        if k == "bind":
            self.var_names[pat["var"]["id"]] = pat["name"]
            env.define(pat["var"]["id"], val)
            if "sub" in pat:
                self.bind(pat["sub"], val, env)
        elif k == "wild":
            pass
        elif k == "deref":
            self.bind(pat["sub"], val, env)
        elif k == "leaf":
            for s in pat["subs"]:
                self.bind(s["pat"], self.project(val, s["name"], s["field"]), env)
        elif k == "variant":
            if isinstance(val, Opt):
                for s in pat["subs"]:
                    self.bind(s["pat"], val.payload, env)
            elif isinstance(val, Struct):
                for s in pat["subs"]:
                    self.bind(s["pat"], self.project(val, s["name"], s["field"]), env)
            else:
                raise Undecided("variant pattern on %r" % (val,))
        else:
            raise Undecided("pattern %s" % k)

    def project(self, val, name, idx):
        if isinstance(val, Tup):
            return val.items[idx]
        if isinstance(val, Struct):
            if name in val.fields:
                return val.fields[name]
            raise Undecided("field %s of %s" % (name, val.name))
        if isinstance(val, Opaque):
            return Opaque("%s.%s" % (val.name, name))
        if isinstance(val, Arr) and len(val.classes) == 2 and name == "dim":
            return num_size(val.classes[0])
        if isinstance(val, Arr) and len(val.classes) == 2 and name == "data":
            # flat storage: only ever used as a precision carrier (`self.data[0].zero()`); elements are not row/col addressed here
            return Arr(("?",), lambda i: Num(Expr.leaf("$flat", i)), name="flat")
        if hasattr(val, "m_project"):
            return val.m_project(self, name)
        if isinstance(val, PlaceRef):
            raise Undecided("projection through a place reference")
        raise Undecided("projection .%s of %r" % (name, val))

    # ---- expressions ----------------------------------------------------------------------------
    def eval(self, e, env):
        k = e["k"]
        m = getattr(self, "e_" + k, None)
        if m is None:
            raise Undecided("expression kind %s" % k, e.get("span"))
        return m(e, env)

    def e_lit(self, e, env):
        lit = e["lit"]
        ty = e["ty"]
        if lit.startswith("Int(Pu128("):
            n = int(lit[len("Int(Pu128("):lit.index(")")])
            if e.get("neg"):
                n = -n
            return num_const(n)
        if lit.startswith("Float("):
            s_ = lit[lit.index('"') + 1:lit.rindex('"')] if '"' in lit else lit[6:lit.index(",")]
            s_ = s_.replace("_", "")
            try:
                val = sp.Rational(s_)
            except Exception:
                val = sp.Float(s_)
            if e.get("neg"):
                val = -val
            return Num(Expr.const(val))
        if lit.startswith("Bool("):
            return Cond("const", "true" in lit)
        if lit.startswith("Str("):
            return Opaque("str")
        raise Undecided("literal %s" % lit, e.get("span"))

    def e_var(self, e, env):
        vid = e["var"]["id"]
        if not self.suppress_reads:
            for lc in self.loops:
                lc.reads.add(vid)
        return env.get(vid)

    suppress_reads = 0

    e_upvar = e_var

    def e_borrow(self, e, env):
        if e.get("mut"):
            try:
                var, path = self.place(e["e"], env)
                return PlaceRef(var, path)
            except NotAPlace:
                pass
        return self.eval(e["e"], env)

    def e_deref(self, e, env):
        v = self.eval(e["e"], env)
        if isinstance(v, PlaceRef):
            return self.read_place(v.var, v.path, env)
        return v

    def e_use(self, e, env):
        return self.eval(e["e"], env)

    e_never_to_any = e_use
    e_ptr_coercion = e_use

    def e_cast(self, e, env):
        v = self.eval(e["e"], env)
        if isinstance(v, Num):
            t = self.types.get(e["ty"]) or {}
            if t.get("name") in ("f64", "f32") or t.get("name") in INT_TYPES:
                # int->float and widening casts are ring homomorphisms on the values in play
                return Num(v.expr, v.ent, v.size)
        if isinstance(v, Cond):
            return Num(Expr.atom(("ite", v.key(), Expr.const(1), Expr.const(0))))
        raise Undecided("cast of %r" % (v,), e.get("span"))

    def e_block(self, e, env):
        benv = Interp.Env(env)
        if 1 <= self.depth <= 3:      # the top-level function and the stage helpers it is split into
            self.block_envs.append(benv)
        for s in e["stmts"]:
            self.stmt(s, benv)
        if "tail" in e:
            return self.eval(e["tail"], benv)
        return UNIT

    def stmt(self, s, env):
        try:
            if s["k"] == "let":
                if "init" in s:
                    v = self.eval(s["init"], env)
                    self.bind(s["pat"], v, env)
                else:
                    self.bind_opaque(s["pat"], env, "uninit")
            else:
                self.eval(s["e"], env)
        except ControlUndecided:
            raise
        except Undecided as u:
            # a statement that can leave the function WITH A VALUE (`if shortcut() { return fast_path(); }`) is not a local matter: if it
            # cannot be summarised, the exit it contains would be dropped and the function would be summarised by its main path alone
            if contains_value_exit(s):
                raise ControlUndecided("an undecided statement contains a value-returning exit (%s)" % u.what, u.span)
            if (self.loops or self.in_transfer) and contains_escaping_jump(s):
                raise ControlUndecided("an undecided statement contains a break / continue of the enclosing loop (%s)" % u.what, u.span)
            self.note_undecided(u)
            # opaque fallback: every local this statement may define or modify becomes a named unknown
            for (vid, name, ty) in mutated_locals(s):
                self.opaque_counter += 1
                # a local that is a &mut reference: what it points to is what may have changed
                try:
                    cur = env.get(vid) if env.lookup(vid) else None
                except Undecided:
                    cur = None
                if isinstance(cur, PlaceRef) and env.lookup(cur.var) is not None:
                    tname = self.var_names.get(cur.var, str(cur.var))
                    env.set(cur.var, Opaque(tname))
                    continue
                ov = opaque_by_type(ty, "%s" % name, self.types)
                env.set(vid, ov) if env.lookup(vid) else env.define(vid, ov)

    def note_undecided(self, u):
        self.undecided.append((u.what, u.span))

    def bind_opaque(self, pat, env, why):
        for (vid, name, ty) in pattern_vars(pat):
            env.define(vid, opaque_by_type(ty, name, self.types))

    def e_tuple(self, e, env):
        return Tup([self.eval(x, env) for x in e["es"]])

    def e_array(self, e, env):
        from .models import ListV
        return ListV([self.eval(x, env) for x in e["es"]])

    def e_adt(self, e, env):
        name = e["adt"].split("::")[-1]
        if e["adt"].endswith(("option::Option", "result::Result", "ControlFlow")):
            if e["variant"] in ("Some", "Ok", "Continue"):
                return Opt(True, self.eval(e["fields"][0]["e"], env))
            if e["fields"]:
                try:
                    self.eval(e["fields"][0]["e"], env)
                except Undecided:
                    pass
            return Opt(False)
        if e["adt"].endswith("range::Range"):
            f = {x["name"]: self.eval(x["e"], env) for x in e["fields"]}
            return self.make_range(f["start"], f["end"])
        fields = {}
        for x in e["fields"]:
            try:
                fields[x["name"]] = self.eval(x["e"], env)
            except ControlUndecided:
                raise
            except Undecided as u:
                # one field outside the model does not make its siblings unknown: it alone becomes a named unknown (whatever its
                # expression may have modified on the way is havocked, as for a statement)
                if len(e["fields"]) < 2:
                    raise
                self.note_undecided(u)
                for (vid, vname, vty) in mutated_locals({"k": "expr", "e": x["e"]}):
                    if env.lookup(vid) is not None:
                        env.set(vid, opaque_by_type(vty, vname, self.types))
                fields[x["name"]] = opaque_by_type(x["e"].get("ty") or "", "%s.%s" % (name, x["name"]), self.types)
        if "base" in e:
            b = self.eval(e["base"], env)
            if isinstance(b, Struct):
                for k2, v2 in b.fields.items():
                    fields.setdefault(k2, v2)
        return Struct(name if e["variant"] == name or not e["variant"] else "%s::%s" % (name, e["variant"]), fields)

    def make_range(self, lo, hi):
        """Range lo..hi as a sequence over a size class with order guards."""
        if not isinstance(lo, Num) or not isinstance(hi, Num):
            raise Undecided("range with non-numeric bounds")
        guards = []
        cls = None
        # upper bound
        if hi.size is not None:
            cls = hi.size
        elif hi.ent is not None and isinstance(hi.ent, str):
            cls = self.class_of_index.get(hi.ent)
            guards.append(lambda k, h=hi.ent: ("<", k, h))
        else:
            # extent given by an arithmetic expression: a derived size class named by its canonical formula
            cls = "⟨%s⟩" % hi.expr.simplified().key()
            self.derived_sizes[cls] = hi.expr
        # lower bound
        if lo.ent == 0:
            pass
        elif lo.ent is not None:
            guards.append(lambda k, l=lo.ent: ("<=", l, k))
        else:
            p = self.ent_plus_one(lo)
            if p is not None:
                guards.append(lambda k, l=p: ("<", l, k))
            else:
                raise Undecided("range lower bound %s" % lo.expr.key())
        if cls is None:
            raise Undecided("range of unknown size class")
        gf = (lambda k, _g=guards: [g(k) for g in _g]) if guards else None
        return Arr((cls,), lambda k: num_index(k), guards_fn=gf, name="range")

    class_of_index = {}

    def ent_plus_one(self, n):
        """n == ent + 1 ?  returns ent."""
        ts = n.expr.simplified().terms
        if len(ts) == 2:
            consts = [t for t in ts if not t.atoms]
            vars_ = [t for t in ts if t.atoms]
            if len(consts) == 1 and len(vars_) == 1 and consts[0].coeff == 1 and vars_[0].coeff == 1:
                a = vars_[0].atoms
                if len(a) == 1 and a[0][0][0] == "leaf" and a[0][0][1] == "$ix" and a[0][1] == 1:
                    return a[0][0][2]
        return None

    def size_minus_const(self, n):
        return None

    def e_field(self, e, env):
        v = self.eval(e["e"], env)
        return self.project(v, e["name"], e["i"])

    def e_index(self, e, env):
        base = self.eval(e["e"], env)
        idx = self.eval(e["i"], env)
        return self.index_value(base, idx, e)

    def index_value(self, base, idx, e=None):
        if isinstance(base, Struct) and base.name == "Vector":
            base = base.fields["elements"]
        if hasattr(base, "elem_expr") and isinstance(idx, Num):
            return base.elem_expr(idx.expr)
        if hasattr(base, "items") and isinstance(idx, Num) and idx.ent is None:
            # an index computed from constants (`v[v.len() - 1]` on a list of known length)
            ts_ = idx.expr.simplified().terms
            if not ts_:
                return base.at(0)
            if len(ts_) == 1 and not ts_[0].atoms and not ts_[0].binders and not ts_[0].guards and ts_[0].coeff.is_Integer:
                return base.at(int(ts_[0].coeff))
        if isinstance(base, Arr):
            if isinstance(idx, Tup):
                ents = [self.ent_of(x) for x in idx.items]
                return base.at(*ents)
            return base.at(self.ent_of(idx))
        if isinstance(base, Opaque):
            return Opaque("%s[..]" % base.name)
        raise Undecided("indexing %r" % (base,), e.get("span") if e else None)

    def ent_of(self, v):
        if isinstance(v, Num) and v.ent is not None:
            return v.ent
        if isinstance(v, Num):
            # opaque index expression: name it by its canonical key
            return "⟨%s⟩" % v.expr.key()
        raise Undecided("index is not an index entity: %r" % (v,))

    def e_binary(self, e, env):
        op = e["op"]
        l = self.eval(e["l"], env)
        r = self.eval(e["r"], env)
        if op == "Div" and (self.types.get(e["ty"]) or {}).get("name") in INT_TYPES and isinstance(l, Num) and isinstance(r, Num):
            # integer division floors: it is NOT multiplication by the inverse — except when it is exact: a constant c > 0 that divides
            # every coefficient of an integer polynomial (integer-typed leaves, non-negative integer exponents, no guards)
            ls, rs = l.expr.simplified(), r.expr.simplified()
            if len(rs.terms) == 1 and not rs.terms[0].atoms and not rs.terms[0].binders and not rs.terms[0].guards:
                c_ = rs.terms[0].coeff
                if c_.is_Integer and c_ > 0 and ls.terms and all(
                        t_.coeff.is_Integer and t_.coeff % c_ == 0 and not t_.guards and not t_.binders
                        and all(getattr(x_, "is_Integer", False) and x_ >= 0 for _a, x_ in t_.atoms) for t_ in ls.terms):
                    return Num(ls * Expr.const(1 / c_))
            return Num(Expr.atom(("call", "idiv", l.expr, r.expr)))
        return self.binop(op, l, r, e)

    def binop(self, op, l, r, e=None):
        if op in ("Eq", "Ne", "Lt", "Le", "Gt", "Ge"):
            if isinstance(l, Num) and isinstance(r, Num) and l.ent is not None and r.ent is not None:
                rel = {"Eq": ("=", l.ent, r.ent), "Ne": ("!=", l.ent, r.ent), "Lt": ("<", l.ent, r.ent), "Le": ("<=", l.ent, r.ent),
                       "Gt": ("<", r.ent, l.ent), "Ge": ("<=", r.ent, l.ent)}[op]
                return Cond("rel", rel)
            if isinstance(l, Num) and isinstance(r, Num) and op in ("Eq", "Ne") and isinstance(r.ent, int) and r.ent in (0, 1):
                # parity of an index: `i % 2 == 0` and its three mirror images, one canonical condition
                ts_ = l.expr.simplified().terms
                if len(ts_) == 1 and ts_[0].coeff == 1 and len(ts_[0].atoms) == 1 and ts_[0].atoms[0][1] == 1:
                    a_ = ts_[0].atoms[0][0]
                    if a_[0] == "call" and a_[1] == "mod" and len(a_) == 4 and a_[3] == Expr.const(2):
                        its = a_[2].simplified().terms
                        if len(its) == 1 and its[0].coeff == 1 and len(its[0].atoms) == 1 and its[0].atoms[0][0][:2] == ("leaf", "$ix") and its[0].atoms[0][1] == 1:
                            ev = Cond("key", "even(«%s»)" % its[0].atoms[0][0][2])
                            return ev if (op == "Eq") == (r.ent == 0) else ev.negate()
            if isinstance(l, Num) and isinstance(r, Num):
                c_ = Cond("key", "%s %s %s" % (l.expr.key(), op, r.expr.key()), tree=("cmp", op, l.expr.key(), r.expr.key()))
                c_.cmp = (op, l.expr, r.expr)
                return c_
            if isinstance(l, Struct) or isinstance(r, Struct) or isinstance(l, Opaque) or isinstance(r, Opaque):
                return Cond("key", "%s %s %s" % (getattr(l, "name", "?"), op, getattr(r, "name", "?")))
            raise Undecided("comparison of %r and %r" % (l, r))
        if not isinstance(l, Num) or not isinstance(r, Num):
            raise Undecided("arithmetic on %r, %r" % (l, r), e.get("span") if e else None)
        if op == "Add":
            return Num(l.expr + r.expr)
        if op == "Sub":
            return Num(l.expr - r.expr)
        if op == "Mul":
            return Num(l.expr * r.expr)
        if op == "Div":
            return Num(l.expr * r.expr.inv())
        if op == "Rem":
            return Num(Expr.atom(("call", "mod", l.expr, r.expr)))
        if op in ("Shl",):
            return Num(Expr.atom(("call", "shl", l.expr, r.expr)))
        if op in ("BitXor", "BitAnd", "BitOr"):
            from .expr import bitop
            return Num(bitop(op.lower(), l.expr, r.expr))   # commutative: canonical operand order
        raise Undecided("binary op %s" % op)

    def e_unary(self, e, env):
        v = self.eval(e["e"], env)
        if e["op"] == "Neg" and isinstance(v, Num):
            return Num(-v.expr)
        if e["op"] == "Not" and isinstance(v, Cond):
            return v.negate()
        raise Undecided("unary %s" % e["op"])

    def e_logical(self, e, env):
        l = self.eval(e["l"], env)
        r = self.eval(e["r"], env)
        if isinstance(l, Cond) and isinstance(r, Cond):
            return Cond("key", "(%s %s %s)" % (l.key(), e["op"], r.key()), tree=(e["op"].lower(), l.tree, r.tree))
        raise Undecided("logical op")

    def e_if(self, e, env):
        c = self.eval(e["cond"], env)
        if not isinstance(c, Cond):
            raise Undecided("non-boolean condition", e.get("span"))
        if c.kind == "const":
            if c.data:
                return self.eval(e["then"], env)
            return self.eval(e["else"], env) if "else" in e else UNIT
        if c.kind == "rel":
            # order guard between index entities: evaluate both arms under the guard / its negation
            self.push_guard(c.data)
            t_ret = e_ret = None
            tv = UNIT
            try:
                tv = self.eval(e["then"], env)
            except ReturnSignal as r_:
                t_ret = r_
            finally:
                self.pop_guard()
            ev = UNIT
            if "else" in e:
                self.push_guard(c.negate().data)
                try:
                    ev = self.eval(e["else"], env)
                except ReturnSignal as r_:
                    e_ret = r_
                finally:
                    self.pop_guard()
            if t_ret is not None or e_ret is not None:
                # an arm under an index relation returns from the function: the value is that arm's under the relation and the
                # rest of the function's under its negation
                if t_ret is not None and e_ret is not None:
                    a_, b_ = t_ret.value, e_ret.value
                    if isinstance(a_, Num) and isinstance(b_, Num):
                        raise ReturnSignal(Num(a_.expr.guarded([c.data]) + b_.expr.guarded([c.negate().data])))
                    raise ControlUndecided("both arms of an index relation return structured values", e.get("span"))
                rc, rv_, cont = (c, t_ret.value, ev) if t_ret is not None else (c.negate(), e_ret.value, tv)
                self.note_early_rel(rc, rv_, e.get("span"))
                return cont
            if isinstance(tv, UnitV) and isinstance(ev, UnitV):
                return UNIT
            if isinstance(tv, Num) and isinstance(ev, Num):
                return Num(tv.expr.guarded([c.data]) + ev.expr.guarded([c.negate().data]))
            raise Undecided("if on index relation with structured value", e.get("span"))
        # opaque condition: both arms, merge states with ite
        return self.if_opaque(c, e, env)

    def if_opaque(self, c, e, env):
        """Condition the model cannot decide: evaluate both arms and merge the states with ite.  An arm that returns early
        (error / shortcut exit) is split off: evaluation continues on the other arm under the negated condition."""
        snap = snapshot(env)
        t_ret = e_ret = None
        tv = ev = UNIT
        n0 = len(self.cond_stack)
        self.cond_stack.append(c)
        try:
            tv = self.eval(e["then"], env)
        except ReturnSignal as r:
            t_ret = r
        except BreakSignal:
            t_ret = ReturnSignal(BREAK)
            self.breaks.append((c.key(), snapshot(env), self.probe() if self.probe else None))
        except ContinueSignal as cs:
            t_ret = ReturnSignal(("continue", cs.depth))
        finally:
            del self.cond_stack[n0:]      # the arm's own condition and whatever early exits inside it left behind
        tstate = snapshot(env)
        restore(env, snap)
        if "else" in e:
            self.cond_stack.append(c.negate())
            try:
                ev = self.eval(e["else"], env)
            except ReturnSignal as r:
                e_ret = r
            except BreakSignal:
                e_ret = ReturnSignal(BREAK)
                self.breaks.append((c.negate().key(), snapshot(env), self.probe() if self.probe else None))
            except ContinueSignal as cs:
                e_ret = ReturnSignal(("continue", cs.depth))
            finally:
                del self.cond_stack[n0:]
        estate = snapshot(env)
        def is_cont(r_):
            return r_ is not None and isinstance(r_.value, tuple) and len(r_.value) == 2 and r_.value[0] == "continue"
        if is_cont(t_ret) or is_cont(e_ret):
            if is_cont(t_ret) and is_cont(e_ret):
                raise ContinueSignal(max(t_ret.value[1], e_ret.value[1]))
            if (t_ret is not None and not is_cont(t_ret)) or (e_ret is not None and not is_cont(e_ret)):
                raise ControlUndecided("one arm continues the loop, the other leaves it", e.get("span"))
            cc, depth_, cont_val, state = (c, t_ret.value[1], ev, estate) if is_cont(t_ret) else (c.negate(), e_ret.value[1], tv, tstate)
            restore(env, state)
            self.note_continue(cc, depth_, e.get("span"))
            return cont_val
        if t_ret is not None and e_ret is not None:
            if t_ret.value is BREAK or e_ret.value is BREAK:
                raise BreakSignal()
            raise ReturnSignal(merge_vals(c, t_ret.value, e_ret.value))
        if t_ret is not None:
            if t_ret.value is BREAK:
                self.early_returns.append((c.key(), t_ret.value))     # loop exit: accounted for through self.breaks
            else:
                self.note_early(c, t_ret.value)
            restore(env, estate)
            return ev
        if e_ret is not None:
            if e_ret.value is BREAK:
                self.early_returns.append((c.negate().key(), e_ret.value))
            else:
                self.note_early(c.negate(), e_ret.value)
            restore(env, tstate)
            return tv
        merge_states(env, c, tstate, estate)
        return merge_vals(c, tv, ev)

    early_returns = []

    cond_stack = []

    def push_guard(self, g):
        if not self.loops:
            self.extra_guards.append(g)
        else:
            self.loops[-1].guards.append(g)

    def pop_guard(self):
        if not self.loops:
            self.extra_guards.pop()
        else:
            self.loops[-1].guards.pop()

    extra_guards = []

    def current_guards(self):
        gs = list(self.extra_guards)
        for lc in self.loops:
            gs += lc.guards
        return gs

    def e_return(self, e, env):
        v = self.eval(e["e"], env) if "e" in e else UNIT
        raise ReturnSignal(v)

    def e_closure(self, e, env):
        return Closure(e["closure"], env)

    def e_zst(self, e, env):
        if "fn" in e:
            return FnItem(e["fn"])
        return UNIT

    def e_named_const(self, e, env):
        p = e["path"]
        if p.endswith("consts::PI"):
            return Num(Expr.atom(("sym", "pi")))
        if p.endswith("f64::EPSILON"):
            return Num(Expr.atom(("sym", "eps")))
        # a const item of the crate stands for its initialiser
        b = self.thir.get(e.get("full") or p) or self.thir.get(p)
        if b is not None and not b.get("params") and self.depth < self.max_depth:
            self.depth += 1
            try:
                return self.eval(b["body"], Interp.Env())
            except Undecided:
                pass
            finally:
                self.depth -= 1
        return Num(Expr.atom(("sym", p.split("::")[-1])))

    def e_const_param(self, e, env):
        return Num(Expr.symbol(e["name"]), size=e["name"])

    def e_assign(self, e, env):
        # `p = p (+) x` / `p = x (+) p` is the compound assignment `p (+)= x`
        r = strip(e["r"])
        if isinstance(r, dict) and r.get("k") == "binary" and r.get("op") in ("Add", "Mul", "BitOr", "Sub"):
            def place_of(x):
                try:
                    pv, pp = self.place(x, env)
                    return pv, tuple(pp)
                except (NotAPlace, Undecided, KeyError, TypeError):
                    return None
            lhs = place_of(e["l"])
            if lhs is not None:
                for mine, other in ((r["l"], r["r"]), (r["r"], r["l"])):
                    if r["op"] == "Sub" and mine is not r["l"]:
                        continue
                    sm = strip(mine)
                    while isinstance(sm, dict) and sm.get("k") in ("use", "deref", "borrow") and "e" in sm:
                        sm = strip(sm["e"])
                    if isinstance(sm, dict) and sm.get("k") in ("var", "upvar", "field", "index") and place_of(sm) == lhs:
                        return self.e_assignop({"l": e["l"], "r": other, "op": r["op"] + "Assign"}, env)
        v = self.eval(e["r"], env)
        var, path = self.place(e["l"], env)
        self.update(var, path, "=", v, env)
        return UNIT

    def e_assignop(self, e, env):
        v = self.eval(e["r"], env)
        var, path = self.place(e["l"], env)
        op = {"AddAssign": "+", "SubAssign": "-", "MulAssign": "*", "DivAssign": "/", "BitOrAssign": "|"}.get(e["op"])
        if op is None:
            raise Undecided("assign-op %s" % e["op"])
        if op == "/":
            if not isinstance(v, Num):
                raise Undecided("division by structured value")
            v = Num(v.expr.inv())
            op = "*"
        self.update(var, path, op, v, env)
        return UNIT

    def e_let(self, e, env):
        # `if let PAT = EXPR` condition
        v = self.eval(e["e"], env)
        pat = e["pat"]
        while pat["k"] == "deref":
            pat = pat["sub"]
        if isinstance(v, PlaceRef):
            v = self.read_place(v.var, v.path, env)
        if pat["k"] == "variant" and isinstance(v, Opt):
            if v.some is True:
                self.bind(pat, v, env)
                return Cond("const", pat["variant"] == "Some")
            if v.some is False:
                return Cond("const", pat["variant"] == "None")
            self.bind(pat, v, env)
            c = v.some if pat["variant"] == "Some" else v.some.negate()
            return c
        raise Undecided("let-condition on %r" % (v,), e.get("span"))

    def e_match(self, e, env):
        src = e["source"]
        if src.startswith("ForLoopDesugar"):
            return self.for_loop(e, env)
        scrut = self.eval(e["scrut"], env)
        if isinstance(scrut, PlaceRef):
            scrut = self.read_place(scrut.var, scrut.path, env)
        if isinstance(scrut, Opt):
            # matching through a reference (`match &opt` / default binding modes) wraps the arm patterns in deref nodes
            def strip_deref(p):
                while isinstance(p, dict) and p.get("k") == "deref" and "sub" in p:
                    p = p["sub"]
                return p
            e = dict(e, arms=[dict(a, pat=strip_deref(a["pat"])) for a in e["arms"]])
        # `match cond { true => a, false => b }` (also with a wildcard second arm) is `if cond { a } else { b }`
        if isinstance(scrut, Cond) and len(e["arms"]) == 2 and all("guard" not in a or not a.get("guard") for a in e["arms"]):
            def bool_of(p):
                if p.get("k") == "const" and p.get("ty") == "bool":
                    return "Leaf(0x01)" in str(p.get("value"))
                return None
            b0, b1 = bool_of(e["arms"][0]["pat"]), bool_of(e["arms"][1]["pat"])
            wild1 = e["arms"][1]["pat"].get("k") in ("wild",)
            if b0 is not None and (b1 == (not b0) or (b1 is None and wild1)):
                t_arm, f_arm = (e["arms"][0], e["arms"][1]) if b0 else (e["arms"][1], e["arms"][0])
                fake = {"k": "if", "cond": None, "then": t_arm["body"], "else": f_arm["body"], "span": e.get("span")}
                if scrut.kind == "const":
                    return self.eval(fake["then"] if scrut.data else fake["else"], env)
                return self.if_opaque(scrut, fake, env)
        # Option / simple enum matches with a statically known variant
        if isinstance(scrut, Opt) and isinstance(scrut.some, bool):
            for arm in e["arms"]:
                p = arm["pat"]
                if p["k"] == "variant" and ((p["variant"] in ("Some", "Ok", "Continue")) == scrut.some):
                    aenv = Interp.Env(env)
                    self.bind(p, scrut, aenv)
                    return self.eval(arm["body"], aenv)
                if p["k"] in ("wild", "bind"):
                    aenv = Interp.Env(env)
                    self.bind(p, scrut, aenv)
                    return self.eval(arm["body"], aenv)
        if isinstance(scrut, Opt) and isinstance(scrut.some, Cond):
            # two-armed match on a symbolic Option
            some_arm = [a for a in e["arms"] if a["pat"]["k"] == "variant" and a["pat"]["variant"] in ("Some", "Ok", "Continue")]
            none_arm = [a for a in e["arms"] if a not in some_arm]
            if len(some_arm) == 1 and len(none_arm) == 1:
                fake = {"cond": None, "then": None}
                c = scrut.some
                snap = snapshot(env)
                aenv = Interp.Env(env)
                self.bind(some_arm[0]["pat"], scrut, aenv)
                n0 = len(self.cond_stack)
                self.cond_stack.append(c)          # effects inside a summarised loop must know they are conditional
                try:
                    tv = self.eval(some_arm[0]["body"], aenv)
                finally:
                    del self.cond_stack[n0:]
                tstate = snapshot(env)
                restore(env, snap)
                self.cond_stack.append(c.negate())
                try:
                    ev = self.eval(none_arm[0]["body"], Interp.Env(env))
                finally:
                    del self.cond_stack[n0:]
                estate = snapshot(env)
                merge_states(env, c, tstate, estate)
                return merge_vals(c, tv, ev)
        if isinstance(scrut, (Tup, Struct)) and len(e["arms"]) == 1:
            aenv = Interp.Env(env)
            self.bind(e["arms"][0]["pat"], scrut, aenv)
            return self.eval(e["arms"][0]["body"], aenv)
        if len(e["arms"]) == 1 and e["arms"][0]["pat"]["k"] in ("bind", "wild"):
            aenv = Interp.Env(env)
            self.bind(e["arms"][0]["pat"], scrut, aenv)
            return self.eval(e["arms"][0]["body"], aenv)
        raise Undecided("match (%s) on %r" % (src, scrut), e.get("span"))

    def e_loop(self, e, env):
        """`while cond { body }` (desugared to loop { if cond { body } else { break } }): the variables the body may modify are
        havocked (named unknowns); a rule may ask for the per-iteration transfer function through `on_while`."""
        blk = strip(e["body"])
        inner = blk if isinstance(blk, dict) and blk.get("k") == "if" else (
            strip(blk.get("tail")) if isinstance(blk, dict) and blk.get("k") == "block" and not blk.get("stmts") else None)
        if not (isinstance(inner, dict) and inner.get("k") == "if" and "else" in inner):
            inner = self.loop_with_leading_exit(blk)
            if inner is None:
                raise Undecided("bare loop", e.get("span"))
        # the body of a `while` loop is not executed, only havocked: a value-returning exit inside it would be lost
        if contains_value_exit(inner["then"]) or contains_value_exit(inner["cond"]):
            raise ControlUndecided("a while loop whose body can return a value is outside the summarisation model", e.get("span"))
        muts = mutated_locals({"k": "expr", "e": inner["then"]})
        inner_vars = collect_bound_vars(inner["then"])
        muts = [m for m in muts if m[0] not in inner_vars and env.lookup(m[0]) is not None]

        def havoc():
            for (vid, name, ty) in muts:
                env.set(vid, opaque_by_type(ty, name, self.types))
        self.pre_while_state = {name: env.get(vid) for (vid, name, ty) in muts}
        havoc()
        if self.on_while is not None:
            self.on_while(self, inner["cond"], inner["then"], env, muts)
        havoc()
        self.while_loops.append([m[1] for m in muts])
        return UNIT

    def loop_with_leading_exit(self, blk):
        """`loop { if c { break; } rest… }` is `while !c { rest… }`: returns the equivalent {cond, then} pair or None."""
        if not (isinstance(blk, dict) and blk.get("k") == "block" and blk.get("stmts")):
            return None
        first = blk["stmts"][0]
        if first.get("k") == "let" or "e" not in first:
            return None
        fi = strip(first["e"])
        if not (isinstance(fi, dict) and fi.get("k") == "if" and "else" not in fi):
            return None
        th = strip(fi["then"])
        while isinstance(th, dict) and th.get("k") == "block":
            if th.get("stmts") and len(th["stmts"]) == 1 and "tail" not in th and th["stmts"][0].get("k") != "let":
                th = strip(th["stmts"][0]["e"])
            elif not th.get("stmts") and "tail" in th:
                th = strip(th["tail"])
            else:
                return None
        if not (isinstance(th, dict) and th.get("k") == "break"):
            return None
        rest = dict(blk)
        rest["stmts"] = blk["stmts"][1:]
        return {"k": "if", "cond": {"k": "unary", "op": "Not", "e": fi["cond"], "ty": "bool"}, "then": rest, "else": {"k": "break"}}

    on_while = None
    probe = None
    pre_while_state = None

    def e_break(self, e, env):
        if self.in_transfer:
            raise BreakSignal()
        raise ControlUndecided("break inside a loop that is summarised, not executed", e.get("span"))

    in_transfer = False

    def e_continue(self, e, env):
        lab = e.get("label")
        if lab is not None and self.loops:
            for d_, lc in enumerate(reversed(self.loops)):
                if getattr(lc, "scope", None) == lab and d_ <= 1 and (not self.frames or len(self.loops) - d_ > self.frames[-1]["loops"]):
                    raise ContinueSignal(d_)
        raise ControlUndecided("continue inside a loop that is summarised, not executed", e.get("span"))

    # ---- for loops ------------------------------------------------------------------------------
    def for_loop(self, e, env):
        it = self.eval(e["scrut"], env)
        if not isinstance(it, Arr) or len(it.classes) != 1:
            raise Undecided("for over %r" % (it,), e.get("span"))
        # locate the Some(pat) arm and the body
        arm0 = e["arms"][0]
        loop = strip(arm0["body"])
        if loop["k"] != "loop":
            raise Undecided("for-loop desugaring shape", e.get("span"))
        blk = strip(loop["body"])
        inner = blk.get("tail") or (blk["stmts"][-1]["e"] if blk.get("stmts") else None)
        inner = strip(inner)
        some = [a for a in inner["arms"] if a["pat"]["k"] == "variant" and a["pat"]["variant"] == "Some"]
        if len(some) != 1:
            raise Undecided("for-loop arms", e.get("span"))
        pat = some[0]["pat"]["subs"][0]["pat"]
        body = some[0]["body"]
        self.next_loop_scope = loop.get("scope")
        self.iterate(it, lambda elem, benv: (self.bind(pat, elem, benv), self.eval(body, benv)), env, body)
        return UNIT

    def iterate(self, seq, run_body, env, body_expr=None):
        """Summarise `for elem in seq { body }`: evaluate the body once with a fresh binder, then fold the recorded
        effects into the state with the binder bound (Σ for +=, Π for *=, element-wise rules for indexed writes)."""
        k = fresh("k")
        cls = seq.classes[0]
        guards = seq.guards_fn(k) if seq.guards_fn else []
        inner_vars = collect_bound_vars(body_expr) if body_expr is not None else set()
        lc = LoopCtx(k, cls, guards, inner_vars)
        lc.scope = getattr(self, "next_loop_scope", None)
        self.next_loop_scope = None
        if self.matrix_level and body_expr is not None and self.solve_list_recurrence(seq, run_body, env, body_expr, lc):
            return
        lc.cond_base = len(self.cond_stack)
        old = dict(self.class_of_index)
        self.class_of_index = dict(old)
        self.class_of_index[k] = cls
        self.loops.append(lc)
        # accumulation written as a plain re-assignment (`acc = acc + f(x)`, also through overloaded operators): the variable reads as
        # a placeholder during the body, and the single `=` effect is accepted when it is placeholder (+) g(x) with g free of it
        acc_vars = {}
        if body_expr is not None:
            from .models import placeholder_like
            for vid in whole_assigned_vars(body_expr):
                if vid in inner_vars or env.lookup(vid) is None:
                    continue
                try:
                    cur = env.get(vid)
                    if isinstance(cur, PlaceRef):
                        continue
                    ph = placeholder_like(self, cur, fresh("acc"))
                except Undecided:
                    continue
                acc_vars[vid] = (cur, ph)
                env.set(vid, ph)
        try:
            benv = Interp.Env(env)
            elem = seq.at(k)
            try:
                run_body(elem, benv)
            except ContinueSignal as cs:
                if cs.depth != 0:
                    # `continue 'outer` from this (inner) loop: a search that, when some element satisfies the condition, skips the rest
                    # of the OUTER iteration — only the unconditional-at-this-level form reaches here and is outside the model
                    raise Undecided("unconditional continue of an outer loop")
            except ControlUndecided as cu:
                raise Undecided("loop body jumps (%s): the loop is not a plain reduction" % cu.what, cu.span)
            except ReturnSignal as rs:
                # `return CONST` at the end of an iteration whose earlier part `continue`d away under some condition: a search exit
                # under the conditions that let the iteration get this far
                conds_here = self.cond_stack[lc.cond_base:]
                fr_ = self.frames[-1] if self.frames else None
                if conds_here and isinstance(rs.value, Cond) and rs.value.kind == "const" and fr_ is not None and len(self.loops) == fr_["loops"] + 1:
                    full = conds_here[0]
                    for oc in conds_here[1:]:
                        full = cond_and(full, oc)
                    if not hasattr(lc, "search_exits"):
                        lc.search_exits = []
                    lc.search_exits.append((full, rs.value))
                else:
                    raise Undecided("loop body leaves the loop early (return / break): not a plain reduction")
            except BreakSignal:
                raise Undecided("loop body leaves the loop early (return / break): not a plain reduction")
        finally:
            self.loops.pop()
            self.class_of_index = old
            del self.cond_stack[lc.cond_base:]
            for vid, (cur, _ph) in acc_vars.items():
                env.set(vid, cur)
        skips = getattr(lc, "skip_outer", None)
        if skips:
            if lc.effects or guards or getattr(lc, "search_exits", None):
                raise Undecided("a loop that continues its outer loop and also has effects / exits")
            cond = skips[0]
            for c_ in skips[1:]:
                cond = cond_or(cond, c_)
            self.search_counter = getattr(self, "search_counter", 0) + 1
            dummy = "§c%d" % self.search_counter
            from .expr import cond_subst
            q = Cond("key", "∃%s∈%s: (%s)" % (dummy, cls, cond_subst(cond.key(), {k: dummy})), tree=("exists", dummy, cls, _tree_subst(cond.tree, {k: dummy})))
            # the rest of the enclosing iteration runs only when no element triggered the continue
            self.cond_stack.append(q.negate())
            return
        exits = getattr(lc, "search_exits", None)
        if exits:
            if lc.effects or len(set(v_.data for _c, v_ in exits)) != 1 or guards:
                raise Undecided("search loop with effects / mixed results / a restricted range")
            cond = exits[0][0]
            for c_, _v in exits[1:]:
                cond = cond_or(cond, c_)
            self.search_counter = getattr(self, "search_counter", 0) + 1
            dummy = "§s%d" % self.search_counter
            from .expr import cond_subst
            qtree = ("exists", dummy, cls, _tree_subst(cond.tree, {k: dummy}))
            q = Cond("key", "∃%s∈%s: (%s)" % (dummy, cls, cond_subst(cond.key(), {k: dummy})), tree=qtree)
            for vid, (cur, _ph) in acc_vars.items():
                pass
            self.note_early(q, exits[0][1])
            return
        if acc_vars:
            from .models import fold_combine
            for vid, (cur, ph) in acc_vars.items():
                effs = [ef for ef in lc.effects if ef[0] == vid]
                if not effs:
                    continue
                if all(ef[2] != "=" for ef in effs):
                    continue      # already a compound update (`p = x | p` is read as `p |= x`): the ordinary reduction rules apply
                if len(effs) != 1 or effs[0][1] or effs[0][2] != "=" or effs[0][5]:
                    raise Undecided("accumulator %s is updated more than once / partially in the loop body" % self.var_names.get(vid, vid))
                (_v, _p, _o, val, gs, _b) = effs[0]
                new = fold_combine(self, cur, ph, val, k, cls, list(gs))
                lc.effects = [ef for ef in lc.effects if ef[0] != vid]
                lc.reads.discard(vid)
                self.update(vid, [], "=", new, env, summarised=True)
        # loop-carried dependence: a variable that is written by the loop and also read in it may observe earlier iterations
        written = set(var for (var, _p, _o, _v, _g, _b) in lc.effects)
        carried = sorted(v_ for v_ in (written & lc.reads) if v_ not in lc.inner_vars)
        carried = [v_ for v_ in carried if v_ not in self.self_opaque]
        # a dependence that the enclosing loop carries as well is analysed there (the recurrence belongs to the outermost loop)
        if carried and self.loops and all(v_ not in self.loops[-1].inner_vars for v_ in carried):
            self.loops[-1].reads |= set(carried)
            carried = []
        if carried:
            rec = {"vars": carried, "names": [self.var_names.get(v_, str(v_)) for v_ in carried], "binder": (k, cls), "guards": list(guards),
                   "effects": list(lc.effects)}
            self.recurrences.append(rec)
            try:
                self.recurrence_pass(seq, run_body, env, body_expr, carried, rec)
            except Undecided as u2:
                rec["pass2_error"] = u2.what
            raise Undecided("loop-carried dependence: the loop reads and writes %s (a recurrence, not a reduction)" % rec["names"])
        # apply effects
        for (var, path, op, val, gs, bs) in lc.effects:
            self.apply_summarised(var, path, op, val, lc, gs, env, bs)

    def solve_list_recurrence(self, seq, run_body, env, body_expr, lc):
        """`powers = [N]; for k in lo..hi { powers.push(f(powers)) }` where every iteration appends N̂^(len+1), proved by induction: the
        body is evaluated with the list replaced by the closed form N̂¹..N̂^len of symbolic length len = 1 + (k − lo), and the value
        pushed — the body's only effect — must be N̂^(len+1).  On success the variable holds the closed form of length 1 + (hi − lo)."""
        from .models import ListV, SymList, MatArr, matpow
        cands = []
        for (vid, name, ty) in mutated_locals({"k": "expr", "e": body_expr}):
            if vid in lc.inner_vars or env.lookup(vid) is None:
                continue
            try:
                cur = env.get(vid)
            except Undecided:
                continue
            if isinstance(cur, ListV) and len(cur.items) == 1 and isinstance(cur.items[0], Arr) and not isinstance(cur.items[0], (ListV, MatArr)) \
                    and len(cur.items[0].classes) == 2 and (self.mat_base is None or self.mat_base is cur.items[0]):
                cands.append((vid, cur))
        if len(cands) != 1:
            return False
        v_, cur = cands[0]
        first = cur.items[0]
        import os as _os
        dbg = (lambda *a: print("SLR", *a)) if _os.environ.get("MTSA_DEBUG_SLR") else (lambda *a: None)
        # range: lo <= k < extent of the class
        k0, cls = lc.binder, lc.cls
        gs = [tuple(g) for g in lc.guards]
        if len(gs) == 0:
            lo = 0
        elif len(gs) == 1 and gs[0][0] == "<=" and isinstance(gs[0][1], int) and gs[0][2] == k0:
            lo = gs[0][1]
        else:
            return False
        hi = self.derived_sizes.get(cls)
        if hi is None:
            hi = Expr.atom(("sym", str(cls)))
        k2 = fresh("i")
        mcls = first.classes[0]
        len_e = Expr.const(1) + Expr.leaf("$ix", k2) - Expr.const(lo)
        saved_base, saved_defs, saved_ops = self.mat_base, dict(self.mat_defs), set(self.mat_ops_used)
        self.mat_base = first
        env.set(v_, SymList(self, "⟨%s⟩" % len_e.simplified().key(), len_e, mcls))
        guards = seq.guards_fn(k2) if seq.guards_fn else []
        lc2 = LoopCtx(k2, cls, guards, lc.inner_vars)
        lc2.cond_base = len(self.cond_stack)
        old = dict(self.class_of_index)
        self.class_of_index = dict(old)
        self.class_of_index[k2] = cls
        self.loops.append(lc2)
        n_und = len(self.undecided)
        ok = False
        try:
            try:
                run_body(seq.at(k2), Interp.Env(env))
                effs2 = [ef for ef in lc2.effects if ef[0] not in lc2.inner_vars]
                if len(effs2) == 1 and effs2[0][0] == v_ and effs2[0][2] == "push" and not effs2[0][1] \
                        and [tuple(g) for g in effs2[0][4]] == [tuple(g) for g in lc2.guards] and len(self.undecided) == n_und:
                    pv = effs2[0][3]
                    want = matpow(len_e + Expr.const(1))
                    ok = isinstance(pv, MatArr) and pv.poly == want
                    dbg("pushed", getattr(pv, "poly", pv), "want", want)
                else:
                    dbg("effects2", [(ef[0], ef[2], ef[1], ef[4]) for ef in lc2.effects], self.undecided[n_und:])
            except (Undecided, ReturnSignal, BreakSignal, ContinueSignal) as ex_:
                dbg("exception", type(ex_).__name__, getattr(ex_, "what", ""))
                ok = False
        finally:
            self.loops.pop()
            self.class_of_index = old
            del self.cond_stack[lc2.cond_base:]
            env.set(v_, cur)
        if not ok:
            self.mat_base, self.mat_defs, self.mat_ops_used = saved_base, saved_defs, saved_ops
            del self.undecided[n_und:]
            return False
        total = (Expr.const(1) + hi - Expr.const(lo)).simplified()
        fcls = "⟨%s⟩" % total.key()
        self.derived_sizes[fcls] = total
        env.set(v_, SymList(self, fcls, total, mcls))
        self.assumptions.append("list built by a push recurrence: its length 1 + (hi − lo) assumes hi >= lo (with fewer iterations the list keeps its initial element)")
        self.list_recurrences.append({"var": self.var_names.get(v_, str(v_)), "lo": lo, "hi": hi, "length": total, "class": fcls,
                                      "assumes": "hi >= lo (otherwise the list keeps its single initial element N̂, see the rule)"})
        return True

    def recurrence_pass(self, seq, run_body, env, body_expr, carried, rec):
        """Second evaluation of a loop with a loop-carried dependence: the carried arrays are read as named unknowns (their final
        values), which turns the body's writes into the recurrence EQUATIONS of the loop; the reads are logged with the index guards
        in force so that a rule can check that every read refers to an element written earlier."""
        saved = {v_: env.get(v_) for v_ in carried}
        reads = []
        for v_ in carried:
            cur = saved[v_]
            name = self.var_names.get(v_, str(v_))
            if isinstance(cur, Arr) and not hasattr(cur, "items"):
                def base(*idx, _n=name):
                    reads.append((_n, tuple(idx), [tuple(g) for g in self.current_guards()]))
                    return Num(Expr.leaf(_n, *idx))
                env.set(v_, Arr(cur.classes, base, name=name))
            else:
                raise Undecided("carried variable %s is not an array" % name)
        k2 = fresh("i")
        cls = seq.classes[0]
        guards = seq.guards_fn(k2) if seq.guards_fn else []
        lc2 = LoopCtx(k2, cls, guards, collect_bound_vars(body_expr) if body_expr is not None else set())
        lc2.cond_base = len(self.cond_stack)
        old = dict(self.class_of_index)
        self.class_of_index = dict(old)
        self.class_of_index[k2] = cls
        self.loops.append(lc2)
        for v_ in carried:
            self.self_opaque.add(v_)
        try:
            try:
                run_body(seq.at(k2), Interp.Env(env))
            except ControlUndecided as cu:
                raise Undecided("recurrence body jumps (%s)" % cu.what, cu.span)
            except (ReturnSignal, BreakSignal):
                raise Undecided("recurrence body leaves the loop early")
        finally:
            self.loops.pop()
            self.class_of_index = old
            for v_ in carried:
                self.self_opaque.discard(v_)
                env.set(v_, saved[v_])
        rec["outer"] = (k2, cls, [tuple(g) for g in guards])
        rec["equations"] = [(self.var_names.get(var, str(var)), tuple(path), op, val, [tuple(g) for g in gs], tuple(bs))
                            for (var, path, op, val, gs, bs) in lc2.effects]
        rec["reads"] = reads

    def apply_summarised(self, var, path, op, val, lc, gs, env, binders=()):
        k, cls = lc.binder, lc.cls
        idx_path = [p for p in path if p[0] in ("idx", "midx")]
        if not idx_path:
            # scalar accumulator
            cur = self.read_place(var, path, env)
            if not isinstance(val, Num) or not isinstance(cur, Num):
                raise Undecided("structured accumulator in loop")
            if val.expr.has_atom(lambda a: a[0] == "acc"):
                raise Undecided("self-dependent accumulator")
            if binders:
                raise Undecided("scalar effect with residual binders")
            if op in ("+", "-"):
                contrib = val.expr.guarded(gs).sum_over(k, cls)
                # Σ_k ite(c[k] ? 1 : 0) is the number of elements satisfying c: the canonical form of `filter(c).count()`
                ts = val.expr.simplified().terms
                if not gs and len(ts) == 1 and ts[0].coeff == 1 and not ts[0].binders and not ts[0].guards and len(ts[0].atoms) == 1:
                    (a_, e_) = ts[0].atoms[0]
                    if e_ == 1 and a_[0] == "ite" and len(a_) == 4 and isinstance(a_[1], str) and a_[2] == Expr.const(1) and a_[3] == Expr.zero() \
                            and ("«%s»" % k) in a_[1]:
                        contrib = Expr.atom(("call", "count", "{§∈%s | %s}" % (cls, a_[1].replace("«%s»" % k, "«§»"))))
                new = cur.expr + contrib if op == "+" else cur.expr - contrib
                self.update(var, path, "=", Num(new), env, summarised=True)
                return
            if op == "*":
                if gs:
                    raise Undecided("guarded product accumulation")
                prod = Expr.atom(("prod", k, cls, val.expr))
                self.update(var, path, "=", Num(cur.expr * prod), env, summarised=True)
                return
            if op == "|":
                # bitwise union over the loop's index class (commutative, idempotent: iteration order and repeats are immaterial)
                if gs:
                    raise Undecided("guarded bit-or accumulation")
                un = Expr.atom(("bitunion", k, cls, val.expr))
                from .expr import bitop
                self.update(var, path, "=", Num(bitop("bitor", cur.expr, un)), env, summarised=True)
                return
            raise Undecided("loop-carried overwrite of a scalar (%s)" % (var,))
        # indexed write: add a rule with the loop binder
        self.update(var, path, op, val, env, binders=tuple(binders) + ((k, cls),), guards=tuple(gs), summarised=True)

    # ---- places and updates ---------------------------------------------------------------------
    def place(self, e, env):
        """Resolve an lvalue expression to (var id, path)."""
        e = strip(e)
        k = e["k"]
        if k in ("var", "upvar"):
            v = env.get(e["var"]["id"])
            if isinstance(v, PlaceRef):
                return v.var, list(v.path)
            return e["var"]["id"], []
        if k in ("deref", "borrow", "use", "ptr_coercion"):
            return self.place(e["e"], env)
        if k == "field":
            var, path = self.place(e["e"], env)
            return var, path + [("field", e["name"])]
        if k == "index":
            var, path = self.place(e["e"], env)
            idx = self.eval(e["i"], env)
            return var, path + [("idx", self.ent_of(idx))]
        if k == "call":
            c = e.get("callee") or {}
            if c.get("name") in ("index_mut", "index") and c.get("trait", "").endswith(("IndexMut", "Index")):
                var, path = self.place(e["args"][0], env)
                idx = self.eval(e["args"][1], env)
                st = c.get("self_ty", "")
                if "SquareMatrix" in st and isinstance(idx, Tup):
                    return var, path + [("midx", tuple(self.ent_of(x) for x in idx.items))]
                if "vector::Vector" in st:
                    return var, path + [("field", "elements"), ("idx", self.ent_of(idx))]
                return var, path + [("idx", self.ent_of(idx))]
            if c.get("name") in ("deref_mut", "deref", "as_mut", "as_mut_slice", "borrow_mut"):
                return self.place(e["args"][0], env)
        raise NotAPlace()

    def read_place(self, var, path, env):
        v = env.get(var)
        for p in path:
            if isinstance(v, PlaceRef):
                v = self.read_place(v.var, v.path, env)
            if p[0] == "field":
                v = self.project(v, p[1], None)
            elif p[0] == "idx":
                v = self.index_value(v, Num(Expr.zero(), ent=p[1]))
            elif p[0] == "midx":
                v = self.index_value(v, Tup([Num(Expr.zero(), ent=x) for x in p[1]]))
        return v

    def update(self, var, path, op, val, env, binders=(), guards=(), summarised=False):
        if not summarised:
            self.write_log.append((self.var_names.get(var, var), tuple(path), op, val, [c.key() for c in self.cond_stack]))
        if self.loops and var not in self.loops[-1].inner_vars:
            lc = self.loops[-1]
            idx_path = [p for p in path if p[0] in ("idx", "midx")]
            if not summarised or idx_path:
                # an effect under an opaque `if` of this iteration happens only when the condition holds: additive / multiplicative
                # contributions become ite(cond, v, neutral); any other conditional effect is outside the model
                conds = self.cond_stack[getattr(lc, "cond_base", 0):]
                if conds:
                    if op in ("+", "-", "*") and isinstance(val, Num):
                        neutral = Expr.const(1) if op == "*" else Expr.zero()
                        ex = val.expr
                        for c_ in reversed(conds):
                            cm = getattr(c_, "cmp", None)
                            if cm is not None:
                                ex = Expr.atom(("itec", cm[0], cm[1], cm[2], ex, neutral))
                            elif not any(b_ and (b_ in c_.key()) and ("«%s»" % b_) not in c_.key() for b_ in [l_.binder for l_ in self.loops]):
                                ex = Expr.atom(("ite", c_.key(), ex, neutral))
                            else:
                                raise Undecided("condition %s mentions a loop binder outside an index marker" % c_.key()[:80])
                        val = Num(ex)
                    else:
                        raise Undecided("conditional effect `%s` inside a summarised loop (condition %s)" % (op, conds[0].key()[:80]))
                lc.effects.append((var, tuple(path), op, val, list(self.loop_guards_for(lc)) + list(guards), tuple(binders)))
                return
            # summarised scalar effect of an inner loop on a variable outside the enclosing loop too: `var = new` is `var += new - old`
            cur = self.read_place(var, path, env)
            if isinstance(cur, Num) and isinstance(val, Num) and op == "=":
                delta = val.expr - cur.expr
                lc.effects.append((var, tuple(path), "+", Num(delta), list(self.loop_guards_for(lc)), ()))
                return
            raise Undecided("nested structured accumulation")
        cur = env.get(var)
        env.set(var, self.updated(cur, list(path), op, val, tuple(binders), tuple(guards), env))

    def loop_guards_for(self, lc):
        return list(lc.guards) + list(self.extra_guards)

    def updated(self, cur, path, op, val, binders, guards, env):
        if isinstance(cur, PlaceRef):
            self.ref_writes += 1
            self.update(cur.var, list(cur.path) + path, op, val, env, binders, guards, summarised=True)
            return cur
        if not path:
            if op == "=":
                return val
            if isinstance(cur, Num) and isinstance(val, Num):
                if binders or guards:
                    raise Undecided("scalar update with binders")
                if op == "+":
                    return Num(cur.expr + val.expr)
                if op == "-":
                    return Num(cur.expr - val.expr)
                if op == "*":
                    return Num(cur.expr * val.expr)
                if op == "|":
                    from .expr import bitop
                    return Num(bitop("bitor", cur.expr, val.expr))
            if op == "push" and isinstance(cur, Arr):
                raise Undecided("push outside loop")
            raise Undecided("update %s on %r" % (op, cur))
        p = path[0]
        if p[0] == "field":
            if isinstance(cur, Struct):
                f = dict(cur.fields)
                f[p[1]] = self.updated(cur.fields[p[1]], path[1:], op, val, binders, guards, env)
                return Struct(cur.name, f)
            raise Undecided("field update on %r" % (cur,))
        if p[0] in ("idx", "midx"):
            if isinstance(cur, Struct) and cur.name == "Vector":
                f = dict(cur.fields)
                f["elements"] = self.updated(cur.fields["elements"], path, op, val, binders, guards, env)
                return Struct(cur.name, f)
            if not isinstance(cur, Arr):
                raise Undecided("indexed update on %r" % (cur,))
            sub = []
            for q_ in path[1:]:
                if q_[0] != "field":
                    raise Undecided("nested indexed update")
                sub.append(q_[1])
            index = p[1] if p[0] == "midx" else (p[1],)
            return cur.with_rule(Rule(index, op, val, binders, guards, sub))
        raise Undecided("update path %r" % (p,))

    # ---- calls ----------------------------------------------------------------------------------
    def e_call(self, e, env):
        c = e.get("callee")
        if c is None:
            fv = self.eval(e["fun"], env)
            args = [self.eval(a, env) for a in e["args"]]
            if isinstance(fv, Closure):
                return self.apply(fv, args)
            raise Undecided("indirect call", e.get("span"))
        from . import models
        return models.call(self, c, e, env)

    def apply(self, fn, args):
        """Apply a closure / fn item to argument values."""
        if isinstance(fn, Closure):
            return self.run_fn(fn.path, args, fn.env)
        if isinstance(fn, FnItem):
            from . import models
            return models.call_values(self, fn.callee, args)
        raise Undecided("apply %r" % (fn,))


class ReturnSignal(Exception):
    def __init__(self, value):
        self.value = value


class BreakSignal(Exception):
    pass


class ContinueSignal(Exception):
    """`continue` of a summarised for loop: `depth` 0 is the innermost active loop, 1 the loop around it."""
    def __init__(self, depth):
        self.depth = depth


class NotAPlace(Exception):
    pass


def _raise(x):
    raise x


def strip(e):
    while isinstance(e, dict) and e.get("k") in ("use", "never_to_any") and "e" in e:
        e = e["e"]
    while isinstance(e, dict) and e.get("k") == "block" and not e.get("stmts") and "tail" in e:
        e = e["tail"]
        while isinstance(e, dict) and e.get("k") in ("use", "never_to_any") and "e" in e:
            e = e["e"]
    return e


def pattern_vars(pat):
    k = pat["k"]
    if k == "bind":
        out = [(pat["var"]["id"], pat["name"], pat["ty"])]
        if "sub" in pat:
            out += pattern_vars(pat["sub"])
        return out
    if k in ("leaf", "variant"):
        out = []
        for s in pat["subs"]:
            out += pattern_vars(s["pat"])
        return out
    if k == "deref":
        return pattern_vars(pat["sub"])
    return []


def collect_bound_vars(e):
    """Variable ids bound (let / pattern) anywhere inside expression e."""
    out = set()

    def walk(x):
        if isinstance(x, dict):
            if x.get("k") == "bind" and "var" in x:
                out.add(x["var"]["id"])
            for v in x.values():
                walk(v)
        elif isinstance(x, list):
            for v in x:
                walk(v)
    walk(e)
    return out


def whole_assigned_vars(expr):
    """ids of variables that the expression assigns as a whole with `=` (no projection on the left-hand side)"""
    out = []

    def walk(x):
        if isinstance(x, dict):
            if x.get("k") == "assign":
                l = strip(x["l"])
                while isinstance(l, dict) and l.get("k") in ("deref", "use") and "e" in l:
                    l = strip(l["e"])
                if isinstance(l, dict) and l.get("k") in ("var", "upvar"):
                    vid = l["var"]["id"]
                    if vid not in out:
                        out.append(vid)
            if x.get("k") == "closure":
                return
            for v in x.values():
                walk(v)
        elif isinstance(x, list):
            for v in x:
                walk(v)
    walk(expr)
    return out


def contains_value_exit(node):
    """True iff the THIR fragment contains a `return v` whose value is not a failure (`Err(..)`, `None`, the residual of `?`)."""
    if isinstance(node, dict):
        if node.get("k") == "return":
            v = strip(node.get("e")) if node.get("e") is not None else None
            if v is None:
                return False
            failure = False
            if isinstance(v, dict):
                if v.get("k") == "call" and (v.get("callee") or {}).get("name") == "from_residual":
                    failure = True
                if v.get("k") == "adt" and str(v.get("adt", "")).endswith(("option::Option", "result::Result")) and v.get("variant") in ("Err", "None"):
                    failure = True
            if not failure:
                return True
        for x in node.values():
            if contains_value_exit(x):
                return True
    elif isinstance(node, list):
        for x in node:
            if contains_value_exit(x):
                return True
    return False


def contains_escaping_jump(node, scopes=frozenset()):
    """True iff the fragment contains a `break` / `continue` that targets a loop OUTSIDE the fragment."""
    if isinstance(node, dict):
        k = node.get("k")
        if k in ("break", "continue"):
            lab = node.get("label")
            if lab is None:
                return not scopes
            return lab not in scopes
        if k == "loop":
            inner = scopes | {node.get("scope", "?loop%d" % len(scopes))}
            return any(contains_escaping_jump(x, inner) for x in node.values())
        return any(contains_escaping_jump(x, scopes) for x in node.values())
    if isinstance(node, list):
        return any(contains_escaping_jump(x, scopes) for x in node)
    return False


def mutated_locals(stmt):
    """(var id, name, type) of locals a statement may define or modify (let-bound, assigned, &mut-borrowed)."""
    out = {}

    def root_var(x):
        x = strip(x)
        while isinstance(x, dict):
            k = x.get("k")
            if k in ("var", "upvar"):
                return (x["var"]["id"], x["var"]["name"], x["ty"])
            if k in ("deref", "borrow", "use", "field", "index"):
                x = strip(x["e"])
                continue
            if k == "call" and x.get("callee", {}).get("name") in ("index_mut", "deref_mut", "index", "as_mut", "iter_mut", "as_mut_slice"):
                x = strip(x["args"][0])
                continue
            return None
        return None

    def walk(x):
        if isinstance(x, dict):
            k = x.get("k")
            if k in ("assign", "assignop"):
                r = root_var(x["l"])
                if r:
                    out[r[0]] = r
            if k == "borrow" and x.get("mut"):
                r = root_var(x["e"])
                if r:
                    out[r[0]] = r
            for v in x.values():
                walk(v)
        elif isinstance(x, list):
            for v in x:
                walk(v)
    walk(stmt)
    if stmt.get("k") == "let":
        for (vid, name, ty) in pattern_vars(stmt["pat"]):
            out[vid] = (vid, name, ty)
    return list(out.values())


def snapshot(env):
    snap = []
    e = env
    while e is not None:
        snap.append((e, dict(e.vars)))
        e = e.parent
    return snap


def restore(env, snap):
    for e, vars_ in snap:
        e.vars = dict(vars_)


def merge_vals(c, a, b):
    if isinstance(a, UnitV) and isinstance(b, UnitV):
        return UNIT
    if hasattr(a, "poly") and hasattr(b, "poly"):
        from .models import MatArr
        return MatArr(a.I_, a.classes[0], num_ite(c, a.poly, b.poly))
    if isinstance(a, Num) and isinstance(b, Num):
        if a.expr == b.expr:
            return a
        return Num(num_ite(c, a.expr, b.expr))
    if isinstance(a, Tup) and isinstance(b, Tup) and len(a.items) == len(b.items):
        return Tup([merge_vals(c, x, y) for x, y in zip(a.items, b.items)])
    if isinstance(a, Struct) and isinstance(b, Struct) and a.name == b.name:
        return Struct(a.name, {k: merge_vals(c, a.fields[k], b.fields[k]) for k in a.fields})
    if isinstance(a, Opt) and isinstance(b, Opt):
        if a.some is True and b.some is False:
            return Opt(c, a.payload)
        if a.some is False and b.some is True:
            return Opt(c.negate(), b.payload)
        if a.some is True and b.some is True:
            return Opt(True, merge_vals(c, a.payload, b.payload))
        if a.some is False and b.some is False:
            return Opt(False)
        if a.some is False and isinstance(b.some, Cond):
            return Opt(cond_and(c.negate(), b.some), b.payload)
        if b.some is False and isinstance(a.some, Cond):
            return Opt(cond_and(c, a.some), a.payload)
    if isinstance(a, Cond) and isinstance(b, Cond):
        if a.key() == b.key():
            return a
        if a.kind == "const":
            return cond_or(c, b) if a.data else cond_and(c.negate(), b)
        if b.kind == "const":
            return cond_or(c.negate(), a) if b.data else cond_and(c, a)
        return cond_or(cond_and(c, a), cond_and(c.negate(), b))
    if isinstance(a, Opaque) or isinstance(b, Opaque):
        return Opaque("ite(%s)" % c.key())
    if a is b:
        return a
    # `if S.is_empty() { vec![] } else { filter of S }`: the filter of an empty sequence is empty, so the selection is the filter itself
    for emp, oth, cc in ((a, b, c), (b, a, None)):
        fo = getattr(oth, "filter_of", None)
        if getattr(emp, "items", None) == [] and fo is not None and isinstance(oth, Arr):
            try:
                ck = (cc if cc is not None else c.negate()).key()
            except Exception:
                continue
            if ck == "empty(%s)" % (fo[0].classes[0],):
                return oth
    raise Undecided("merging %r and %r under a condition" % (a, b))


def num_ite(c, x, y):
    """ite(c, x, y) with the condition decomposed into its atoms (conjunctions / disjunctions / negations become nested selections) and
    each branch simplified under what its position implies: the same function written with early exits or with nested if/else gets
    the same nesting."""
    return _ite_tree(c.tree, c, x, y)


def _ite_tree(t, c, x, y):
    if x == y:
        return x
    k = t[0]
    if k == "const":
        return x if t[1] else y
    if k == "not":
        return _ite_tree(t[1], None, y, x)
    if k == "and":
        return _ite_tree(t[1], None, _ite_tree(t[2], None, x, y), y)
    if k == "or":
        return _ite_tree(t[1], None, x, _ite_tree(t[2], None, x, y))
    if k == "atom":
        key = str(t[1])
    elif c is not None:
        key = c.key()
    else:
        from . import boolean
        key = boolean.normal_text(t)
    xs, ys = _assume(x, key, True), _assume(y, key, False)
    if xs == ys:
        return xs
    return Expr.atom(("ite", key, xs, ys))


def _assume(e, key, truth):
    """e with every top-level selection on `key` resolved (a selection standing alone as a term: coefficient · ite(key, a, b))."""
    out = None
    changed = False
    for t in e.terms:
        if len(t.atoms) == 1 and t.atoms[0][1] == 1 and t.atoms[0][0][0] == "ite" and len(t.atoms[0][0]) == 4 and not t.binders and not t.guards:
            a = t.atoms[0][0]
            if a[1] == key:
                piece = _assume(a[2] if truth else a[3], key, truth) * Expr.const(t.coeff)
                changed = True
            else:
                piece = Expr.atom(("ite", a[1], _assume(a[2], key, truth), _assume(a[3], key, truth))) * Expr.const(t.coeff)
                changed = changed or piece != Expr([t])
        else:
            piece = Expr([t])
        out = piece if out is None else out + piece
    if out is None or not changed:
        return e
    return out


def _tree_subst(t, m):
    """Rename index entities inside a condition tree (keys are strings with «entity» markers, Expr keys are strings too)."""
    from .expr import cond_subst
    if isinstance(t, tuple):
        return tuple(_tree_subst(x, m) for x in t)
    if isinstance(t, str):
        out = cond_subst(t, m)
        for kk, vv in m.items():
            out = out.replace("[%s]" % kk, "[%s]" % vv).replace("[%s," % kk, "[%s," % vv).replace(",%s]" % kk, ",%s]" % vv)
        return out
    return t


def cond_and(a, b):
    for x, y in ((a, b), (b, a)):
        if x.kind == "const":
            return y if x.data else Cond("const", False)
    return Cond("key", "(%s && %s)" % (a.key(), b.key()), tree=("and", a.tree, b.tree))


def cond_or(a, b):
    for x, y in ((a, b), (b, a)):
        if x.kind == "const":
            return Cond("const", True) if x.data else y
    return Cond("key", "(%s || %s)" % (a.key(), b.key()), tree=("or", a.tree, b.tree))


def merge_states(env, c, tstate, estate):
    for (e, tv), (_e2, ev) in zip(tstate, estate):
        for vid in set(tv) | set(ev):
            a, b = tv.get(vid), ev.get(vid)
            if a is b:
                if a is not None:
                    e.vars[vid] = a
                continue
            if a is None or b is None:
                continue
            try:
                e.vars[vid] = merge_vals(c, a, b)
            except Undecided:
                e.vars[vid] = Opaque("ite(%s)" % c.key())
