"""Call semantics for the kernel interpreter: scalar-field axioms for the user's T, std iterator adapters, containers.
Local functions are evaluated from their own bodies (no model), except the flat-storage accessors of SquareMatrix, which
are abstracted to (row, col) entries and verified separately."""
import sympy as sp

from .expr import Expr, Term, fresh, S, lift
from .interp import (Undecided, Num, Arr, Rule, Struct, Tup, Opt, Cond, Closure, FnItem, Opaque, PlaceRef, UNIT, UnitV,
                     num_const, num_index, num_size, NotAPlace, strip, Interp, subst_val, INT_TYPES)


class ListV(Arr):
    """Concrete-length list (array literal, SmallVec built by pushes outside loops)."""
    def __init__(self, items):
        self.items = list(items)
        Arr.__init__(self, (len(self.items),), self._at, name="list")

    def _at(self, i):
        if isinstance(i, int) and 0 <= i < len(self.items):
            return self.items[i]
        raise Undecided("symbolic index into a concrete list")


# ---------------------------------------------------------------------------------------------------
# Matrix-level values (enabled by `I.matrix_level`): polynomials in ONE square matrix N̂.  Powers of one matrix commute, so the
# commutative Σ-polynomial algebra is exact for them; N̂^e is the atom ("call", "matpow", e) with e an index expression, and the
# product rule matpow(a)·matpow(b) = matpow(a+b) is applied after every multiplication.  Any other matrix product is evaluated
# entry-wise from the body of the crate's Mul impl, as before.

def matpow(e):
    return Expr.atom(("call", "matpow", lift(e).simplified()))


def _norm_matpow(poly):
    out = []
    for t in poly.terms:
        tot, rest, seen = Expr.zero(), [], False
        for a, x in t.atoms:
            if a[0] == "call" and a[1] == "matpow":
                if not (x.is_Integer and int(x) >= 1):
                    raise Undecided("matrix power with exponent %s" % x)
                tot = tot + a[2] * Expr.const(int(x))
                seen = True
            else:
                rest.append((a, x))
        if seen:
            rest.append((("call", "matpow", tot.simplified()), 1))
        out.append(Term(t.coeff, tuple(rest), t.binders, t.guards))
    return Expr(out)


class MatArr(Arr):
    """A square matrix known as a polynomial in the base matrix; its entries are those of the base itself (poly = N̂) or named
    unknowns `mat#i[r,c]` whose definition is kept in I.mat_defs."""
    def __init__(self, I, cls, poly, base_arr=None):
        self.poly = poly.simplified()
        self.I_ = I
        I.mat_counter = getattr(I, "mat_counter", 0) + 1
        self.mname = "mat#%d" % I.mat_counter
        I.mat_defs[self.mname] = self.poly
        if base_arr is not None:
            at = base_arr.at
        else:
            at = lambda r, c, _n=self.mname: Num(Expr.leaf(_n, r, c))
        Arr.__init__(self, (cls, cls), at, name=self.mname)


def _mat_poly(I, x):
    if isinstance(x, MatArr):
        return x.poly
    if not isinstance(x, Arr) or isinstance(x, ListV) or len(x.classes) != 2:
        return None
    if x is getattr(I, "mat_base", None):
        return matpow(1)
    if x.name == "zeros" and not x.rules:
        return Expr.zero()
    if x.name == "acc" and not x.rules:
        try:
            e_ = x.at("§r", "§c")
        except Undecided:
            return None
        if isinstance(e_, Num):
            ts = e_.expr.terms
            if len(ts) == 1 and len(ts[0].atoms) == 1 and ts[0].atoms[0][0][0] == "acc" and ts[0].atoms[0][0][-2:] == ("§r", "§c"):
                return Expr.atom(ts[0].atoms[0][0][:-2])
    return None


def matrix_level_op(I, op, a, b):
    """&A (*|+|-) &B at matrix level when both operands are polynomials in the base matrix; None to evaluate entry-wise."""
    if not (isinstance(a, Arr) and isinstance(b, Arr) and len(a.classes) == 2 and len(b.classes) == 2):
        return None
    if getattr(I, "mat_base", None) is None and op == "*" and a is b and not isinstance(a, MatArr) and not (a.name in ("zeros", "acc") and not a.rules):
        I.mat_base = a          # the first matrix multiplied by itself becomes the base N̂
    pa, pb = _mat_poly(I, a), _mat_poly(I, b)
    if pa is None or pb is None:
        return None
    if not (isinstance(a, MatArr) or isinstance(b, MatArr) or a is I.mat_base or b is I.mat_base):
        return None
    if op == "*":
        poly = _norm_matpow(pa * pb)
    elif op == "+":
        poly = pa + pb
    else:
        poly = pa - pb
    cls = a.classes[0] if a.classes[0] != "?" else b.classes[0]
    return MatArr(I, cls, poly)


class SymList(Arr):
    """The list N̂¹, N̂², …: element t is N̂^(t+1); `len_expr` is its (symbolic) length."""
    def __init__(self, I, cls, len_expr, mcls):
        self.I, self.len_expr, self.mcls = I, lift(len_expr).simplified(), mcls
        Arr.__init__(self, (cls,), self._at, name="powers")

    def elem_expr(self, e):
        return MatArr(self.I, self.mcls, matpow(lift(e) + Expr.const(1)))

    def _at(self, t):
        if isinstance(t, int):
            return self.elem_expr(Expr.const(t))
        if t == "first":
            return self.elem_expr(Expr.const(0))
        if t == "last":
            return self.elem_expr(self.len_expr - Expr.const(1))
        return self.elem_expr(Expr.leaf("$ix", t))

    def m_last(self, name):
        return self._at(name)


class SetV(Arr):
    """A set described by its generators: list of (binder, class, guards, element key)."""
    def __init__(self, gens=()):
        self.gens = tuple(gens)
        Arr.__init__(self, ("set",), lambda i: _unsupported("indexing a set"), name="set")

    def key(self):
        return "{" + "; ".join(sorted("%s : %s∈%s" % (k, b, c) if b else k for (b, c, k) in self.gens)) + "}"


class BagV(Arr):
    """A sequence built by m pushes per iteration of ONE loop over `cls` (m >= 2), possibly sorted afterwards: only its length
    (m·|cls|), and — once sorted and deduplicated — the SET of its elements are known; it cannot be indexed."""
    def __init__(self, cls, keys, sorted_=False):
        self.cls, self.keys, self.sorted_ = str(cls), tuple(keys), sorted_
        Arr.__init__(self, ("bag",), lambda i: _unsupported("indexing a sequence built by several pushes per iteration"), name="bag")

    def key(self):
        return "bag[" + "; ".join("%s : §s∈%s" % (k, self.cls) for k in self.keys) + "]"


def _unsupported(what):
    raise Undecided(what)


SCALAR_BIN = {
    ("RefMul", "ref_mul"): "*", ("Mul", "mul"): "*", ("RefAdd", "ref_add"): "+", ("Add", "add"): "+",
    ("RefSub", "ref_sub"): "-", ("Sub", "sub"): "-", ("RefDiv", "ref_div"): "/", ("Div", "div"): "/",
}
ASSIGN_OPS = {("AddAssign", "add_assign"): "+", ("SubAssign", "sub_assign"): "-", ("MulAssign", "mul_assign"): "*", ("DivAssign", "div_assign"): "/"}
FLOAT_FNS = ("ln", "exp", "cos", "sin", "abs")


def tname(c):
    t = c.get("trait") or c.get("impl_trait") or ""
    return t.split("::")[-1]


def call(I, c, e, env):
    """Call in expression position: handles place-taking callees, then evaluates arguments."""
    name = c.get("name")
    tr = tname(c)
    args_e = e["args"]
    I.cur_env = env
    # --- compound assignment through operator traits
    if (tr, name) in ASSIGN_OPS:
        val = I.eval(args_e[1], env)
        val = deref_val(I, val, env)
        try:
            var, path = I.place(args_e[0], env)
        except NotAPlace:
            raise Undecided("assignment target is not a place", e.get("span"))
        op = ASSIGN_OPS[(tr, name)]
        cur = None
        if op == "/":
            if not isinstance(val, Num):
                raise Undecided("division by a structured value")
            val, op = Num(val.expr.inv()), "*"
        # a local impl of the assign-op (Vector += Vector) is evaluated from its body
        body_path = local_body(I, c)
        if body_path is not None:
            return I.run_fn(body_path, [PlaceRef(var, path), val], None)
        I.update(var, path, op, val, env)
        return UNIT
    if name == "insert" and "hash::set::HashSet" in (c.get("impl_self") or ""):
        val = I.eval(args_e[1], env)
        var, path = I.place(args_e[0], env)
        if not isinstance(val, Num):
            raise Undecided("set element is not a scalar")
        if I.loops and var not in I.loops[-1].inner_vars:
            lc = I.loops[-1]
            lc.effects.append((var, tuple(path), "insert", val, list(I.loop_guards_for(lc)), ()))
            return Cond("key", "inserted")
        cur = I.read_place(var, path, env)
        if isinstance(cur, SetV):
            I.update(var, path, "=", SetV(cur.gens + ((None, None, val.expr.key()),)), env)
            return Cond("key", "inserted")
        raise Undecided("insert into %r" % (cur,))
    if name in ("sort", "sort_unstable", "dedup") and len(args_e) == 1:
        try:
            var, path = I.place(args_e[0], env)
            cur = I.read_place(var, path, env)
        except (NotAPlace, Undecided) as ex_:
            cur = None
        if isinstance(cur, BagV) and (not I.loops or var in I.loops[-1].inner_vars):
            if name == "dedup":
                if not cur.sorted_:
                    raise Undecided("dedup of an unsorted sequence")
                I.update(var, path, "=", SetV(tuple(("§s", cur.cls, k_) for k_ in cur.keys)), env)
            else:
                I.update(var, path, "=", BagV(cur.cls, cur.keys, True), env)
            return UNIT
    if name == "push" and ("Vec" in (c.get("impl_self") or "") or "SmallVec" in (c.get("impl_self") or "")):
        val = I.eval(args_e[1], env)
        var, path = I.place(args_e[0], env)
        return do_push(I, var, path, val, env)
    if name in ("then", "then_some") and (c.get("self_ty") == "bool" or "bool" in str(c.get("path") or "")) and len(args_e) == 2:
        # `flag.then(|| v)` / `flag.then_some(v)`: Some(v) exactly when the flag holds
        cv = I.eval(args_e[0], env)
        if isinstance(cv, Cond):
            if name == "then":
                fv = I.eval(args_e[1], env)
                if isinstance(fv, (Closure, FnItem)):
                    if cv.kind == "const":
                        return Opt(True, I.apply(fv, [])) if cv.data else Opt(False)
                    n0 = len(I.cond_stack)
                    I.cond_stack.append(cv)
                    try:
                        pv = I.apply(fv, [])
                    finally:
                        del I.cond_stack[n0:]
                    return Opt(cv, pv)
            else:
                pv = I.eval(args_e[1], env)
                return Opt(cv, pv) if cv.kind != "const" else (Opt(True, pv) if cv.data else Opt(False))
    if name in ("call", "call_mut", "call_once") and tr in ("Fn", "FnMut", "FnOnce") and len(args_e) == 2:
        # a closure / fn item received as a parameter and called: apply it to the unpacked argument tuple
        fv = I.eval(args_e[0], env)
        av = I.eval(args_e[1], env)
        if isinstance(fv, (Closure, FnItem)) and isinstance(av, Tup):
            return I.apply(fv, list(av.items))
    if name == "for_each" and tr == "Iterator":
        return for_each(I, args_e, env, e)
    if name == "iter_mut" and args_e:
        # a sequence of PLACES: `for x in v.iter_mut()` / `.iter_mut().zip(..)` then writes through x
        try:
            var, path = I.place(args_e[0], env)
            seq = I.read_place(var, path, env)
            if isinstance(seq, Struct) and seq.name == "Vector":
                seq = seq.fields["elements"]
                path = list(path) + [("field", "elements")]
            if isinstance(seq, Arr) and not isinstance(seq, ListV) and len(seq.classes) == 1:
                return Arr(seq.classes, lambda k, _v=var, _p=tuple(path): PlaceRef(_v, list(_p) + [("idx", k)]), guards_fn=seq.guards_fn, name="iter_mut")
        except (NotAPlace, Undecided):
            pass
    if tr == "MomTropFloat" and name in ("zero", "one", "PI", "from_f64", "from_isize") and args_e:
        # the receiver of a constant builder is a precision carrier, not a data dependence
        I.suppress_reads += 1
        try:
            a0 = I.eval(args_e[0], env)
        finally:
            I.suppress_reads -= 1
        args = [a0] + [I.eval(a, env) for a in args_e[1:]]
        return call_values(I, c, args, e, env)
    args = [I.eval(a, env) for a in args_e]
    return call_values(I, c, args, e, env)


def deref_val(I, v, env):
    if isinstance(v, PlaceRef):
        return I.read_place(v.var, v.path, env)
    return v


def clone_is_fieldwise_identity(f, path, depth=0):
    """A hand-written `clone` that is what the derive would have written — decided on its MIR: straight-line code, one aggregate of
    the Self type reaching the return place, every field rooted (through Clone::clone / copies / borrows) at the SAME field of `self`;
    crate-local Clone impls it calls are themselves derived or of this form."""
    from ..vals import Vals
    b = next((b_ for b_ in f.mir.values() if b_.path == path), None)
    if b is None or depth > 4 or b.arg_count != 1:
        return False
    live = [blk for blk in b.blocks if not blk["cleanup"]]
    if any(blk["term"]["k"] == "switch" for blk in live):
        return False
    fns = {fn_["path"]: fn_ for fn_ in f.items["fns"]}
    for blk in live:
        t = blk["term"]
        if t["k"] != "call":
            continue
        c = t.get("callee") or {}
        if (c.get("trait") or "").split("::")[-1] != "Clone" or c.get("name") != "clone":
            return False                      # any other call: not the plain field-wise form
        for key in ("resolved", "path"):
            p_ = c.get(key)
            if p_ and any(b_.path == p_ for b_ in f.mir.values()):
                rec = fns.get(p_)
                if rec is None or not (rec.get("impl_derived") or clone_is_fieldwise_identity(f, p_, depth + 1)):
                    return False
                break
    v = Vals(b)
    aggs = [s_ for blk in live for s_ in blk["stmts"] if s_["k"] == "assign" and s_["rv"]["k"] == "aggregate" and s_["rv"].get("agg") == "adt"]
    if len(aggs) != 1:
        return False
    st = aggs[0]
    r0 = v.root({"k": "move", "place": {"l": 0, "p": []}}) if st["place"]["l"] != 0 else None
    if st["place"]["p"] or (st["place"]["l"] != 0 and not (r0 is not None and r0.kind == "local" and r0.base[1] == st["place"]["l"] and not r0.path)):
        return False
    rv = st["rv"]
    if not rv.get("fields") or len(rv["fields"]) != len(rv["ops"]):
        return False
    for name_, op in zip(rv["fields"], rv["ops"]):
        r = v.root(op)
        if not (r.kind == "arg" and r.base[1] == 1 and tuple(r.path) == (name_,)):
            return False
    return True


def local_body(I, c):
    for key in ("resolved", "path"):
        p = c.get(key)
        if p and I.body_of(p) is not None:
            return p
    return None


def _dispatch_local_trait(I, c, args):
    tr = c.get("trait")
    if not tr or not args:
        return None
    recv = args[0]
    if isinstance(recv, PlaceRef):
        return None
    tname = recv.name.split("::")[0] if isinstance(recv, Struct) else None
    if tname is None:
        return None
    hits = []
    for fn in I.f.items["fns"]:
        if fn.get("name") == c.get("name") and (fn.get("impl_trait") or "") == tr:
            st = fn.get("impl_self") or ""
            if st.split("<")[0].split("::")[-1] == tname and I.body_of(fn["path"]) is not None:
                hits.append(fn["path"])
    return hits[0] if len(hits) == 1 else None


def do_push(I, var, path, val, env):
    if I.loops and var not in I.loops[-1].inner_vars:
        lc = I.loops[-1]
        conds = I.cond_stack[getattr(lc, "cond_base", 0):]
        if conds:
            # a push that happens only when a condition of this iteration holds builds the FILTERED sequence
            from .interp import cond_and
            c = conds[0]
            for c2 in conds[1:]:
                c = cond_and(c, c2)
            lc.effects.append((var, tuple(path), "push-if", (c, val), list(I.loop_guards_for(lc)), ()))
            return UNIT
        lc.effects.append((var, tuple(path), "push", val, list(I.loop_guards_for(lc)), ()))
        # materialise at loop end: handled in apply hook below
        return UNIT
    cur = I.read_place(var, path, env)
    if isinstance(cur, ListV):
        I.update(var, path, "=", ListV(cur.items + [val]), env)
        return UNIT
    raise Undecided("push onto %r" % (cur,))


def _apply_push(I, var, path, val, lc, gs, env):
    cur = I.read_place(var, path, env)
    k, cls = lc.binder, lc.cls
    prev = getattr(cur, "pushed_in", None)
    if prev is not None and prev[0] is lc and not gs and isinstance(val, Num) and all(isinstance(v_, Num) for v_ in prev[1]):
        # a further unconditional push in the same iteration: the sequence is no longer indexable by the loop class, but its length
        # and its set of elements are known
        vals = prev[1] + [val]
        out = BagV(cls, [v_.expr.subst({k: "§s"}).key() for v_ in vals])
        out.pushed_in = (lc, vals)
        I.update(var, path, "=", out, env, summarised=True)
        return
    if not (isinstance(cur, ListV) and not cur.items):
        raise Undecided("push in a loop onto a non-empty sequence")
    if gs:
        raise Undecided("conditional push in a loop")

    def at(i, _v=val, _k=k):
        return subst_val(_v, {_k: i})
    out = Arr((cls,), at, name="pushed")
    out.pushed_in = (lc, [val])
    I.update(var, path, "=", out, env, summarised=True)


_orig_apply = Interp.apply_summarised


def _apply_push_if(I, var, path, cv, lc, gs, env):
    cond, val = cv
    cur = I.read_place(var, path, env)
    if not (isinstance(cur, ListV) and not cur.items):
        raise Undecided("conditional push in a loop onto a non-empty sequence")
    if gs or len([ef for ef in lc.effects if ef[0] == var and tuple(ef[1]) == tuple(path)]) != 1:
        raise Undecided("conditional push under index guards / next to another push")
    k, cls = lc.binder, lc.cls
    from .interp import _tree_subst
    from .expr import cond_subst
    probe = Cond("key", cond_subst(cond.key(), {k: "§"}), tree=_tree_subst(cond.tree, {k: "§"}))
    fcls = "{§∈%s | %s}" % (cls, probe.key())

    def at(i, _v=val, _k=k):
        return subst_val(_v, {_k: i})
    out = Arr((fcls,), at, name="filter")
    out.filter_of = (Arr((cls,), at, name="pushed-source"), probe)
    I.update(var, path, "=", out, env, summarised=True)


def _apply_summarised(self, var, path, op, val, lc, gs, env, binders=()):
    if op == "push":
        return _apply_push(self, var, path, val, lc, gs, env)
    if op == "push-if":
        return _apply_push_if(self, var, path, val, lc, gs, env)
    if op == "insert":
        cur = self.read_place(var, path, env)
        if not isinstance(cur, SetV) or gs or binders:
            raise Undecided("conditional / nested insertion into a set")
        k, cls = lc.binder, lc.cls
        key = val.expr.subst({k: "§s"}).key()
        self.update(var, path, "=", SetV(cur.gens + (("§s", str(cls), key),)), env, summarised=True)
        return
    return _orig_apply(self, var, path, op, val, lc, gs, env, binders)


Interp.apply_summarised = _apply_summarised


def for_each(I, args_e, env, e):
    """iter_mut().for_each(|x| body): element-wise update of the underlying sequence."""
    src = strip(args_e[0])
    if src["k"] == "call" and src.get("callee", {}).get("name") == "iter_mut":
        try:
            var, path = I.place(src["args"][0], env)
        except NotAPlace:
            raise Undecided("for_each source is not a place")
        seq = I.read_place(var, path, env)
        if isinstance(seq, Struct) and seq.name == "Vector":
            seq = seq.fields["elements"]
            path = list(path) + [("field", "elements")]
        if not isinstance(seq, Arr):
            raise Undecided("for_each over %r" % (seq,))
        clo = I.eval(args_e[1], env)

        def body(elem, benv):
            k = I.loops[-1].binder
            I.apply(clo, [PlaceRef(var, list(path) + [("idx", k)])])
        I.iterate(Arr(seq.classes, lambda k: UNIT), body, env, None)
        return UNIT
    # by-value for_each: run the closure for its effects
    seq = I.eval(args_e[0], env)
    clo = I.eval(args_e[1], env)
    if isinstance(seq, Arr):
        I.iterate(seq, lambda elem, benv: I.apply(clo, [elem]), env, None)
        return UNIT
    raise Undecided("for_each over %r" % (seq,))


def as_num(v):
    if isinstance(v, Num):
        return v
    raise Undecided("expected a scalar, found %r" % (v,))


def size_of(I, seq):
    if isinstance(seq, ListV):
        return num_const(len(seq.items))
    if isinstance(seq, SymList):
        return Num(seq.len_expr)
    if isinstance(seq, Struct) and seq.name == "Vector":
        seq = seq.fields["elements"]
    if isinstance(seq, Arr):
        c = seq.classes[0]
        if isinstance(c, int):
            return num_const(c)
        if c == "?":
            raise Undecided("length of a sequence of unknown extent")
        return num_size(c)
    raise Undecided("len of %r" % (seq,))


def call_values(I, c, args, e=None, env=None):
    name = c.get("name")
    tr = tname(c)
    I.raw_args = list(args)
    args = [deref_val(I, a, env) if env is not None else a for a in args]
    path = c.get("path", "")
    iself = c.get("impl_self") or ""
    selfty = c.get("self_ty") or ""

    # ---- user hooks (role models supplied by the rule)
    hook = I.models.get(name) or I.models.get(path)
    if hook is not None:
        r = hook(I, c, args)
        if r is not NotImplemented:
            return r
    for a in args[:1]:
        if hasattr(a, "m_call"):
            r = a.m_call(I, name, args[1:])
            if r is not NotImplemented:
                return r

    # ---- MomTropFloat on the abstract scalar
    if tr == "MomTropFloat" and not iself.startswith("f64") and local_body(I, c) is None or (tr == "MomTropFloat" and isinstance(args[0], Num)):
        x = as_num(args[0])
        if name in ("zero",):
            return num_const(0)
        if name == "one":
            return num_const(1)
        if name == "PI":
            return Num(Expr.atom(("sym", "pi")))
        if name in ("from_isize", "from_f64"):
            return Num(as_num(args[1]).expr)
        if name == "to_f64":
            return Num(x.expr)
        if name in FLOAT_FNS:
            return Num(x.expr.fn(name))
        if name == "sqrt":
            return Num(x.expr.powf(sp.Rational(1, 2)))
        if name == "inv":
            return Num(x.expr.inv())
        if name == "powf":
            return Num(x.expr.powf(exponent_of(as_num(args[1]))))
    # f64 inherent functions
    if iself == "f64" or path.startswith(("std::f64::", "core::f64::")):
        x = as_num(args[0])
        if name in FLOAT_FNS:
            return Num(x.expr.fn(name))
        if name == "sqrt":
            return Num(x.expr.powf(sp.Rational(1, 2)))
        if name == "powf":
            return Num(x.expr.powf(exponent_of(as_num(args[1]))))
        if name == "recip":
            return Num(x.expr.inv())
        if name == "powi":
            return Num(x.expr.powf(exponent_of(as_num(args[1]))))
        if name in ("min", "max"):
            return Num(Expr.atom(("call", name, x.expr, as_num(args[1]).expr)))
    if path.startswith("statrs::function::gamma::gamma") and name == "gamma":
        return Num(as_num(args[0]).expr.fn("gamma"))
    if name == "pow" and ("usize" in path or "impl u" in path or "impl i" in path):
        b, ex = as_num(args[0]), as_num(args[1])
        if b.expr == Expr.const(2):
            return Num(Expr.atom(("call", "shl", Expr.const(1), ex.expr)))   # 2^n is 1 << n: one canonical form
        return Num(Expr.atom(("call", "ipow", b.expr, ex.expr)))
    if name in ("min", "max") and (tr.endswith("Ord") or "usize" in path or "impl u" in path or "impl i" in path) and len(args) == 2 \
            and isinstance(args[0], Num) and isinstance(args[1], Num):
        a_, b_ = args[0], args[1]
        # min / max of two values that are the same formula (two slices of the same length) is that value, size class included
        if a_.expr == b_.expr:
            return a_ if a_.size is not None else b_
        return Num(Expr.atom(("call", name, a_.expr, b_.expr)))
    if name == "is_power_of_two" and args and isinstance(args[0], Num):
        # for an unsigned integer: exactly one bit set
        pc = Expr.atom(("call", "popcount", args[0].expr))
        c_ = Cond("key", "%s == 1" % pc.key(), tree=("cmp", "Eq", pc.key(), Expr.const(1).key()))
        c_.cmp = ("Eq", pc, Expr.const(1))
        return c_
    if name == "count_ones":
        return Num(Expr.atom(("call", "popcount", as_num(args[0]).expr)))

    # ---- scalar operator traits
    if (tr, name) in SCALAR_BIN and isinstance(args[0], Num) and isinstance(args[1], Num) and local_body(I, c) is None:
        op = SCALAR_BIN[(tr, name)]
        a, b = args[0].expr, args[1].expr
        if op == "*":
            return Num(a * b)
        if op == "+":
            return Num(a + b)
        if op == "-":
            return Num(a - b)
        return Num(a * b.inv())
    if tr in ("Neg", "RefNeg") and isinstance(args[0], Num) and local_body(I, c) is None:
        return Num(-args[0].expr)
    if tr == "Clone" and name == "clone":
        # a derived (or std) Clone copies; a hand-written impl in the crate is what its body says
        lb_ = local_body(I, c)
        if lb_ is not None:
            rec_ = next((fn_ for fn_ in I.f.items["fns"] if fn_["path"] == lb_), None)
            if rec_ is not None and not rec_.get("impl_derived") and not clone_is_fieldwise_identity(I.f, lb_):
                return I.run_fn(lb_, args, None)
        return args[0]
    if tr in ("PartialOrd", "PartialEq") and name in ("lt", "le", "gt", "ge", "eq", "ne"):
        opn = {"lt": "Lt", "le": "Le", "gt": "Gt", "ge": "Ge", "eq": "Eq", "ne": "Ne"}[name]
        if local_body(I, c) is None or isinstance(args[0], Num):
            return I.binop(opn, args[0], args[1])
    if tr in ("Index", "IndexMut") and name in ("index", "index_mut"):
        return I.index_value(args[0], args[1])
    if tr in ("Deref", "DerefMut", "Borrow", "AsRef", "BorrowMut", "AsMut") or name in ("as_slice", "as_mut_slice", "each_ref", "each_mut", "to_vec", "into_boxed_slice", "as_ref"):
        return args[0]
    if tr in ("Into", "From") and len(args) == 1:
        # a conversion implemented in the crate (`impl From<[T; D]> for Vector`) is what its body says; std's are value-preserving
        lb = local_body(I, c)
        if lb is not None:
            return I.run_fn(lb, args, None)
        return args[0]
    if name == "try_into" or name == "try_from":
        return Opt(True, args[0])

    # ---- SquareMatrix storage abstraction
    if "SquareMatrix" in iself and name in ("new_zeros", "new_zeros_from_num") and not getattr(I, "no_storage_model", False):
        dim = as_num(args[1])
        cls = dim.size
        if cls is None:
            raise Undecided("matrix dimension is not a size symbol (%s)" % dim.expr.key())
        return Arr((cls, cls), lambda r, c_: num_const(0), name="zeros")

    if tr == "Try" and name == "branch":
        return args[0]
    if name in ("map_err", "or_else") and "result::Result" in iself:
        return args[0]
    if name == "from_residual":
        return Opt(False)
    # ---- Option / Result helpers
    if "option::Option" in iself or "result::Result" in iself:
        o = args[0]
        if name in ("unwrap", "expect", "unwrap_or_else", "unwrap_or", "unwrap_or_default"):
            if isinstance(o, Opt):
                if o.some is False:
                    raise Undecided("unwrap of None")
                if o.some is not True:
                    I.assumptions.append("unwrap: Option assumed Some (%s)" % o.some.key())
                return o.payload
            if isinstance(o, Opaque):
                return Opaque("%s.unwrap" % o.name)
            return o
        if name == "map" and isinstance(o, Opt) and len(args) == 2 and isinstance(args[1], (Closure, FnItem)):
            # Option::map / Result::map: the payload is transformed exactly when it is present
            if o.some is False:
                return Opt(False)
            if o.some is True:
                return Opt(True, I.apply(args[1], [o.payload]))
            n0 = len(I.cond_stack)
            I.cond_stack.append(o.some)
            try:
                pv = I.apply(args[1], [o.payload])
            finally:
                del I.cond_stack[n0:]
            return Opt(o.some, pv)
        if name in ("as_deref", "as_deref_mut", "as_ref", "as_mut", "copied", "cloned", "as_slice") and isinstance(o, Opt):
            return o
        if name in ("is_some", "is_none") and isinstance(o, Opt):
            if isinstance(o.some, bool):
                return Cond("const", o.some == (name == "is_some"))
            return o.some if name == "is_some" else o.some.negate()

    # ---- containers
    if name == "default" and "hash::set::HashSet" in (c.get("self_ty") or ""):
        return SetV()
    if name == "len" and args and isinstance(args[0], SetV):
        return Num(Expr.atom(("call", "card", args[0].key())))
    if name == "len" and args and isinstance(args[0], BagV):
        return Num(Expr.const(len(args[0].keys)) * num_size(args[0].cls).expr)
    if name == "is_empty" and args and isinstance(args[0], Arr) and not isinstance(args[0], (ListV, SetV)):
        return Cond("key", "empty(%s)" % (args[0].classes[0],))
    if name == "len" and args and isinstance(args[0], (Arr, Struct)):
        return size_of(I, args[0])
    if name in ("new", "with_capacity") and ("vec::Vec" in iself or "SmallVec" in iself):
        return ListV([])
    if name == "from_elem":
        n = as_num(args[1])
        v0 = args[0]
        if n.size is not None:
            return Arr((n.size,), lambda i, _v=v0: _v, name="from_elem")
        cls = "⟨%s⟩" % n.expr.simplified().key()
        I.derived_sizes[cls] = n.expr
        return Arr((cls,), lambda i, _v=v0: _v, name="from_elem")
    if name in ("last", "first") and isinstance(args[0], Arr):
        seq = args[0]
        if isinstance(seq, ListV):
            if not seq.items:
                return Opt(False)
            return Opt(True, seq.items[-1] if name == "last" else seq.items[0])
        if hasattr(seq, "m_last"):
            return Opt(True, seq.m_last(name))
        I.assumptions.append("%s(): the sequence is assumed non-empty" % name)
        return Opt(True, seq.at(name))
    if name == "from_fn" and "array" in path:
        clo = args[0]
        n = array_len_class(I, e, c)
        return Arr((n,), lambda i, _c=clo: I.apply(_c, [index_num(i)]), name="from_fn")

    # ---- iterator adapters (lazy, symbolic extent)
    if name in ("iter", "into_iter", "iter_mut", "by_ref", "copied", "cloned", "collect", "collect_vec", "peekable", "fuse", "rev_not_allowed"):
        s_ = args[0]
        if isinstance(s_, Struct) and s_.name == "Vector":
            return s_.fields["elements"]
        if isinstance(s_, (Arr, Opaque)):
            return s_
    if name == "enumerate" and isinstance(args[0], Arr):
        s_ = args[0]
        return Arr(s_.classes, lambda k, _s=s_: Tup([index_num(k), _s.at(k)]), guards_fn=s_.guards_fn, name="enumerate")
    if name == "zip" and isinstance(args[0], Arr):
        a, b = args[0], args[1]
        if isinstance(b, Struct) and b.name == "Vector":
            b = b.fields["elements"]
        if not isinstance(b, Arr):
            raise Undecided("zip with %r" % (b,))
        ca, cb = a.classes[0], b.classes[0]
        if ca != cb and "?" not in (ca, cb):
            I.assumptions.append("zip of sequences of extent %s and %s: equal extents assumed" % (ca, cb))
        cls = ca if ca != "?" else cb
        return Arr((cls,), lambda k, _a=a, _b=b: Tup([_a.at(k), _b.at(k)]), guards_fn=a.guards_fn or b.guards_fn, name="zip")
    if name == "map" and isinstance(args[0], Arr) and isinstance(args[1], (Closure, FnItem)):
        s_, clo = args[0], args[1]
        if isinstance(s_, ListV):
            return ListV([I.apply(clo, [x]) for x in s_.items])
        return Arr(s_.classes, lambda k, _s=s_, _c=clo: I.apply(_c, [_s.at(k)]), guards_fn=s_.guards_fn, name="map")
    if name == "unzip" and isinstance(args[0], Arr):
        s_ = args[0]
        return Tup([Arr(s_.classes, lambda k, _s=s_: _s.at(k).items[0], guards_fn=s_.guards_fn),
                    Arr(s_.classes, lambda k, _s=s_: _s.at(k).items[1], guards_fn=s_.guards_fn)])
    if name == "fold" and isinstance(args[0], Arr):
        return fold(I, args[0], args[1], args[2])
    if name in ("sum", "product") and isinstance(args[0], Arr):
        s_ = args[0]
        k = fresh("k")
        elem = s_.at(k)
        gs = s_.guards_fn(k) if s_.guards_fn else []
        x = as_num(elem)
        if name == "sum":
            return Num(x.expr.guarded(gs).sum_over(k, s_.classes[0]))
        if gs:
            raise Undecided("product over a restricted range")
        return Num(Expr.atom(("prod", k, s_.classes[0], x.expr)))
    if name in ("any", "all") and isinstance(args[0], Arr) and isinstance(args[1], (Closure, FnItem)):
        s_, clo = args[0], args[1]
        d = getattr(I, "quant_depth", 0)
        I.quant_depth = d + 1
        try:
            dummy = "§q%d" % d
            probe = I.apply(clo, [s_.at(dummy)])
        finally:
            I.quant_depth = d
        if not isinstance(probe, Cond):
            raise Undecided("%s predicate is not a condition" % name)
        return Cond("key", "%s%s∈%s: (%s)" % ("∃" if name == "any" else "∀", dummy, s_.classes[0], probe.key()),
                    tree=("exists" if name == "any" else "forall", dummy, s_.classes[0], probe.tree))
    if name == "filter" and isinstance(args[0], Arr) and isinstance(args[1], (Closure, FnItem)):
        s_, clo = args[0], args[1]
        probe = I.apply(clo, [s_.at("§")])
        if not isinstance(probe, Cond):
            raise Undecided("filter predicate is not a condition")
        cls = "{§∈%s | %s}" % (s_.classes[0], probe.key())
        out = Arr((cls,), lambda k, _s=s_: _s.at(k), name="filter")
        out.filter_of = (s_, probe)
        return out
    if name == "last" and isinstance(args[0], Arr) and not isinstance(args[0], ListV) and not hasattr(args[0], "m_last"):
        I.assumptions.append("last(): the sequence is assumed non-empty")
        return Opt(True, args[0].at("last"))
    if name == "next" and isinstance(args[0], Arr) and not isinstance(args[0], ListV):
        I.assumptions.append("next(): the sequence is assumed non-empty")
        return Opt(True, args[0].at("first"))
    if name == "count" and isinstance(args[0], Arr):
        c0 = args[0].classes[0]
        if isinstance(c0, str) and c0.startswith("{"):
            return Num(Expr.atom(("call", "count", c0)))
        return size_of(I, args[0])
    if name == "skip" and isinstance(args[0], Arr) and not isinstance(args[0], ListV) and isinstance(args[1], Num) and isinstance(args[1].ent, int) \
            and getattr(args[0], "name", None) == "enumerate":
        # `.enumerate().skip(c)`: the same (index, element) pairs from position c on (skip BEFORE enumerate would renumber: not modelled)
        s_, c_ = args[0], args[1].ent
        og = s_.guards_fn
        return Arr(s_.classes, s_.base, s_.rules, guards_fn=(lambda k, _og=og, _c=c_: (list(_og(k)) if _og else []) + [("<=", _c, k)]), name="enumerate")
    if name in ("rev", "rfold", "next_back", "skip", "step_by", "take", "chain", "filter", "flat_map", "take_while", "skip_while", "sorted"):
        raise Undecided("iterator adapter `%s` is outside the summarisation model" % name, e.get("span") if e else None)

    # ---- matrix-level arithmetic on polynomials in one matrix (the crate's operator impls are verified entry-wise by their own clause)
    if getattr(I, "matrix_level", False) and (tr, name) in (("Mul", "mul"), ("Add", "add"), ("Sub", "sub")) and len(args) == 2 and local_body(I, c) is not None:
        r_ = matrix_level_op(I, {"mul": "*", "add": "+", "sub": "-"}[name], args[0], args[1])
        if r_ is not None:
            I.mat_ops_used.add(local_body(I, c))
            return r_

    # ---- local function: evaluate its body
    bp = local_body(I, c)
    if bp is not None:
        # `&mut` parameters receive the reference itself: what the callee writes through it is an effect on the caller's variable
        raw = getattr(I, "raw_args", None) or []
        fi_ = None
        for fn_ in I.f.items["fns"]:
            if fn_["path"] == bp:
                fi_ = fn_
                break
        if fi_ is not None and len(raw) == len(args) == len(fi_.get("inputs") or []):
            args = [r_ if (isinstance(r_, PlaceRef) and str(t_).startswith("&mut")) else a_ for a_, r_, t_ in zip(args, raw, fi_["inputs"])]
        return I.run_fn(bp, args, None)
    # a method of a crate-local trait called on a value whose type is known here (inside a default method the call is abstract in
    # `Self`): dispatch to that type's impl
    dp = _dispatch_local_trait(I, c, args)
    if dp is not None:
        return I.run_fn(dp, args, None)
    raise Undecided("call of %s" % (c.get("full") or path), e.get("span") if e else None)


def index_num(i):
    if isinstance(i, int):
        return num_const(i)
    return num_index(i)


def exponent_of(n):
    """A power's exponent must be a constant expression (numbers and scalar symbols): convert to sympy."""
    e = n.expr.simplified()
    total = sp.Integer(0)
    for t in e.terms:
        if t.binders or [g for g in t.guards if g != ("true",)]:
            raise Undecided("exponent with summation")
        m = t.coeff
        for a, x in t.atoms:
            if a[0] == "sym":
                m = m * sp.Symbol(a[1], positive=True) ** x
            elif a[0] == "leaf" and len(a) == 2:
                m = m * sp.Symbol(a[1], positive=True) ** x
            elif a[0] == "pow":
                m = m * exponent_of(Num(a[1])) ** x
            elif a[0] == "call" and all(isinstance(z, str) for z in a[1:]):
                m = m * sp.Symbol("%s(%s)" % (a[1], ",".join(a[2:])), positive=True) ** x
            else:
                raise Undecided("exponent mentions %r" % (a,))
        total = total + m
    return sp.simplify(total)


def array_len_class(I, e, c):
    """Extent of `[T; N]` produced by array::from_fn: the const generic argument."""
    for a in c.get("gargs", []):
        if a["k"] == "const":
            v = a["c"]
            try:
                return int(v)
            except ValueError:
                return str(v)
    raise Undecided("array extent")


def fold(I, seq, init, clo):
    """fold(init, |acc, x| f(acc, x)): accepted when f(acc, x) = acc (+) g(x) with g free of acc, per scalar slot."""
    k = fresh("k")
    cls = seq.classes[0]
    gs = seq.guards_fn(k) if seq.guards_fn else []
    acc_id = fresh("acc")
    acc = placeholder_like(I, init, acc_id)
    old = dict(I.class_of_index)
    I.class_of_index = dict(old)
    I.class_of_index[k] = cls
    try:
        res = I.apply(clo, [acc, seq.at(k)])
    finally:
        I.class_of_index = old
    return fold_combine(I, init, acc, res, k, cls, gs)


def placeholder_like(I, v, acc_id, idx=()):
    if isinstance(v, Num):
        return Num(Expr.atom(("acc", acc_id) + tuple(idx)))
    if isinstance(v, Struct):
        return Struct(v.name, {f: placeholder_like(I, x, acc_id, idx + (f,)) for f, x in v.fields.items()})
    if isinstance(v, Tup):
        return Tup([placeholder_like(I, x, acc_id, idx + (str(i),)) for i, x in enumerate(v.items)])
    if isinstance(v, Arr) and not isinstance(v, ListV):
        return Arr(v.classes, lambda *ix, _v=v: placeholder_like(I, _v.at(*ix), acc_id, idx + tuple(ix)), name="acc")
    raise Undecided("fold accumulator of shape %r" % (v,))


def _strip_acc(poly, ap):
    """poly − ap when that is free of the accumulator, looking through one `ite` whose branches both carry it; else None."""
    has_acc = lambda e_: e_.has_atom(lambda a: a[0] == "acc")
    d = (poly - ap).simplified()
    if not has_acc(d):
        return d
    ts = poly.simplified().terms
    if len(ts) == 1 and ts[0].coeff == 1 and not ts[0].binders and not ts[0].guards and len(ts[0].atoms) == 1 and ts[0].atoms[0][1] == 1:
        a = ts[0].atoms[0][0]
        if a[0] == "ite" and len(a) == 4:
            x, y = _strip_acc(a[2], ap), _strip_acc(a[3], ap)
            if x is not None and y is not None:
                return Expr.atom(("ite", a[1], x, y))
    return None


def fold_combine(I, init, acc, res, k, cls, gs):
    if isinstance(res, MatArr):
        ip, ap = _mat_poly(I, init), _mat_poly(I, acc)
        if ip is None or ap is None:
            raise Undecided("matrix accumulator that is not a polynomial in the base matrix")
        delta = _strip_acc(res.poly, ap)
        if delta is None:
            raise Undecided("matrix fold step is not `acc + g(item)`")
        return MatArr(I, res.classes[0], ip + delta.guarded(gs).sum_over(k, cls))
    if isinstance(init, Num):
        if not isinstance(res, Num) or not isinstance(acc, Num):
            raise Undecided("fold result shape")
        delta = (res.expr - acc.expr).simplified()
        if delta.has_atom(lambda a: a[0] == "acc"):
            # bit-or accumulation: res = acc | g(item) with g free of acc  ->  init | ⋃_k g
            rt = res.expr.simplified().terms
            if len(rt) == 1 and rt[0].coeff == 1 and len(rt[0].atoms) == 1 and rt[0].atoms[0][1] == 1 and not rt[0].binders and not rt[0].guards:
                at = rt[0].atoms[0][0]
                if at[0] == "call" and at[1] == "bitor" and len(at) == 4 and not gs:
                    ops = [at[2], at[3]]
                    mine = [o for o in ops if o == acc.expr]
                    other = [o for o in ops if o != acc.expr]
                    if len(mine) == 1 and len(other) == 1 and not other[0].has_atom(lambda a: a[0] == "acc"):
                        from .expr import bitop
                        return Num(bitop("bitor", init.expr, Expr.atom(("bitunion", k, cls, other[0]))))
            raise Undecided("fold step is not `acc + g(item)`")
        return Num(init.expr + delta.guarded(gs).sum_over(k, cls))
    if isinstance(init, Struct) and isinstance(res, Struct):
        return Struct(init.name, {f: fold_combine(I, init.fields[f], acc.fields[f], res.fields[f], k, cls, gs) for f in init.fields})
    if isinstance(init, Tup) and isinstance(res, Tup):
        return Tup([fold_combine(I, a, b, c_, k, cls, gs) for a, b, c_ in zip(init.items, acc.items, res.items)])
    if isinstance(init, Arr) and isinstance(res, Arr):
        def at(*ix, _i=init, _a=acc, _r=res):
            return fold_combine(I, _i.at(*ix), _a.at(*ix), _r.at(*ix), k, cls, gs)
        return Arr(init.classes if "?" not in init.classes else res.classes, at, name="fold")
    raise Undecided("fold over shapes %r / %r" % (init, res))
