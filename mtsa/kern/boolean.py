"""Boolean structure of conditions: equivalence modulo commutativity, De Morgan, operand order of ==/!=.

Trees (see interp.Cond.tree): ('const', b) | ('atom', key) | ('cmp', op, lkey, rkey) | ('not', t) | ('or'|'and', t, t)
| ('exists'|'forall', dummy, cls, t).  Quantifier-free parts are compared by exhaustive evaluation: the operands of ==/!= are
touched only through (dis)equality, so the set partitions of the operands enumerate every behaviour; all other atoms are free booleans.
"""
import itertools


class NotComparable(Exception):
    pass


def set_partitions(items):
    if not items:
        yield []
        return
    first, rest = items[0], items[1:]
    for part in set_partitions(rest):
        for i in range(len(part)):
            yield part[:i] + [[first] + part[i]] + part[i + 1:]
        yield [[first]] + part


def _collect(t, ops, atoms):
    k = t[0]
    if k == "cmp":
        if t[1] in ("Eq", "Ne"):
            ops.add(t[2])
            ops.add(t[3])
        else:
            atoms.add(("cmp",) + tuple(t[1:]))
    elif k == "atom":
        atoms.add(t)
    elif k in ("exists", "forall"):
        atoms.add(_qkey(t))
    elif k in ("or", "and"):
        _collect(t[1], ops, atoms)
        _collect(t[2], ops, atoms)
    elif k == "not":
        _collect(t[1], ops, atoms)


def _qkey(t):
    # a quantified subformula inside a propositional context is an atom keyed by its normalised text
    return ("q", normal_text(t))


def normal_text(t):
    k = t[0]
    if k == "const":
        return str(t[1])
    if k == "atom":
        return str(t[1])
    if k == "cmp":
        a, b = t[2], t[3]
        if t[1] in ("Eq", "Ne") and b < a:
            a, b = b, a
        return "%s %s %s" % (a, t[1], b)
    if k == "not":
        return "!(%s)" % normal_text(t[1])
    if k in ("or", "and"):
        return "(%s)" % (" %s " % k).join(sorted(normal_text(x) for x in flatten(t, k)))
    if k in ("exists", "forall"):
        return "%s %s∈%s: (%s)" % (k, t[1], t[2], normal_text(t[3]))
    return repr(t)


def flatten(t, k):
    if t[0] == k:
        return flatten(t[1], k) + flatten(t[2], k)
    return [t]


def _eval(t, same, val):
    k = t[0]
    if k == "const":
        return t[1]
    if k == "cmp":
        if t[1] == "Eq":
            return same(t[2], t[3])
        if t[1] == "Ne":
            return not same(t[2], t[3])
        return val[("cmp",) + tuple(t[1:])]
    if k == "atom":
        return val[t]
    if k in ("exists", "forall"):
        return val[_qkey(t)]
    if k == "or":
        return _eval(t[1], same, val) or _eval(t[2], same, val)
    if k == "and":
        return _eval(t[1], same, val) and _eval(t[2], same, val)
    if k == "not":
        return not _eval(t[1], same, val)
    raise NotComparable(repr(t))


def prop_equiv(t1, t2, max_ops=7, max_atoms=6):
    """Propositional equivalence (quantified subformulas are atoms keyed by their normalised text)."""
    ops, atoms = set(), set()
    _collect(t1, ops, atoms)
    _collect(t2, ops, atoms)
    ops, atoms = sorted(ops), sorted(atoms, key=repr)
    if len(ops) > max_ops or len(atoms) > max_atoms:
        raise NotComparable("%d operands / %d atoms" % (len(ops), len(atoms)))
    for part in set_partitions(ops):
        cls = {x: i for i, blk in enumerate(part) for x in blk}
        same = lambda x, y: cls[x] == cls[y]
        for bits in itertools.product((False, True), repeat=len(atoms)):
            val = dict(zip(atoms, bits))
            if _eval(t1, same, val) != _eval(t2, same, val):
                return False, "differ when %s and %s" % (
                    ["=".join(b) for b in part if len(b) > 1] or "all compared values are distinct", {str(a)[:60]: v for a, v in val.items()})
    return True, "equal on every equality pattern of %d value(s) and every valuation of %d opaque condition(s)" % (len(ops), len(atoms))


def push_not(t, neg=False):
    """Negations pushed through quantifiers and connectives: ¬∃x P = ∀x ¬P, ¬∀x P = ∃x ¬P, De Morgan, ¬¬P = P; comparison atoms stay
    under a single `not` (their own dual is handled where atoms are compared)."""
    k = t[0]
    if k == "not":
        return push_not(t[1], not neg)
    if k in ("exists", "forall"):
        kk = k if not neg else ("forall" if k == "exists" else "exists")
        return (kk, t[1], t[2], push_not(t[3], neg))
    if k in ("and", "or"):
        kk = k if not neg else ("or" if k == "and" else "and")
        return (kk, push_not(t[1], neg), push_not(t[2], neg))
    if k == "const":
        return ("const", (not t[1]) if neg else t[1])
    return ("not", t) if neg else t


def equiv(t1, t2):
    return _equiv(push_not(t1), push_not(t2))


def _equiv(t1, t2):
    """Equivalence of two condition trees: matching quantifier prefixes are peeled (same kind, class and dummy), conjunctions /
    disjunctions that contain quantifiers are matched as multisets, the quantifier-free remainder propositionally."""
    if t1[0] in ("exists", "forall") and t2[0] == t1[0]:
        if t1[1] != t2[1]:
            # bound names are arbitrary: rename the second formula's dummy (dummies are unique tokens, also inside range keys)
            t2 = _rename(t2, t2[1], t1[1])
        if t1[2] != t2[2]:
            return False, "quantifier ranges differ: %s∈%s vs %s∈%s" % (t1[1], t1[2], t2[1], t2[2])
        return _equiv(t1[3], t2[3])
    for k in ("and", "or"):
        if t1[0] == k and t2[0] == k:
            a, b = flatten(t1, k), flatten(t2, k)
            if any(has_quant(x) for x in a + b) and len(a) == len(b):
                for perm in itertools.permutations(b):
                    res = [_equiv(x, y) for x, y in zip(a, perm)]
                    if all(r[0] for r in res):
                        return True, "; ".join(r[1] for r in res)
                return False, "no matching of the %d %s-parts makes them pairwise equivalent" % (len(a), k)
    try:
        return prop_equiv(t1, t2)
    except NotComparable as e:
        ok = normal_text(t1) == normal_text(t2)
        return ok, "compared as normalised text (%s)" % e


def _rename(t, old, new):
    if isinstance(t, tuple):
        return tuple(_rename(x, old, new) for x in t)
    if isinstance(t, str):
        return t.replace(old, new)
    return t


def has_quant(t):
    if t[0] in ("exists", "forall"):
        return True
    if t[0] in ("or", "and"):
        return has_quant(t[1]) or has_quant(t[2])
    if t[0] == "not":
        return has_quant(t[1])
    return False
