"""Σ-polynomial normal forms with symbolic sizes (engine E5, algebra part).

An Expr is a finite sum of Terms.  A Term is  coeff · Π atom^exp  under summation binders (each ranging over
[0, N) for a size class N) restricted by order guards between index entities.  Everything is immutable and
hashable through a canonical string.  Nothing here executes momtrop code: these are formulas over the reals.

Index entities: variable names (str) or small integer constants.
Atoms:
  ("leaf", name, idx...)        indexed input / table quantity named by role
  ("sym", name)                 positive scalar symbol
  ("fn", fname, Expr)           function application (ln, cos, sin, exp, gamma, abs, ...)
  ("pow", Expr)                 non-monomial base of a power (exponent lives in the term)
  ("call", name, arg...)        uninterpreted application; args are index entities, strings or Exprs
  ("prod", var, cls, Expr)      product over var in [0, cls)
  ("ite", cond_key, Expr, Expr) conditional value; cond_key is a canonical condition string
  ("itec", op, Expr, Expr, Expr, Expr)  conditional value on a comparison `L op R` of two formulas (binder-safe: both sides are substituted)
  ("acc", id, idx...)           accumulator placeholder (fold/loop summarisation)
"""
import itertools
from fractions import Fraction

import sympy as sp

_counter = itertools.count(1)


def fresh(prefix="b"):
    return "%s%d" % (prefix, next(_counter))


def S(x):
    if isinstance(x, sp.Basic):
        return x
    if isinstance(x, Fraction):
        return sp.Rational(x.numerator, x.denominator)
    if isinstance(x, float):
        r = sp.Rational(x).limit_denominator(10 ** 12)
        return r if float(r) == x else sp.Float(x)
    return sp.sympify(x)


def sym(name):
    return sp.Symbol(name, positive=True)


class Term:
    __slots__ = ("coeff", "atoms", "binders", "guards", "_key")

    def __init__(self, coeff, atoms=(), binders=(), guards=()):
        self.coeff = S(coeff)
        # atoms: tuple of (atom, exponent)
        d = {}
        for a, e in atoms:
            e = S(e)
            if a in d:
                d[a] = d[a] + e
            else:
                d[a] = e
        self.atoms = tuple(sorted(((a, sp.nsimplify(e) if e.is_number else sp.simplify(e)) for a, e in d.items() if sp.simplify(e) != 0),
                                  key=lambda ae: atom_key(ae[0], 7)))
        self.binders = tuple(binders)
        self.guards = frozenset(norm_guard(g) for g in guards)
        self._key = None

    def is_zero(self):
        return sp.simplify(self.coeff) == 0 or any(g == ("false",) for g in self.guards)

    def index_vars(self):
        out = set()
        for a, _e in self.atoms:
            out |= atom_vars(a)
        for g in self.guards:
            for x in g[1:]:
                if isinstance(x, str):
                    out.add(x)
        return out

    def free_vars(self):
        return self.index_vars() - set(b for b, _c in self.binders)

    def subst(self, m, drop=False):
        """Substitute index entities by entities.  A bound variable in `m` is renamed (drop=False) or eliminated (drop=True)."""
        if not m:
            return self
        atoms = tuple((atom_subst(a, m), e) for a, e in self.atoms)
        if drop:
            binders = tuple((b, cond_subst(c, m) if isinstance(c, str) else c) for b, c in self.binders if b not in m)
        else:
            binders = tuple((m.get(b, b), cond_subst(c, m) if isinstance(c, str) else c) for b, c in self.binders)
        guards = [tuple([g[0]] + [m.get(x, x) if isinstance(x, str) else x for x in g[1:]]) for g in self.guards if len(g) == 3]
        if any(g == ("false",) for g in self.guards):
            guards.append(("<", 0, 0))
        return Term(self.coeff, atoms, binders, guards)

    def drop_binder(self, name):
        return Term(self.coeff, self.atoms, tuple((b, c) for b, c in self.binders if b != name), self.guards)

    def with_guards(self, gs):
        return Term(self.coeff, self.atoms, self.binders, set(self.guards) | set(gs))

    def with_binder(self, name, cls):
        return Term(self.coeff, self.atoms, self.binders + ((name, cls),), self.guards)

    def mul(self, o):
        # rename o's binders apart
        m = {}
        mine = set(b for b, _ in self.binders) | self.index_vars()
        for b, c in o.binders:
            if b in mine:
                m[b] = fresh("r")
        o2 = o.subst(m) if m else o
        return Term(self.coeff * o2.coeff, self.atoms + o2.atoms, self.binders + o2.binders, set(self.guards) | set(o2.guards))

    def key(self, depth=0):
        if self._key is None:
            self._key = {}
        if depth not in self._key:
            self._key[depth] = term_key(self, depth)
        return self._key[depth]

    def __repr__(self):
        return self.key()


def norm_guard(g):
    """Guards: ('<', a, b), ('=', a, b), ('<=', a, b), ('!=', a, b).  Constant-fold, orient '=' and '!='."""
    if len(g) == 1:
        return g
    rel, a, b = g[0], g[1], g[2]
    if isinstance(a, int) and isinstance(b, int):
        val = {"<": a < b, "=": a == b, "<=": a <= b, "!=": a != b}[rel]
        return ("true",) if val else ("false",)
    if a == b:
        return ("true",) if rel in ("=", "<=") else ("false",)
    if rel in ("=", "!=") and str(a) > str(b):
        a, b = b, a
    return (rel, a, b)


def atom_vars(a):
    k = a[0]
    out = set()
    if k == "sym" and isinstance(a[1], str) and "«" in a[1]:
        import re as _re
        return set(_re.findall("«([^»]*)»", a[1]))
    if k in ("leaf", "acc"):
        for x in a[2:]:
            if isinstance(x, str):
                out.add(x)
    elif k == "fn":
        out |= a[2].free_vars()
    elif k == "pow":
        out |= a[1].free_vars()
    elif k == "call":
        for x in a[2:]:
            if isinstance(x, Expr):
                out |= x.free_vars()
            elif isinstance(x, tuple) and x and x[0] == "ix":
                out.add(x[1])
            elif isinstance(x, tuple):
                out |= atom_vars(x)
            elif isinstance(x, str) and "«" in x:
                import re as _re
                out |= set(_re.findall("«([^»]*)»", x))
    elif k in ("prod", "bitunion"):
        out |= a[3].free_vars() - {a[1]}
    elif k == "itec":
        for x in a[2:]:
            out |= x.free_vars()
    elif k == "ite":
        out |= a[2].free_vars() | a[3].free_vars()
        if isinstance(a[1], str) and "«" in a[1]:     # index entities inside the condition key
            import re as _re
            out |= set(_re.findall("«([^»]*)»", a[1]))
        for x in a[4:]:
            if isinstance(x, str):
                out.add(x)
    return out


def atom_subst(a, m):
    k = a[0]
    if k == "sym" and isinstance(a[1], str) and "«" in a[1]:
        return ("sym", cond_subst(a[1], m))
    if k in ("leaf", "acc"):
        return (k, a[1]) + tuple(m.get(x, x) if isinstance(x, str) else x for x in a[2:])
    if k == "fn":
        return ("fn", a[1], a[2].subst(m))
    if k == "pow":
        return ("pow", a[1].subst(m))
    if k == "call":
        out = []
        for x in a[2:]:
            if isinstance(x, Expr):
                out.append(x.subst(m))
            elif isinstance(x, tuple) and x and x[0] == "ix":
                out.append(("ix", m.get(x[1], x[1])))
            elif isinstance(x, tuple):
                out.append(atom_subst(x, m))
            elif isinstance(x, str):
                out.append(cond_subst(x, m))
            else:
                out.append(x)
        return ("call", a[1]) + tuple(out)
    if k in ("prod", "bitunion"):
        m2 = {kk: vv for kk, vv in m.items() if kk != a[1]}
        return (k, a[1], a[2], a[3].subst(m2))
    if k == "itec":
        return ("itec", a[1]) + tuple(x.subst(m) for x in a[2:])
    if k == "ite":
        return ("ite", cond_subst(a[1], m), a[2].subst(m), a[3].subst(m)) + tuple(m.get(x, x) if isinstance(x, str) else x for x in a[4:])
    return a


def cond_subst(c, m):
    # condition keys are strings with index entities delimited by «»
    out = c
    for kk, vv in m.items():
        out = out.replace("«%s»" % kk, "«%s»" % vv)
    return out


def atom_key(a, depth=0):
    k = a[0]
    if k in ("leaf", "acc"):
        return "%s[%s]" % (a[1], ",".join(str(x) for x in a[2:])) if len(a) > 2 else str(a[1])
    if k == "sym":
        return str(a[1])
    if k == "fn":
        return "%s(%s)" % (a[1], a[2].key(depth + 1))
    if k == "pow":
        return "(%s)" % a[1].key(depth + 1)
    if k == "call":
        parts = []
        for x in a[2:]:
            if isinstance(x, Expr):
                parts.append(x.key(depth + 1))
            elif isinstance(x, tuple) and x and x[0] == "ix":
                parts.append(str(x[1]))
            elif isinstance(x, tuple):
                parts.append(atom_key(x, depth))
            else:
                parts.append(str(x))
        return "%s(%s)" % (a[1], ",".join(parts))
    if k in ("prod", "bitunion"):
        # canonical dummy name
        dummy = "§%d" % depth
        body = a[3].subst({a[1]: dummy})
        return "%s[%s<%s](%s)" % ("Π" if k == "prod" else "⋃", dummy, a[2], body.key(depth + 1))
    if k == "itec":
        return "ite(%s %s %s ? %s : %s)" % (a[2].key(depth + 1), a[1], a[3].key(depth + 1), a[4].key(depth + 1), a[5].key(depth + 1))
    if k == "ite":
        return "ite(%s ? %s : %s)" % (a[1], a[2].key(depth + 1), a[3].key(depth + 1))
    return repr(a)


def _raw_term_key(t, depth=0):
    parts = [sp.srepr(sp.nsimplify(t.coeff)) if t.coeff.is_number else str(sp.simplify(t.coeff))]
    for a, e in sorted(((atom_key(a, depth), str(e)) for a, e in t.atoms)):
        parts.append("%s^%s" % (a, e))
    gs = sorted("%s%s%s" % (g[1], g[0], g[2]) if len(g) == 3 else g[0] for g in t.guards if g != ("true",))
    bs = sorted("%s<%s" % (b, c) for b, c in t.binders)
    return "Σ{%s|%s} %s" % (",".join(bs), ",".join(gs), " · ".join(parts))


def term_key(t, depth=0):
    """Canonical string: binders renamed to the lexicographically least labelling (names carry the nesting depth, so a
    bound variable of an enclosing term can never be confused with one of a nested expression)."""
    bs = [b for b, _c in t.binders]
    if not bs:
        return _raw_term_key(t, depth)
    best = None
    if len(bs) > 5:
        perms = [tuple(range(len(bs)))]
    else:
        perms = itertools.permutations(range(len(bs)))
    for perm in perms:
        m = {b: "β%d.%d" % (depth, perm[i]) for i, b in enumerate(bs)}
        k = _raw_term_key(t.subst(m), depth)
        if best is None or k < best:
            best = k
    return best


class Expr:
    __slots__ = ("terms", "_key")

    def __init__(self, terms=()):
        self.terms = tuple(t for t in terms if not t.is_zero())
        self._key = None

    # ---- constructors
    @staticmethod
    def const(c):
        return Expr([Term(c)])

    @staticmethod
    def zero():
        return Expr([])

    @staticmethod
    def atom(a, exp=1):
        return Expr([Term(1, ((a, exp),))])

    @staticmethod
    def leaf(name, *idx):
        return Expr.atom(("leaf", name) + tuple(idx))

    @staticmethod
    def symbol(name):
        return Expr.atom(("sym", name))

    # ---- algebra
    def __add__(self, o):
        return Expr(self.terms + lift(o).terms)

    def __neg__(self):
        return Expr([Term(-t.coeff, t.atoms, t.binders, t.guards) for t in self.terms])

    def __sub__(self, o):
        return self + (-lift(o))

    def __mul__(self, o):
        o = lift(o)
        return Expr([a.mul(b) for a in self.terms for b in o.terms])

    def is_monomial(self):
        return len(self.terms) == 1 and not self.terms[0].binders and not [g for g in self.terms[0].guards if g != ("true",)]

    def positive_monomial(self):
        if not self.is_monomial():
            return False
        t = self.terms[0]
        c = sp.simplify(t.coeff)
        if not (c.is_positive or (c.is_number and c > 0)):
            return False
        for a, _e in t.atoms:
            if a[0] == "sym" or (a[0] == "leaf" and a[1] in POSITIVE_LEAVES) or a[0] == "prod":
                continue
            if a[0] == "call" and a[1] in POSITIVE_CALLS:
                continue
            return False
        return True

    def powf(self, e):
        e = S(e)
        if self.positive_monomial():
            t = self.terms[0]
            return Expr([Term(sp.Pow(t.coeff, e), tuple((a, x * e) for a, x in t.atoms))])
        if not self.terms:
            return Expr.zero()
        if e.is_Integer and 1 <= int(e) <= 4:
            out = self
            for _ in range(int(e) - 1):
                out = out * self
            return out
        return Expr.atom(("pow", self), e)

    def inv(self):
        if self.is_monomial():
            t = self.terms[0]
            return Expr([Term(1 / t.coeff, tuple((a, -x) for a, x in t.atoms))])
        return Expr.atom(("pow", self), -1)

    def fn(self, name):
        return Expr.atom(("fn", name, self))

    def subst(self, m, drop=False):
        if not m:
            return self
        return Expr([t.subst(m, drop) for t in self.terms])

    def free_vars(self):
        out = set()
        for t in self.terms:
            out |= t.free_vars()
        return out

    def has_atom(self, pred):
        for t in self.terms:
            for a, _e in t.atoms:
                if pred(a) or atom_any(a, pred):
                    return True
        return False

    def sum_over(self, var, cls, guards=()):
        """Σ_{var in [0,cls)} [guards] self.  A term that does not mention var is multiplied by the extent."""
        out = []
        for t in self.terms:
            t2 = t.with_guards(guards)
            if var in t2.index_vars():
                out.append(t2.with_binder(var, cls))
            else:
                n = S(cls) if isinstance(cls, int) else sym(str(cls))
                if isinstance(cls, int):
                    out.append(Term(t2.coeff * n, t2.atoms, t2.binders, t2.guards))
                else:
                    out.append(Term(t2.coeff, t2.atoms + ((("sym", str(cls)), 1),), t2.binders, t2.guards))
        return Expr(out)

    def guarded(self, guards):
        return Expr([t.with_guards(guards) for t in self.terms])

    def simplified(self):
        return combine(self.terms)

    def key(self, depth=0):
        if self._key is None:
            self._key = {}
        if depth not in self._key:
            self._key[depth] = " + ".join(sorted(t.key(depth) for t in combine(self.terms).terms)) or "0"
        return self._key[depth]

    def __hash__(self):
        return hash(self.key())

    def __eq__(self, o):
        return isinstance(o, Expr) and self.key() == o.key()

    def __repr__(self):
        return self.key()


POSITIVE_LEAVES = {"x", "w", "kappa", "xi", "X"}
POSITIVE_CALLS = {"omega", "J", "pi"}


def atom_any(a, pred):
    k = a[0]
    subs = []
    if k == "fn":
        subs = [a[2]]
    elif k == "pow":
        subs = [a[1]]
    elif k in ("prod", "bitunion"):
        subs = [a[3]]
    elif k == "itec":
        subs = list(a[2:])
    elif k == "ite":
        subs = [a[2], a[3]]
    elif k == "call":
        subs = [x for x in a[2:] if isinstance(x, Expr)]
    return any(s.has_atom(pred) for s in subs)


def lift(x):
    if isinstance(x, Expr):
        return x
    return Expr.const(x)


def combine(terms):
    """Combine like terms (same canonical key up to coefficient)."""
    acc = {}
    rep = {}
    for t in terms:
        unit = Term(1, t.atoms, t.binders, t.guards)
        k = unit.key()
        acc[k] = acc.get(k, 0) + t.coeff
        rep[k] = unit
    out = []
    for k, c in acc.items():
        c = sp.simplify(c)
        if c != 0:
            u = rep[k]
            out.append(Term(c, u.atoms, u.binders, u.guards))
    return Expr(out)


# ---------------------------------------------------------------------------------------------------
# Order normal form: expand every term over the weak orderings of its same-class index entities.

def weak_orderings(items):
    """All ordered set partitions of `items` (list)."""
    items = list(items)
    if not items:
        yield []
        return
    first, rest = items[0], items[1:]
    for part in weak_orderings(rest):
        # insert `first` into an existing block or as a new block at any position
        for i in range(len(part)):
            yield part[:i] + [part[i] + [first]] + part[i + 1:]
        for i in range(len(part) + 1):
            yield part[:i] + [[first]] + part[i:]


def consistent(order, guards):
    pos = {}
    for i, blk in enumerate(order):
        for x in blk:
            pos[x] = i
    for g in guards:
        if len(g) != 3:
            if g == ("false",):
                return False
            continue
        rel, a, b = g
        if a not in pos or b not in pos:
            continue
        pa, pb = pos[a], pos[b]
        ok = {"<": pa < pb, "=": pa == pb, "<=": pa <= pb, "!=": pa != pb}[rel]
        if not ok:
            return False
    # integer constants keep their numeric order
    ints = [(x, p) for x, p in pos.items() if isinstance(x, int)]
    for (x, px) in ints:
        for (y, py) in ints:
            if x < y and not px < py:
                return False
    return True


def order_normal_form(expr, classes, symmetric=()):
    """Expand `expr` over weak orderings of same-class index entities (binders and free variables).  `classes` maps free
    variable names to their size class.  Returns dict canonical-key -> coefficient (sympy)."""
    out = {}
    for t0 in combine(expr.terms).terms:
        # nested expressions inside atoms are normalised by their own keys (already canonical)
        cls_of = dict(classes)
        for b, c in t0.binders:
            cls_of[b] = c
        ents = {}
        for x in t0.index_vars():
            c = cls_of.get(x)
            if c is not None:
                ents.setdefault(c, set()).add(x)
        consts = set()
        for g in t0.guards:
            for x in g[1:]:
                if isinstance(x, int):
                    consts.add(x)
        groups = []
        for c, xs in sorted(ents.items()):
            xs = sorted(xs)
            # integer constants take part in the ordering of every class whose members they are compared with
            cs = sorted(k for k in consts if any(k in g[1:] and (set(g[1:]) & set(xs)) for g in t0.guards if len(g) == 3))
            groups.append((c, xs + cs))
        expansions = [t0]
        for c, xs in groups:
            if len(xs) < 2:
                continue
            new = []
            for t in expansions:
                for order in weak_orderings(xs):
                    if not consistent(order, t.guards):
                        continue
                    new.append(apply_order(t, order, c))
            expansions = new
        for t in expansions:
            # guards not captured by an ordering (cross-class or unknown class) stay as they are
            t = canonical_symmetric(t, symmetric)
            unit = Term(1, t.atoms, t.binders, t.guards)
            k = unit.key()
            out[k] = sp.simplify(out.get(k, 0) + t.coeff)
    return {k: v for k, v in out.items() if v != 0}


def apply_order(t, order, cls):
    """Merge equal entities (binder into free var / constant, or binders together) and record the strict chain as guards."""
    bset = set(b for b, _ in t.binders)
    m = {}
    reps = []
    for blk in order:
        frees = [x for x in blk if x not in bset]
        rep = sorted(frees, key=str)[0] if frees else sorted(blk)[0]
        reps.append(rep)
        for x in blk:
            if x != rep and isinstance(x, str):
                m[x] = rep
        # two distinct free entities declared equal: keep an explicit '=' guard
    t2 = t.subst(m, drop=True)
    gs = set(g for g in t2.guards if len(g) == 3 and not (g[1] in reps and g[2] in reps))
    for blk, rep in zip(order, reps):
        for x in blk:
            if x != rep and x not in bset:
                gs.add(("=", rep, x))
    for a, b in zip(reps, reps[1:]):
        gs.add(("<", a, b))
    return Term(t2.coeff, t2.atoms, t2.binders, gs)


def canonical_symmetric(t, symmetric):
    """Sort the index arguments of symmetric two-index leaves by the strict chain recorded in the guards."""
    if not symmetric:
        return t
    less = set((g[1], g[2]) for g in t.guards if len(g) == 3 and g[0] == "<")
    # transitive closure (small)
    changed = True
    while changed:
        changed = False
        for (a, b) in list(less):
            for (c, d) in list(less):
                if b == c and (a, d) not in less:
                    less.add((a, d))
                    changed = True

    def fix(a):
        if a[0] == "leaf" and a[1] in symmetric and len(a) == 4:
            i, j = a[2], a[3]
            if (j, i) in less or ((i, j) not in less and str(j) < str(i)):
                return ("leaf", a[1], j, i)
            return a
        if a[0] == "fn":
            return ("fn", a[1], Expr([canonical_symmetric(x, symmetric) for x in a[2].terms]))
        if a[0] == "pow":
            return ("pow", Expr([canonical_symmetric(x, symmetric) for x in a[1].terms]))
        return a

    return Term(t.coeff, tuple((fix(a), e) for a, e in t.atoms), t.binders, t.guards)


def equal_modulo_order(e1, e2, classes, symmetric=()):
    """Decide e1 == e2 as formulas over the reals (for all sizes).  Returns (bool, first difference description)."""
    n1 = order_normal_form(e1, classes, symmetric)
    n2 = order_normal_form(e2, classes, symmetric)
    keys = sorted(set(n1) | set(n2))
    for k in keys:
        d = sp.simplify(n1.get(k, 0) - n2.get(k, 0))
        if d != 0:
            return False, "term %s: code has coefficient %s, reference %s" % (k, n1.get(k, 0), n2.get(k, 0))
    return True, ""


def bitop(name, a, b):
    """Commutative bit operation with canonical operand order (the interpreter builds the same)."""
    a, b = lift(a), lift(b)
    x, y = sorted((a, b), key=lambda t: t.key())
    return Expr.atom(("call", name, x, y))
