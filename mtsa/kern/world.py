"""Role-named symbolic inputs for the kernels (what the formulas in the property statements talk about)."""
from .expr import Expr, fresh, sym
from .interp import Val, Num, Arr, Struct, Tup, Opt, Cond, Opaque, Undecided, num_size, num_const


class Model(Val):
    """A value whose fields are produced on demand."""
    def __init__(self, name, fields=None, index=None, calls=None):
        self.name = name
        self._fields = fields or {}
        self._index = index
        self._calls = calls or {}

    def m_project(self, I, name):
        if name in self._fields:
            v = self._fields[name]
            return v() if callable(v) else v
        raise Undecided("field %s of %s" % (name, self.name))

    def m_call(self, I, name, args):
        if name in self._calls:
            return self._calls[name](I, args)
        return NotImplemented


def scalar_seq(name, cls):
    return Arr((cls,), lambda e, _n=name: Num(Expr.leaf(_n, e)), name=name)


def vector(name, *idx):
    return Struct("Vector", {"elements": Arr(("D",), lambda c, _n=name, _i=idx: Num(Expr.leaf(_n, *(_i + (c,)))), name=name)})


def vector_seq(name, cls):
    return Arr((cls,), lambda k, _n=name: vector(_n, k), name=name)


def matrix(name, cls="L"):
    return Arr((cls, cls), lambda r, c, _n=name: Num(Expr.leaf(_n, r, c)), name=name)


def signature():
    return Arr(("E",), lambda e: Arr(("L",), lambda l, _e=e: Num(Expr.leaf("sig", _e, l)), name="sig_row"), name="sig")


def edge_data():
    return Arr(("E",), lambda e: Tup([Opt(Cond("key", "has_mass[«%s»]" % e), Num(Expr.leaf("m", e))), vector("p", e)]), name="edge_data")


class GraphId(Val):
    """Abstract subgraph id: a term over `full`, pop(g, e)."""
    def __init__(self, term):
        self.term = term     # hashable description

    def key(self):
        return self.term


def table_entry(gkey):
    return Model("entry(%s)" % gkey, {
        "loop_number": lambda: Num(Expr.atom(("call", "loops", gkey))),
        "mass_momentum_spanning": lambda: Cond("key", "spanning(%s)" % gkey),
        "j_function": lambda: Num(Expr.atom(("call", "J", gkey))),
        "generalized_dod": lambda: Num(Expr.atom(("call", "omega", gkey))),
    })


class TableSeq(Arr):
    def __init__(self):
        Arr.__init__(self, ("2^E",), self._at, name="table")

    def _at(self, i):
        return table_entry(str(i))

    def m_last(self, which):
        return table_entry("full")


def tropical_graph():
    topo = Arr(("E",), lambda e: Model("edge", {"weight": lambda _e=e: Num(Expr.leaf("w", _e)),
                                                 "is_massive": lambda _e=e: Cond("key", "massive[«%s»]" % _e)}), name="topology")
    return Model("tropical_graph", {
        "dod": lambda: Num(Expr.symbol("dod")),
        "num_loops": lambda: num_size("L"),
        "topology": lambda: topo,
        "num_massive_edges": lambda: Num(Expr.symbol("n_massive")),
        "external_vertices": lambda: Opaque("externals"),
    })


class GraphIdVal(Model):
    """Abstract subgraph id named by a key; its methods are provided as role hooks (id_hooks), never by method name."""
    def m_subst(self, m):
        from .expr import cond_subst
        return GraphIdVal(cond_subst(self.key_, m))

    def __init__(self, key):
        self.key_ = key
        Model.__init__(self, "graph(%s)" % key, {})

    def m_project(self, I, name):
        # (mask, extent) fields
        if name == getattr(GraphIdVal, "mask_field", "id"):
            return Num(Expr.zero(), ent=self.key_)
        return num_size("E")


def id_hooks(idr, full_id_body=None):
    """Interpreter hooks giving the abstract id its methods, keyed by the bodies that play the roles."""
    GraphIdVal.mask_field = idr.get("mask_field", "id")

    def guard(fn):
        def h(I, c, a):
            if a and isinstance(a[0], GraphIdVal):
                return fn(I, a)
            return NotImplemented
        return h
    hooks = {
        idr["get_id"].path: guard(lambda I, a: Num(Expr.zero(), ent=a[0].key_)),
        idr["is_empty"].path: guard(lambda I, a: Cond("key", "empty(%s)" % a[0].key_)),
        idr["has_one_edge"].path: guard(lambda I, a: Cond("key", "one_edge(%s)" % a[0].key_)),
        idr["pop_edge"].path: guard(lambda I, a: GraphIdVal("pop(%s,«%s»)" % (a[0].key_, I.ent_of(a[1])))),
        idr["contains_edges"].path: guard(lambda I, a: Arr(("edges(%s)" % a[0].key_,), lambda k, _g=a[0].key_: Num(
            Expr.leaf("$ix", k), ent=("%s∈edges(%s)" % (k, _g)) if k in ("first", "last") else k), name="edges(%s)" % a[0].key_)),
    }
    if full_id_body is not None:
        hooks[full_id_body.path] = lambda I, c, a: GraphIdVal("full") if a and isinstance(a[0], Model) and a[0].name == "tropical_graph" else NotImplemented
    return hooks


def table():
    return Model("table", {
        "tropical_graph": tropical_graph,
        "dimension": lambda: Num(Expr.symbol("D"), size="D"),
        "cached_factor": lambda: Num(Expr.symbol("cached")),
        "table": lambda: TableSeq(),
    })


def settings():
    return Model("settings", {
        "print_debug_info": lambda: Cond("key", "print_debug_info"),
        "return_metadata": lambda: Cond("key", "return_metadata"),
        "matrix_stability_test": lambda: Opt(Cond("key", "stability_test"), Num(Expr.symbol("tol"))),
    })


def decomposition(prefix=""):
    return Struct("DecompositionResult", {
        "determinant": Num(Expr.symbol("u")),
        "inverse": matrix("Linv"),
        "q_transposed": matrix("QT"),
        "q_transposed_inverse": matrix("QTi"),
    })


from . import interp as _interp
_interp.OPAQUE_ADT_FACTORIES["TropicalSubGraphId"] = lambda name: GraphIdVal(name)
