"""Check harness: fact freshness, obligations, violations, known findings, evidence."""
import fcntl
import hashlib
import json
import os
import subprocess
import sys
import time

from .facts import Facts, loc

VERIF = os.path.dirname(os.path.dirname(os.path.abspath(__file__)))
REPO = os.environ.get("MTSA_REPO", "/repo")
CACHE = os.path.join(VERIF, ".cache")

TRUSTED_BASE = [
    "rustc nightly type checker, MIR/THIR construction and Instance resolution",
    "driver/ fact export and mtsa/ rules (exercised by fixtures/ and the mutation self-test)",
    "MomTropFloat contract: methods are pure, builders ignore the receiver's value, field axioms",
    "IEEE-754 comparison semantics (all ordered comparisons false on NaN)",
    "unwind edges ignored (a panic aborts the sample)",
    "helper-inlining normal form (mtsa/inline.py): splicing a single-call-site helper into its caller at MIR level, with known enum "
    "variants threaded past the caller's test, preserves semantics; used only when the program as written raises something",
]


def src_digest(repo, feats):
    h = hashlib.sha256()
    files = []
    for root, _d, fs in os.walk(os.path.join(repo, "src")):
        for f in fs:
            files.append(os.path.join(root, f))
    for f in ("Cargo.toml", "Cargo.lock"):
        p = os.path.join(repo, f)
        if os.path.exists(p):
            files.append(p)
    drv = os.path.join(VERIF, "driver/target/release/mtsa-driver")
    for f in sorted(files):
        h.update(f.encode())
        with open(f, "rb") as fh:
            h.update(fh.read())
    if os.path.exists(drv):
        st = os.stat(drv)
        h.update(("%d-%d" % (st.st_size, int(st.st_mtime))).encode())
    h.update(feats.encode())
    h.update(repo.encode())
    return h.hexdigest()[:20]


def ensure_facts(feats="", repo=None, tag=None):
    """Extract (or reuse, keyed by a digest of the working tree) the fact file for a feature
    configuration of the crate at `repo`."""
    repo = repo or REPO
    os.makedirs(CACHE, exist_ok=True)
    dig = src_digest(repo, feats)
    tag = tag or feats or "default"
    out = os.path.join(CACHE, "facts-%s-%s.json" % (tag, dig))
    lockp = os.path.join(CACHE, "lock-%s" % tag)
    with open(lockp, "w") as lk:
        fcntl.flock(lk, fcntl.LOCK_EX)
        if not os.path.exists(out):
            # drop older fact files of this configuration
            for f in os.listdir(CACHE):
                if f.startswith("facts-%s-" % tag):
                    try:
                        os.remove(os.path.join(CACHE, f))
                    except OSError:
                        pass
            cmd = [os.path.join(VERIF, "bin/extract"), repo, out]
            if feats:
                cmd.append(feats)
            env = dict(os.environ, MTSA_TARGET_DIR=os.path.join(CACHE, "target-%s" % tag))
            r = subprocess.run(cmd, capture_output=True, text=True, env=env)
            if r.returncode != 0 or not os.path.exists(out):
                sys.stdout.write(r.stdout)
                sys.stderr.write(r.stderr)
                raise SystemExit("mtsa: fact extraction failed for features=%r (does /repo compile?)" % feats)
        facts = Facts(out)   # read under the lock: a concurrent run on another tree may replace this configuration's file
        fcntl.flock(lk, fcntl.LOCK_UN)
    return facts


class Violation:
    def __init__(self, pid, rule, fn, construct, msg, where=None):
        self.pid, self.rule, self.fn, self.construct, self.msg, self.where = pid, rule, fn, construct, msg, where

    @property
    def key(self):
        from .vals import norm_path
        return "%s %s %s %s" % (self.pid, self.rule, norm_path(self.fn), self.construct)

    def to_json(self):
        return {"property": self.pid, "rule": self.rule, "function": self.fn, "construct": self.construct,
                "message": self.msg, "where": self.where, "key": self.key}


class Ctx:
    def __init__(self, pid, tier, seed):
        self.pid = pid
        self.tier = tier
        self.seed = seed
        self.cfg = "default"
        self.violations = []
        self.obligations = []     # dicts: rule, desc, ok, where
        self.functions = set()
        self.notes = []
        self.rules_text = {}

    def rule(self, rid, text):
        self.rules_text[rid] = text

    def fn(self, *paths):
        for p in paths:
            self.functions.add(p)

    def ob(self, rule, desc, ok, fn="?", construct=None, where=None, detail=None):
        """Record one obligation. `construct` keys the violation (no line numbers)."""
        self.obligations.append({"rule": rule, "cfg": self.cfg, "desc": desc, "ok": bool(ok), "fn": fn,
                                 "where": where})
        if not ok:
            self.violations.append(Violation(self.pid, rule, fn, construct or desc, detail or desc, where))
        return ok

    def lost(self, rule, what, fn="?"):
        """Fail closed: an anchor / role could not be resolved, so nothing was verified."""
        self.obligations.append({"rule": rule, "cfg": self.cfg, "desc": "anchor: " + what, "ok": False, "fn": fn, "where": None})
        self.violations.append(Violation(self.pid, rule, fn, "anchor-lost:" + what,
                                         "anchor-lost: %s (the code this rule is anchored in could not be located; nothing verified)" % what))

    def note(self, s):
        self.notes.append(s)


def load_known():
    p = os.path.join(VERIF, "known_findings.txt")
    known, fixed = {}, []
    if os.path.exists(p):
        for line in open(p):
            line = line.strip()
            if not line or line.startswith("#"):
                continue
            if line.startswith("finding:"):
                body = line[len("finding:"):].strip()
                # finding: key=<C06 rule fn construct> :: description
                if "::" in body:
                    k, d = body.split("::", 1)
                else:
                    k, d = body, ""
                k = k.strip()
                if k.startswith("key="):
                    k = k[4:]
                known[k.strip()] = d.strip()
            elif line.startswith("fixed:"):
                fixed.append(line)
    return known, fixed


def _engine_assumptions():
    """Assumptions the kernel interpreter made while summarising (each is logged where it is made): part of what the verdict rests on."""
    import sys
    m = sys.modules.get("mtsa.kern.interp")
    if m is None:
        return []
    return ["engine: " + a for a in m.engine_assumptions()][:40]


def finish(ctx, level, explanation, assumptions, t0, extra_cov=None):
    known, _fixed = load_known()
    real, kf = [], []
    seen = set()
    for v in ctx.violations:
        if v.key in seen:
            continue
        seen.add(v.key)
        if v.key in known:
            kf.append(v)
        else:
            real.append(v)
    # evidence committed under /verif/evidence always describes /repo itself: a run against a scratch copy (MTSA_REPO) writes next to that copy
    alt = os.environ.get("MTSA_REPO")
    if alt and os.path.realpath(alt) != os.path.realpath("/repo") and not os.environ.get("MTSA_EVIDENCE_DIR"):
        os.environ["MTSA_EVIDENCE_DIR"] = os.path.join(alt, "evidence")
    evdir = os.environ.get("MTSA_EVIDENCE_DIR") or os.path.join(VERIF, "evidence")
    repdir = os.path.join(os.path.dirname(evdir), "reports") if os.environ.get("MTSA_EVIDENCE_DIR") else os.path.join(VERIF, "reports")
    os.makedirs(evdir, exist_ok=True)
    os.makedirs(repdir, exist_ok=True)
    n_ob = len(ctx.obligations)
    n_ok = sum(1 for o in ctx.obligations if o["ok"])
    samples = []
    for o in ctx.obligations[:400]:
        samples.append({"rule": o["rule"], "cfg": o["cfg"], "fn": o["fn"], "obligation": o["desc"],
                        "holds": o["ok"], "where": o["where"]})
    distinct = len(set((o["rule"], o["cfg"], o["fn"], o["desc"]) for o in ctx.obligations))
    cov = {
        "obligations": n_ob,
        "discharged": n_ok,
        "checker_cmd": "bin/check %s --tier %s" % (ctx.pid, ctx.tier),
        "trusted_base": TRUSTED_BASE,
        "explanation": explanation,
        "evaluations": max(n_ob, 1),
        "distinct_nontrivial": distinct,
        "rule": "one evaluation = one rule instance (obligation) decided on the resolved program of /repo's current tree; "
                "distinct = distinct (rule, configuration, function, instance) tuples",
        "samples": samples,
        "functions_analysed": sorted(ctx.functions),
        "rules": ctx.rules_text,
        "notes": ctx.notes,
        "exhaustive": True,
        "known_findings_matched": [v.key for v in kf],
    }
    if extra_cov:
        cov.update(extra_cov)
    ev = {
        "property_id": ctx.pid,
        "tier": ctx.tier,
        "seed": ctx.seed,
        "level": level,
        "coverage": cov,
        "assumptions": list(assumptions) + _engine_assumptions(),
        "wall_s": round(time.time() - t0, 3),
        "violations": len(real),
    }
    with open(os.path.join(evdir, "%s.json" % ctx.pid), "w") as f:
        json.dump(ev, f, indent=1)
    lines = ["== %s tier=%s: %d obligations, %d discharged, %d functions, %.1fs" % (
        ctx.pid, ctx.tier, n_ob, n_ok, len(ctx.functions), time.time() - t0)]
    for rid, txt in ctx.rules_text.items():
        n = sum(1 for o in ctx.obligations if o["rule"] == rid)
        lines.append("  rule %-8s %3d instances  %s" % (rid, n, txt[:110]))
    for v in kf:
        lines.append("KNOWN-FINDING: property=%s %s :: %s" % (ctx.pid, v.key, known[v.key]))
    if real:
        rp = os.path.join(repdir, "%s.json" % ctx.pid)
        with open(rp, "w") as f:
            json.dump({"property": ctx.pid, "tier": ctx.tier, "violations": [v.to_json() for v in real]}, f, indent=1)
        for v in real:
            lines.append("  violation rule=%s fn=%s construct=%s at %s\n      %s" % (v.rule, v.fn, v.construct, v.where or "?", v.msg))
        lines.append("VIOLATION property=%s replay=reports/%s.json" % (ctx.pid, ctx.pid))
    try:
        sys.stdout.write("\n".join(lines) + "\n")
        sys.stdout.flush()
    except BrokenPipeError:
        # the reader closed the pipe early: the verdict is still the exit status
        try:
            sys.stdout = open(os.devnull, "w")
        except OSError:
            pass
    return 1 if real else 0
