"""Fact-file access: loading, MIR pretty-printing, CFG helpers.

The fact file is produced by driver/ (one JSON per crate configuration).  Nothing here runs
momtrop code; everything is a read of the compiler's resolved program.
"""
import json
import os


class Facts:
    def __init__(self, path):
        with open(path) as f:
            self.d = json.load(f)
        self.path = path
        self.mir = {k: Body(k, v, self) for k, v in self.d["mir"].items()}
        self.promoted = {k: Body(k, v, self) for k, v in (self.d.get("promoted") or {}).items()}
        self.thir = self.d["thir"]
        self.items = self.d["items"]
        self.types = self.d["types"]
        self.features = self.d.get("features", "")
        self.fns = {f["path"]: f for f in self.items["fns"]}
        self.adts = {a["path"]: a for a in self.items["adts"]}

    # ---- lookup helpers -------------------------------------------------------------------
    def body(self, path):
        return self.mir.get(path)

    def bodies_matching(self, pred):
        return [b for b in self.mir.values() if pred(b)]

    def closures_of(self, path):
        """All closure bodies whose typeck root is `path` (transitively nested)."""
        return [b for b in self.mir.values() if b.j.get("root") == path]

    def ty(self, s):
        return self.types.get(s)


def loc(span):
    if not span:
        return "?"
    f = span.get("file", "?")
    return "%s:%d" % (f, span.get("line", 0))


def short_file(span):
    return os.path.basename(span.get("file", "?")) if span else "?"


def place_str(p, body=None):
    s = "_%d" % p["l"]
    if body is not None:
        n = body.local_name(p["l"])
        if n:
            s = "%s/*%s*/" % (s, n)
    for e in p["p"]:
        k = e["k"]
        if k == "deref":
            s = "(*%s)" % s
        elif k == "field":
            s = "%s.%s" % (s, e["name"])
        elif k == "index":
            s = "%s[_%d]" % (s, e["l"])
        elif k == "downcast":
            s = "(%s as %s)" % (s, e["variant"])
        elif k == "constindex":
            s = "%s[%s%d]" % (s, "-" if e["from_end"] else "", e["offset"])
        else:
            s = "%s.<%s>" % (s, k)
    return s


def operand_str(o, body=None):
    k = o["k"]
    if k in ("copy", "move"):
        return "%s %s" % (k, place_str(o["place"], body))
    if k == "const":
        if "fn" in o:
            return "fn(%s)" % o["fn"]["full"]
        return "const %s" % o.get("disp", "?")
    return "<%s>" % k


def rvalue_str(rv, body=None):
    k = rv["k"]
    if k == "use":
        return operand_str(rv["op"], body)
    if k == "ref":
        return "&%s%s" % ("mut " if rv["mut"] else "", place_str(rv["place"], body))
    if k == "cast":
        return "%s as %s (%s)" % (operand_str(rv["op"], body), rv["ty"], rv["kind"])
    if k == "binop":
        return "%s(%s, %s)" % (rv["op"], operand_str(rv["a"], body), operand_str(rv["b"], body))
    if k == "unop":
        return "%s(%s)" % (rv["op"], operand_str(rv["a"], body))
    if k == "discr":
        return "discriminant(%s)" % place_str(rv["place"], body)
    if k == "aggregate":
        head = rv["agg"]
        if head == "adt":
            head = "%s::%s" % (rv["adt"], rv["variant"])
        elif head == "closure":
            head = "closure %s" % rv["closure"]
        return "%s{%s}" % (head, ", ".join(operand_str(x, body) for x in rv["ops"]))
    if k == "copyforderef":
        return "deref_copy %s" % place_str(rv["place"], body)
    if k == "repeat":
        return "[%s; %s]" % (operand_str(rv["op"], body), rv["n"])
    if k == "rawptr":
        return "&raw %s" % place_str(rv["place"], body)
    return "<%s %s>" % (k, rv.get("dbg", ""))


class Body:
    def __init__(self, key, j, facts):
        self.key = key
        self.j = j
        self.facts = facts
        self.path = j["path"]
        self.blocks = j["blocks"]
        self.locals = j["locals"]
        self.arg_count = j["arg_count"]
        self._succ = None
        self._pred = None

    def local_name(self, i):
        return self.locals[i].get("name")

    def local_ty(self, i):
        return self.locals[i]["ty"]

    def locals_named(self, name):
        return [l["i"] for l in self.locals if l.get("name") == name]

    # successors without unwind edges
    def succ(self, b, unwind=False):
        t = self.blocks[b]["term"]
        k = t["k"]
        out = []
        if k == "goto":
            out = [t["target"]]
        elif k == "switch":
            out = [x[1] for x in t["targets"]] + [t["otherwise"]]
        elif k in ("drop", "assert"):
            out = [t["target"]]
        elif k == "call":
            if t["target"] is not None:
                out = [t["target"]]
        if unwind and t.get("unwind") is not None:
            out = out + [t["unwind"]]
        # dedupe, keep order
        seen = []
        for x in out:
            if x not in seen:
                seen.append(x)
        return seen

    def succs(self):
        if self._succ is None:
            self._succ = [self.succ(i) for i in range(len(self.blocks))]
        return self._succ

    def preds(self):
        if self._pred is None:
            p = [[] for _ in self.blocks]
            for i, ss in enumerate(self.succs()):
                for s in ss:
                    p[s].append(i)
            self._pred = p
        return self._pred

    def reachable_from(self, start, avoid=frozenset(), avoid_edges=frozenset()):
        """Blocks reachable from `start` (inclusive) along non-unwind edges, not entering
        blocks in `avoid` and not crossing (src,dst) pairs in avoid_edges."""
        seen = set()
        st = [start] if start not in avoid else []
        while st:
            b = st.pop()
            if b in seen:
                continue
            seen.add(b)
            for s in self.succs()[b]:
                if s in avoid or (b, s) in avoid_edges:
                    continue
                if s not in seen:
                    st.append(s)
        return seen

    def calls(self):
        """Yield (block index, terminator) for every call terminator in non-cleanup blocks."""
        for i, b in enumerate(self.blocks):
            if b["cleanup"]:
                continue
            t = b["term"]
            if t["k"] == "call":
                yield i, t

    def return_blocks(self):
        return [i for i, b in enumerate(self.blocks) if b["term"]["k"] == "return" and not b["cleanup"]]

    def dump(self):
        out = ["fn %s  (args=%d)" % (self.key, self.arg_count)]
        for l in self.locals:
            out.append("  let _%d: %s%s" % (l["i"], l["ty"], "  // %s" % l["name"] if l.get("name") else ""))
        for b in self.blocks:
            out.append("  bb%d%s:" % (b["i"], " (cleanup)" if b["cleanup"] else ""))
            for s in b["stmts"]:
                if s["k"] == "assign":
                    out.append("    %s = %s   // %s" % (place_str(s["place"], self), rvalue_str(s["rv"], self), loc(s.get("span"))))
                else:
                    out.append("    <%s>" % s["k"])
            t = b["term"]
            k = t["k"]
            if k == "call":
                cal = t.get("callee")
                name = cal["full"] if cal else "(%s)" % operand_str(t["callee_op"], self)
                res = ""
                if cal and cal.get("resolved") and cal["resolved"] != cal["path"]:
                    res = "  [resolved: %s]" % cal["resolved"]
                out.append("    %s = %s(%s) -> bb%s%s   // %s" % (
                    place_str(t["dest"], self), name, ", ".join(operand_str(a, self) for a in t["args"]),
                    t["target"], res, loc(t.get("span"))))
            elif k == "switch":
                out.append("    switchInt(%s) -> %s, otherwise bb%d" % (
                    operand_str(t["discr"], self), ", ".join("%s: bb%d" % (v, bb) for v, bb in t["targets"]), t["otherwise"]))
            elif k == "goto":
                out.append("    goto -> bb%d" % t["target"])
            elif k == "drop":
                out.append("    drop(%s) -> bb%d" % (place_str(t["place"], self), t["target"]))
            elif k == "assert":
                out.append("    assert(%s == %s, %s) -> bb%d" % (operand_str(t["cond"], self), t["expected"], t["msg_dbg"], t["target"]))
            else:
                out.append("    %s" % k)
        return "\n".join(out)


if __name__ == "__main__":
    import sys
    f = Facts(sys.argv[1])
    if len(sys.argv) > 2:
        for k, b in f.mir.items():
            if sys.argv[2] in k:
                print(b.dump())
                print()
    else:
        for k in f.mir:
            print(k)
