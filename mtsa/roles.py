"""Role resolution: rules find their code through the public API, not by private names.

Public anchors are looked up by normalised path (generic-argument segments dropped).  Private
functions are found by their role in the call graph of a public anchor.  A role that resolves to
zero or several candidates raises RoleLost (the caller reports anchor-lost: fail closed).
"""
from .vals import Vals, norm_path
from . import pat


WANTED = []      # hints for the helper-inlining fallback: predicates over bodies that would contain a lost anchor


def want(pred):
    WANTED.append(pred)


def calls_body(R, target):
    """predicate: the body calls `target` (a Body) directly"""
    return lambda b: any(cb is target or cb.key == target.key for _bi, _t, cb in R.local_callees(b))


def builds_adt(*suffixes):
    """predicate: the body builds a value of an ADT whose path ends with one of the suffixes"""
    def pred(b):
        for blk in b.blocks:
            for st in blk["stmts"]:
                rv = st.get("rv") or {}
                if rv.get("k") == "aggregate" and rv.get("agg") == "adt" and str(rv.get("adt", "")).endswith(suffixes):
                    return True
        return False
    return pred


def writes_field(*names):
    """predicate: the body assigns a place whose projection ends in one of the field names, or builds a struct with such a field"""
    def pred(b):
        for blk in b.blocks:
            for st in blk["stmts"]:
                flds = [e.get("name") for e in st["place"]["p"] if e.get("k") == "field"]
                if flds and flds[-1] in names:
                    return True
                rv = st.get("rv") or {}
                if rv.get("k") == "aggregate" and any(n in (rv.get("fields") or []) for n in names):
                    return True
        return False
    return pred


class RoleLost(Exception):
    def __init__(self, msg, wanted=None):
        Exception.__init__(self, msg)
        if wanted is not None:
            WANTED.append(wanted)


def returns_unchanged(body, t):
    """The result of call `t` is what `body` returns: its destination is the return place, or a local that is moved there (directly or
    through one more local — the return slot of an inlined delegate) and nowhere else assigned."""
    if t["dest"]["p"]:
        return False
    holders = {t["dest"]["l"]}
    if 0 in holders:
        return True
    for _ in range(3):
        grown = False
        for blk in body.blocks:
            if blk["cleanup"]:
                continue
            for st in blk["stmts"]:
                rv = st["rv"]
                if not st["place"]["p"] and rv["k"] == "use" and rv["op"]["k"] in ("copy", "move") and not rv["op"]["place"]["p"] \
                        and rv["op"]["place"]["l"] in holders and st["place"]["l"] not in holders:
                    holders.add(st["place"]["l"])
                    grown = True
        if not grown:
            break
    if 0 not in holders:
        return False
    # the hand-over is unconditional: the call is not repeated (no loop around it) and every path from it to a return performs the move
    from . import cfg
    call_bb = None
    for blk in body.blocks:
        if blk["term"] is t:
            call_bb = blk["i"]
    if call_bb is None or any(call_bb in bl for _h, bl in cfg.loops(body)):
        return False
    movers = set()
    for blk in body.blocks:
        for st in blk["stmts"]:
            rv = st["rv"]
            if st["place"]["l"] == 0 and not st["place"]["p"] and rv["k"] == "use" and rv["op"]["k"] in ("copy", "move") and rv["op"]["place"]["l"] in holders:
                movers.add(blk["i"])
    if t.get("target") is not None:
        reach = body.reachable_from(t["target"], avoid=frozenset(movers))
        if any(body.blocks[b_]["term"]["k"] == "return" and not body.blocks[b_]["cleanup"] for b_ in reach):
            return False
    # _0 must not receive anything else
    for blk in body.blocks:
        if blk["cleanup"]:
            continue
        for st in blk["stmts"]:
            if st["place"]["l"] == 0 and not (st["rv"]["k"] == "use" and st["rv"]["op"]["k"] in ("copy", "move") and st["rv"]["op"]["place"]["l"] in holders):
                return False
        tt = blk["term"]
        if tt["k"] == "call" and tt["dest"]["l"] == 0 and tt is not t:
            return False
    return True


class Roles:
    def __init__(self, facts):
        self.f = facts
        self.by_norm = {}
        for k, b in facts.mir.items():
            self.by_norm.setdefault(norm_path(b.path), []).append(b)
        self._memo = {}

    def public(self, npath):
        bs = self.by_norm.get(npath, [])
        if len(bs) != 1:
            raise RoleLost("public anchor %s (found %d)" % (npath, len(bs)))
        return bs[0]

    def body_of_callee(self, callee):
        """Local body for a resolved callee record, or None."""
        if callee is None:
            return None
        # `x.into()` goes through std's blanket impl to a `From` impl: when that impl is in the crate, the call is a call of it
        if str(callee.get("path") or "").endswith("convert::Into::into"):
            gs = [g.get("t") for g in (callee.get("gargs") or []) if g.get("k") == "ty"]
            if len(gs) == 2:
                hits = []
                for fn in self.f.items["fns"]:
                    if fn.get("name") == "from" and str(fn.get("impl_trait") or "").startswith("core::convert::From") and fn.get("impl_self") == gs[1] \
                            and (fn.get("inputs") or [None])[0] == gs[0] and fn["path"] in self.f.mir:
                        hits.append(self.f.mir[fn["path"]])
                if len(hits) == 1:
                    return hits[0]
        for key in ("resolved", "path"):
            p = callee.get(key)
            if p and p in self.f.mir:
                return self.f.mir[p]
        # generic paths print differently at call sites (`f::<T>`); compare normalised
        for key in ("resolved", "path"):
            p = callee.get(key)
            if p:
                bs = self.by_norm.get(norm_path(p), [])
                if len(bs) == 1:
                    return bs[0]
        return None

    def local_callees(self, body):
        """[(bb, term, callee_body)] for calls to functions defined in the crate."""
        out = []
        for bi, t in body.calls():
            cb = self.body_of_callee(t.get("callee"))
            if cb is not None:
                out.append((bi, t, cb))
        return out

    def _memoize(self, name, fn):
        if name not in self._memo:
            self._memo[name] = fn()
        return self._memo[name]

    # ---- sampling side ----------------------------------------------------------------------
    def xspace_entry(self):
        return self.public("SampleGenerator::generate_sample_from_x_space_point")

    def rng_entry(self):
        return self.public("SampleGenerator::generate_sample_from_rng")

    def sample(self):
        """The callee of the x-space-point entry whose result is returned."""
        def go():
            e = self.xspace_entry()
            cur, seen = e, set()
            # follow pure delegation (`fn entry(..) { self.inner(..) }`): the sampling routine is the end of the chain of callees
            # whose result is returned unchanged
            for _ in range(4):
                cands = [(bi, t, cb) for bi, t, cb in self.local_callees(cur) if returns_unchanged(cur, t)]
                if len(cands) != 1 or cands[0][2].key in seen:
                    break
                seen.add(cur.key)
                cur = cands[0][2]
            if cur is e:
                raise RoleLost("sample: callee of generate_sample_from_x_space_point whose result is returned (found 0)")
            return cur
        return self._memoize("sample", go)

    def decompose(self):
        return self.public("matrix::SquareMatrix::decompose_for_tropical")

    def quantile(self):
        return self.public("gamma::inverse_gamma_lr")

    def build_sampler(self):
        """The function that builds the sampler: the public anchor, or — when that only delegates (`fn build_sampler(..) { Inner::make(..) }`,
        result returned unchanged, same return type) — the end of the delegation chain."""
        def go():
            cur = self.public("Graph::build_sampler")
            seen = set()
            for _ in range(3):
                cands = [(bi, t, cb) for bi, t, cb in self.local_callees(cur) if returns_unchanged(cur, t) and cb.local_ty(0) == cur.local_ty(0)]
                if len(cands) != 1 or cands[0][2].key in seen or len(list(self.local_callees(cur))) != 1:
                    break
                seen.add(cur.key)
                cur = cands[0][2]
            return cur
        return self._memoize("build_sampler", go)

    def get_dimension(self):
        return self.public("SampleGenerator::get_dimension")

    def reader_adt(self):
        """The ADT built in `sample` from the slice parameter (MimicRng): found as the self type
        of the local callee of `sample` that takes the x_space_point slice argument."""
        def go():
            s = self.sample()
            v = Vals(s)
            # slice param: the arg whose type is a reference to a slice of the scalar param
            slice_args = [l["i"] for l in s.locals[1:s.arg_count + 1]
                          if (self.f.ty(l["ty"]) or {}).get("k") == "ref"
                          and (self.f.ty(self.f.ty(l["ty"])["t"]) or {}).get("k") == "slice"
                          and (self.f.ty(self.f.ty(self.f.ty(l["ty"])["t"])["t"]) or {}).get("k") == "param"]
            if len(slice_args) != 1:
                raise RoleLost("x_space_point slice parameter of sample (found %d)" % len(slice_args))
            cands = []
            for bi, t, cb in self.local_callees(s):
                for a in t["args"]:
                    r = v.root(a)
                    if r.kind == "arg" and r.base[1] == slice_args[0] and not r.path:
                        cands.append((bi, t, cb))
            if not cands or len(set(id(c[2]) for c in cands)) != 1:
                raise RoleLost("reader constructor: callee of sample receiving the x_space_point slice (found %d)" % len(cands))
            bi, t, cb = cands[0]
            n_ctor_calls = len(cands)
            retty = s.local_ty(t["dest"]["l"])
            tt = self.f.ty(retty)
            if not tt or tt.get("k") != "adt":
                raise RoleLost("reader type is not an ADT: %s" % retty)
            return {"adt": tt["path"], "ctor": cb, "ctor_bb": bi, "slice_arg": slice_args[0], "local": t["dest"]["l"], "ctor_calls": n_ctor_calls}
        return self._memoize("reader_adt", go)

    def read_fn(self):
        """The reader's `&mut self -> &T` method (get_random_number)."""
        def go():
            r = self.reader_adt()
            cands = []
            for b in self.f.mir.values():
                fi = self.f.fns.get(b.path)
                if not fi or not fi.get("has_self"):
                    continue
                ist = fi.get("impl_self")
                tt = self.f.ty(ist) if ist else None
                if not tt or tt.get("k") != "adt" or tt["path"] != r["adt"]:
                    continue
                ins = fi.get("inputs", [])
                if not ins:
                    continue
                t0 = self.f.ty(ins[0])
                if t0 and t0.get("k") == "ref" and t0.get("mut"):
                    out = self.f.ty(fi["output"])
                    if out and out.get("k") == "ref":
                        cands.append(b)
            if len(cands) > 1:
                # the read split into stages (`get_random_number` calling a private `take_next`): the role is the outermost one — the
                # method none of the other candidates calls
                called = set()
                for b in cands:
                    for _bi, _t, cb in self.local_callees(b):
                        called.add(cb.key)
                top = [b for b in cands if b.key not in called]
                if len(top) == 1:
                    cands = top
            if len(cands) != 1:
                raise RoleLost("read method of the reader (&mut self -> &T) (found %d)" % len(cands))
            return cands[0]
        return self._memoize("read_fn", go)
