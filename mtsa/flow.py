"""E3 — explicit-flow provenance on MIR with bottom-up function summaries.

Per body, flow-insensitive: nodes are (local, field|None); sources are
  ("param", i)            value of parameter i (or of what it points to)
  ("site", body, bb)      value returned by the reader's read method at that call site (opaque source)
  ("to_f64", body, bb)    result of MomTropFloat::to_f64 at that site
  ("rng", body, bb)       result of rand::Rng::gen
  ("flag", name)          read of settings.<name>
  ("tfield", path)        read of a field path of the table parameter (table constants)
  ("hash", body, bb)      value obtained by iterating a hash container
Index dependence is deliberately not followed (which element is selected is not a data flow of the
element's value).  Constant builders of MomTropFloat do not propagate their receiver.  The reader is a
capability: values of the reader type carry no provenance.
"""
from .vals import Vals, callee_is, norm_path
from . import cfg as cfgm

BUILDERS_NOARG = ("zero", "one", "PI")
BUILDERS_VALUE = ("from_f64", "from_isize")
MAYWRITE_MARKERS = ("&mut ", "IterMut", "ChunksMut", "Drain<", "DrainFilter", "ExtractIf")
HASH_TYPES = ("HashSet<", "HashMap<", "hash::set::", "hash::map::", "hash_set::", "hash_map::")
HASH_ITER_NAMES = ("iter", "into_iter", "drain", "keys", "values", "into_keys", "into_values", "iter_mut", "values_mut",
                   "union", "difference", "intersection", "symmetric_difference", "retain", "extract_if")


class Summary:
    def __init__(self):
        self.ret = set()          # sources reaching the return value
        self.ret_fields = {}      # field -> sources (struct returns)
        self.mut = {}             # param index -> sources written through it
        self.internal = set()     # all non-param sources appearing anywhere in the body (for closures)
        self.conservative = False


class Flow:
    def __init__(self, facts, roles, reader_adt=None, read_fn=None, flags=("print_debug_info", "return_metadata"),
                 table_adt="TropicalSubgraphTable", settings_adt="TropicalSamplingSettings", follow_control=False,
                 hash_kill=frozenset(), track_hash=False, ignore_len=False):
        self.f = facts
        self.R = roles
        self.reader_adt = reader_adt
        self.read_fn = read_fn
        self.flags = flags
        self.table_adt = table_adt
        self.settings_adt = settings_adt
        self.follow_control = follow_control
        self.hash_kill = hash_kill
        self.track_hash = track_hash
        self.ignore_len = ignore_len    # the LENGTH of a slice / Vec is not the value of any of its elements
        self.summaries = {}
        self.in_progress = set()
        self.body_deps = {}   # body.key -> (deps dict, Vals)
        self.filters = set()

    # ---- type helpers -----------------------------------------------------------------------
    def is_reader_ty(self, tys):
        return self.reader_adt is not None and tys is not None and self.reader_adt in tys

    def maywrite_ty(self, tys):
        return any(m in tys for m in MAYWRITE_MARKERS)

    def is_hash_ty(self, tys):
        return any(h in tys for h in HASH_TYPES)

    def ref_to(self, tys, adt):
        t = self.f.ty(tys)
        if t and t.get("k") == "ref":
            u = self.f.ty(t["t"])
            return bool(u) and u.get("k") == "adt" and (u["path"] == adt or u["path"].endswith("::" + adt))
        return False

    # ---- main ---------------------------------------------------------------------------------
    def summary(self, body):
        k = body.key
        if k in self.summaries:
            return self.summaries[k]
        if k in self.in_progress:
            s = Summary()
            s.conservative = True
            return s
        self.in_progress.add(k)
        s = self._analyse(body)
        self.in_progress.discard(k)
        self.summaries[k] = s
        return s

    def deps_of(self, body):
        self.summary(body)
        return self.body_deps[body.key]

    def _analyse(self, body):
        f = self.f
        v = Vals(body)
        nargs = body.arg_count
        E = {}     # node -> set(node|source)
        pts = {}   # local -> set(local or ("pointee", i))
        fields_of = {}  # local -> set(field names with their own node)

        def node(l, fld=None):
            return ("n", l, fld)

        def add(dst, srcs):
            cur = E.setdefault(dst, set())
            n0 = len(cur)
            cur.update(srcs)
            return len(cur) != n0

        def addpts(l, targets):
            cur = pts.setdefault(l, set())
            n0 = len(cur)
            cur.update(targets)
            return len(cur) != n0

        # parameter nodes
        for i in range(1, nargs + 1):
            tys = body.local_ty(i)
            if self.is_reader_ty(tys):
                continue
            add(node(i), {("param", i)})
            t = f.ty(tys) or {}
            if t.get("k") in ("ref", "rawptr"):
                addpts(i, {("pointee", i)})
                add(node(("pointee", i)), {("param", i)})

        def place_nodes_read(pl):
            """Nodes read when the value at `pl` is read (index locals skipped)."""
            l = pl["l"]
            if self.is_reader_ty(body.local_ty(l)):
                return set()
            projs = pl["p"]
            out = set()
            if self.track_hash:
                # order taint: which element is visited IS the information, so index locals count
                for e in projs:
                    if e["k"] == "index":
                        out.add(node(e["l"]))
            first_field = None
            seen_deref = False
            for e in projs:
                if e["k"] == "deref":
                    seen_deref = True
                    break
                if e["k"] == "field":
                    first_field = e["name"]
                    break
                if e["k"] == "downcast":
                    continue
                break
            if first_field is not None and first_field in fields_of.get(l, ()):  # field-sensitive node
                out.add(node(l, first_field))
            else:
                out.add(node(l))
            if any(e["k"] == "deref" for e in projs):
                for y in pts.get(l, ()):  # reading through a pointer reads the pointee
                    out.add(node(y))
            # flag / table-field sources (by the type of the base of the field access)
            self._field_sources(body, pl, out)
            return out

        def operand_nodes(op):
            if op["k"] in ("copy", "move"):
                return place_nodes_read(op["place"])
            return set()

        def operand_pts(op):
            if op["k"] in ("copy", "move"):
                return set(pts.get(op["place"]["l"], ()))
            return set()

        def write_place(pl, srcs, ptsrc=frozenset()):
            l = pl["l"]
            projs = pl["p"]
            ch = False
            if projs and projs[0]["k"] == "deref":
                for y in pts.get(l, ()):
                    ch |= add(node(y), srcs)
                    if ptsrc:
                        ch |= addpts(y, ptsrc) if not isinstance(y, tuple) else False
                return ch
            fld = None
            for e in projs:
                if e["k"] == "field":
                    fld = e["name"]
                    break
                if e["k"] == "downcast":
                    continue
                break
            if fld is not None:
                fields_of.setdefault(l, set()).add(fld)
                ch |= add(node(l, fld), srcs)
            ch |= add(node(l), srcs)
            if ptsrc:
                ch |= addpts(l, ptsrc)
            return ch

        closures = {}
        # control dependence (optional)
        cd = cfgm.transitive_control_deps(body) if self.follow_control else None

        changed = True
        rounds = 0
        while changed and rounds < 60:
            changed = False
            rounds += 1
            for bi, b in enumerate(body.blocks):
                if b["cleanup"]:
                    continue
                ctrl = set()
                if cd is not None:
                    for (sb, _tgt) in cd[bi]:
                        t = body.blocks[sb]["term"]
                        if t["k"] == "switch":
                            ctrl |= operand_nodes(t["discr"])
                for s in b["stmts"]:
                    if s["k"] != "assign":
                        continue
                    rv = s["rv"]
                    k = rv["k"]
                    srcs, ps = set(ctrl), set()
                    if k in ("use", "cast", "unop", "repeat"):
                        op = rv["a"] if k == "unop" else rv["op"]
                        srcs |= operand_nodes(op)
                        ps |= operand_pts(op)
                        # whole-struct copies keep field nodes
                        if k == "use" and op["k"] in ("copy", "move") and not op["place"]["p"] and not s["place"]["p"]:
                            for fld in fields_of.get(op["place"]["l"], ()):  # copy field nodes
                                fields_of.setdefault(s["place"]["l"], set()).add(fld)
                                changed |= add(node(s["place"]["l"], fld), {node(op["place"]["l"], fld)})
                    elif k == "binop":
                        srcs |= operand_nodes(rv["a"]) | operand_nodes(rv["b"])
                    elif k in ("ref", "rawptr", "copyforderef", "discr"):
                        pl = rv["place"]
                        srcs |= place_nodes_read(pl)
                        if k in ("ref", "rawptr"):
                            if any(e["k"] == "deref" for e in pl["p"]):
                                ps |= set(pts.get(pl["l"], ()))
                            else:
                                ps.add(pl["l"])
                        else:
                            ps |= set(pts.get(pl["l"], ()))
                    elif k == "aggregate":
                        for i, op in enumerate(rv["ops"]):
                            on = operand_nodes(op)
                            srcs |= on
                            ps |= operand_pts(op)
                            if rv["agg"] == "adt" and not s["place"]["p"] and i < len(rv.get("fields", [])):
                                fld = rv["fields"][i]
                                fields_of.setdefault(s["place"]["l"], set()).add(fld)
                                changed |= add(node(s["place"]["l"], fld), on | ctrl)
                            if rv["agg"] == "tuple" and not s["place"]["p"]:
                                fld = str(i)
                                fields_of.setdefault(s["place"]["l"], set()).add(fld)
                                changed |= add(node(s["place"]["l"], fld), on | ctrl)
                        if rv["agg"] == "closure":
                            cb = self._closure_body(rv["closure"])
                            if cb is not None:
                                cs = self.summary(cb)
                                eff = set(cs.ret)
                                for _pi, ws in cs.mut.items():
                                    eff |= ws
                                srcs |= set(x for x in eff if x[0] != "param")
                                closures[s["place"]["l"]] = cb
                    changed |= write_place(s["place"], srcs, frozenset(ps))
                t = b["term"]
                if t["k"] != "call":
                    continue
                changed |= self._call(body, v, bi, t, ctrl, operand_nodes, operand_pts, write_place, add, addpts, node, pts, fields_of)

        # closure to sources
        memo = {}

        filters = self.filters
        inprog = set()

        def close(n):
            if n in memo:
                return memo[n]
            if n in inprog:
                return set()
            inprog.add(n)
            out, seen, st = set(), set(), [n]
            while st:
                x = st.pop()
                if x in seen:
                    continue
                seen.add(x)
                for y in E.get(x, ()):
                    if isinstance(y, tuple) and y and y[0] == "n":
                        if y in filters and y != n:
                            out |= set(z for z in close(y) if z[0] != "hash")
                        else:
                            st.append(y)
                    else:
                        out.add(y)
            inprog.discard(n)
            memo[n] = out
            return out

        sm = Summary()
        sm.ret = close(node(0))
        for fld in fields_of.get(0, ()):  # struct returns
            sm.ret_fields[fld] = close(node(0, fld))
        # a returned local may be a moved struct: _0 = move _k handled by field copy above
        for i in range(1, nargs + 1):
            w = close(node(("pointee", i))) - {("param", i)}
            if w:
                sm.mut[i] = w
        allsrc = set()
        for n in list(E):
            for y in E[n]:
                if not (isinstance(y, tuple) and y and y[0] == "n") and y[0] != "param":
                    allsrc.add(y)
        sm.internal = allsrc
        self.body_deps[body.key] = {"close": close, "node": node, "E": E, "pts": pts, "fields_of": fields_of, "vals": v}
        return sm

    # ---- helpers --------------------------------------------------------------------------------
    def _closure_body(self, path):
        b = self.f.mir.get(path)
        if b is not None:
            return b
        for k, bb in self.f.mir.items():
            if bb.path == path:
                return bb
        return None

    def _field_sources(self, body, pl, out):
        """Add flag / table-field sources for a place that reads through the settings / table parameter."""
        projs = pl["p"]
        names = [e for e in projs if e["k"] == "field"]
        if not names:
            return
        l = pl["l"]
        tys = body.local_ty(l)
        if self.ref_to(tys, self.settings_adt) or (self.f.ty(tys) or {}).get("path", "").endswith(self.settings_adt):
            if names[0]["name"] in self.flags:
                out.add(("flag", names[0]["name"]))
        first_of = names[0].get("of", "")
        if first_of.endswith(self.settings_adt) and names[0]["name"] in self.flags:
            out.add(("flag", names[0]["name"]))

    def _call(self, body, v, bi, t, ctrl, operand_nodes, operand_pts, write_place, add, addpts, node, pts, fields_of):
        f = self.f
        c = t.get("callee")
        args = t["args"]
        dest = t["dest"]
        changed = False
        argn = [operand_nodes(a) for a in args]
        argp = [operand_pts(a) for a in args]
        alln = set(ctrl)
        for x in argn:
            alln |= x
        allp = set()
        for x in argp:
            allp |= x
        cb = self.R.body_of_callee(c) if c else None
        # 1. the read method: opaque source
        if cb is not None and self.read_fn is not None and cb is self.read_fn:
            return write_place(dest, {("site", body.key, bi)} | ctrl)
        # 2. MomTropFloat builders / to_f64
        if c and callee_is(t, trait="MomTropFloat"):
            nm = c.get("name")
            if nm in BUILDERS_NOARG:
                return write_place(dest, set(ctrl))
            if nm in BUILDERS_VALUE:
                return write_place(dest, (argn[1] if len(argn) > 1 else set()) | ctrl)
            if nm == "to_f64":
                return write_place(dest, {("to_f64", body.key, bi)} | alln)
        # 3. rand
        if c and callee_is(t, trait="Rng", name=("gen", "gen_range", "gen_bool", "sample", "random")) or \
                (c and c.get("crate") in ("rand", "rand_core") and c.get("name") in ("next_u32", "next_u64", "fill_bytes", "gen")):
            return write_place(dest, {("rng", body.key, bi)} | ctrl)
        if self.ignore_len and c and c.get("name") in ("len", "is_empty") and c.get("crate") in ("core", "alloc", "std") and len(args) == 1:
            st_ = c.get("impl_self") or c.get("self_ty") or c.get("path") or ""
            if "[" in st_ or "Vec<" in st_ or "slice" in st_:
                return write_place(dest, set(ctrl))
        # 4. indexing: element value, not the index (except for order taint)
        if c and callee_is(t, trait=("Index", "IndexMut"), name=("index", "index_mut")):
            srcs = argn[0] | ctrl
            if self.track_hash and len(argn) > 1:
                srcs = srcs | argn[1]
            ch = write_place(dest, srcs, frozenset(argp[0]))
            return ch
        # 5. hash iteration sources (optional)
        if self.track_hash and c and args:
            recv = (c.get("impl_self") or c.get("self_ty") or "").lstrip("&").replace("mut ", "")
            is_hash_recv = recv.startswith("std::collections::hash::") or recv.startswith("hashbrown::") or recv.startswith("ahash::hash_")
            if is_hash_recv and c.get("name") in HASH_ITER_NAMES:
                return write_place(dest, {("hash", body.key, bi)} | alln, frozenset(allp))
            if is_hash_recv and c.get("name") == "fmt":
                return write_place(dest, {("hash", body.key, bi)} | alln, frozenset(allp))
            int_result = (self.f.ty(body.local_ty(dest["l"])) or {}).get("name") in ("usize", "u8", "u16", "u32", "u64", "isize", "i32", "i64", "bool")
            order_free = (is_hash_recv and c.get("name") in ("insert", "contains", "remove", "len", "is_empty", "get", "extend", "is_subset", "is_superset", "is_disjoint")) \
                or (c.get("trait", "").endswith("Iterator") and c.get("name") in ("count", "any", "all", "min", "max")) \
                or (c.get("trait", "").endswith("Iterator") and c.get("name") in ("sum", "product") and int_result)
            if order_free:
                # a set built / an exact integer reduction computed in any order is the same value: drop order taint, keep the rest
                fnode = ("n", ("filter", bi), None)
                add(fnode, alln)
                self.filters.add(fnode)
                ch = write_place(dest, {fnode}, frozenset(allp))
                for i, a in enumerate(args):
                    if a["k"] in ("copy", "move") and self.maywrite_ty(body.local_ty(a["place"]["l"])):
                        for y in argp[i]:
                            ch |= add(node(y), {fnode})
                return ch
        if self.track_hash and cb is not None and cb.key in self.hash_kill:
            # verified commutative reducer: result does not depend on the order of its input
            fnode = ("n", ("filter", bi), None)
            add(fnode, alln)
            self.filters.add(fnode)
            return write_place(dest, {fnode}, frozenset())
        # 6. local callee with a summary
        if cb is not None:
            sm = self.summary(cb)
            if not sm.conservative:
                def subst(srcs):
                    out = set(ctrl)
                    for s in srcs:
                        if s[0] == "param":
                            i = s[1] - 1
                            if i < len(argn):
                                out |= argn[i]
                        else:
                            out.add(s)
                    return out
                changed |= write_place(dest, subst(sm.ret), frozenset(allp))
                if sm.ret_fields and not dest["p"]:
                    for fld, srcs in sm.ret_fields.items():
                        fields_of.setdefault(dest["l"], set()).add(fld)
                        changed |= add(node(dest["l"], fld), subst(srcs))
                for pi, srcs in sm.mut.items():
                    i = pi - 1
                    if i < len(args):
                        for y in argp[i]:
                            changed |= add(node(y), subst(srcs))
                return changed
        # 7. unknown / abstract callee: conservative
        changed |= write_place(dest, alln, frozenset(allp))
        for i, a in enumerate(args):
            if a["k"] not in ("copy", "move"):
                continue
            tys = body.local_ty(a["place"]["l"])
            if self.is_reader_ty(tys):
                continue
            if self.maywrite_ty(tys):
                for y in argp[i]:
                    if isinstance(y, tuple) or not self.is_reader_ty(body.local_ty(y)):
                        changed |= add(node(y), alln)
        return changed


def fmt_source(s):
    if s[0] == "site":
        return "site(%s@bb%d)" % (norm_path(s[1]), s[2])
    if s[0] in ("to_f64", "rng", "hash"):
        return "%s(%s@bb%d)" % (s[0], norm_path(s[1]), s[2])
    return "%s(%s)" % (s[0], ",".join(str(x) for x in s[1:]))
