"""Small MIR pattern helpers shared by the rules."""
from .facts import loc
from .vals import Vals, callee_is, norm_path, bool_edges

RESULT = ("core::result::Result", "std::result::Result")
OPTION = ("core::option::Option", "std::option::Option")


def stmts(body, kind="assign"):
    for bi, b in enumerate(body.blocks):
        if b["cleanup"]:
            continue
        for si, s in enumerate(b["stmts"]):
            if s["k"] == kind:
                yield bi, si, s


def aggregates(body, adt=None, variant=None):
    """Yield (bb, idx, stmt) of aggregate assignments building `adt` (path or tuple of paths)."""
    for bi, si, s in stmts(body):
        rv = s["rv"]
        if rv["k"] != "aggregate" or rv["agg"] != "adt":
            continue
        if adt is not None:
            names = adt if isinstance(adt, (tuple, list)) else (adt,)
            if not any(rv["adt"] == n or rv["adt"].endswith("::" + n) for n in names):
                continue
        if variant is not None and rv["variant"] != variant:
            continue
        yield bi, si, s


def result_ctor_sites(body, variant):
    """Blocks where the function's return place receives Result::<variant>{..} (directly or via
    one temporary)."""
    v = Vals(body)
    out = []
    for bi, si, s in aggregates(body, RESULT, variant):
        dl = s["place"]["l"]
        if s["place"]["p"]:
            continue
        if dl == 0:
            out.append((bi, si, s))
            continue
        # moved to _0 ?  (through plain moves; for Err also through `?`: Try::branch on the value, from_residual into _0)
        holders = {dl}
        for _ in range(6):
            grown = False
            for bj, sj, s2 in stmts(body):
                if not s2["place"]["p"] and s2["rv"]["k"] == "use":
                    op = s2["rv"]["op"]
                    if op["k"] in ("copy", "move") and op["place"]["l"] in holders and not op["place"]["p"] and s2["place"]["l"] not in holders:
                        holders.add(s2["place"]["l"])
                        grown = True
            if not grown:
                break
        if 0 in holders:
            out.append((bi, si, s))
            continue
        if variant == "Err":
            branched = any(t["k"] == "call" and (t.get("callee") or {}).get("name") == "branch" and str((t.get("callee") or {}).get("trait") or "").endswith("Try")
                           and t["args"] and t["args"][0]["k"] in ("copy", "move") and t["args"][0]["place"]["l"] in holders and not t["args"][0]["place"]["p"]
                           for _b, t in body.calls())
            residual = any((t.get("callee") or {}).get("name") == "from_residual" and t["dest"]["l"] == 0 and not t["dest"]["p"] for _b, t in body.calls())
            if branched and residual:
                out.append((bi, si, s))
    return out


def calls(body, **kw):
    for bi, t in body.calls():
        if callee_is(t, **kw):
            yield bi, t


def calls_to_path(body, path):
    for bi, t in body.calls():
        c = t.get("callee")
        if c and norm_path(c["path"]) == path:
            yield bi, t


def is_panic_call(t):
    """Diverging call (no return target): panic_fmt, panic, unreachable!(), expect_failed, ..."""
    return t["k"] == "call" and t["target"] is None


def panic_blocks(body):
    return [bi for bi, b in enumerate(body.blocks) if not b["cleanup"] and is_panic_call(b["term"])]


def where(t_or_s):
    return loc(t_or_s.get("span"))


def discr_switches(body, v=None):
    """Yield (bb, place_root, raw place, targets) for `switchInt(discriminant(P))`."""
    v = v or Vals(body)
    for bi, b in enumerate(body.blocks):
        if b["cleanup"]:
            continue
        t = b["term"]
        if t["k"] != "switch":
            continue
        c = v.classify_bool(t["discr"])
        if c and c[0] == "discr":
            yield bi, c[1], c[2], t


def place_has_field(place, name):
    return any(e["k"] == "field" and e["name"] == name for e in place["p"])
