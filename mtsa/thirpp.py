"""Pretty-printer for exported THIR (debug aid)."""
import sys, json

def pp(e, ind=0):
    p = "  " * ind
    if not isinstance(e, dict):
        return p + repr(e)
    k = e.get("k")
    def sub(x): return pp(x, ind + 1)
    if k == "block":
        out = [p + "{"]
        for s in e["stmts"]:
            if s["k"] == "let":
                out.append(p + "  let %s =" % ppat(s["pat"]))
                if "init" in s: out.append(pp(s["init"], ind + 2))
            else:
                out.append(pp(s["e"], ind + 1))
        if "tail" in e: out.append(p + "  =>"); out.append(pp(e["tail"], ind + 2))
        out.append(p + "}")
        return "\n".join(out)
    if k == "call":
        c = e.get("callee")
        name = c["full"] if c else "<dyn>"
        out = [p + "call %s :: %s" % (name, e["ty"])]
        if not c: out.append(pp(e["fun"], ind + 1))
        for a in e["args"]: out.append(sub(a))
        return "\n".join(out)
    if k in ("var", "upvar"):
        return p + "%s %s#%s : %s" % (k, e["var"]["name"], e["var"]["id"], e["ty"])
    if k == "lit":
        return p + "lit %s%s : %s" % ("-" if e.get("neg") else "", e["lit"], e["ty"])
    if k in ("borrow", "deref", "cast", "use", "never_to_any", "ptr_coercion", "unary", "return", "break", "loop"):
        out = [p + k + (" " + e.get("op", "") if k == "unary" else "") + (" mut" if e.get("mut") else "") + " : " + e["ty"]]
        for key in ("e", "body"):
            if key in e: out.append(sub(e[key]))
        return "\n".join(out)
    if k in ("binary", "assign", "assignop", "logical"):
        return "\n".join([p + "%s %s : %s" % (k, e.get("op", ""), e["ty"]), sub(e["l"]), sub(e["r"])])
    if k == "field":
        return "\n".join([p + "field .%s : %s" % (e["name"], e["ty"]), sub(e["e"])])
    if k == "index":
        return "\n".join([p + "index : %s" % e["ty"], sub(e["e"]), sub(e["i"])])
    if k == "if":
        out = [p + "if", sub(e["cond"]), p + "then", sub(e["then"])]
        if "else" in e: out += [p + "else", sub(e["else"])]
        return "\n".join(out)
    if k == "match":
        out = [p + "match (%s)" % e["source"], sub(e["scrut"])]
        for a in e["arms"]:
            out.append(p + "  arm %s%s" % (ppat(a["pat"]), " if .." if "guard" in a else ""))
            out.append(pp(a["body"], ind + 2))
        return "\n".join(out)
    if k == "closure":
        return p + "closure %s upvars=%d" % (e["closure"], len(e["upvars"]))
    if k in ("tuple", "array"):
        return "\n".join([p + k + " : " + e["ty"]] + [sub(x) for x in e["es"]])
    if k == "adt":
        out = [p + "adt %s::%s" % (e["adt"], e["variant"])]
        for f in e["fields"]:
            out.append(p + "  .%s =" % f["name"]); out.append(pp(f["e"], ind + 2))
        return "\n".join(out)
    if k == "let":
        return "\n".join([p + "let-expr %s" % ppat(e["pat"]), sub(e["e"])])
    if k == "zst":
        return p + "zst %s" % (e["fn"]["full"] if "fn" in e else e["ty"])
    return p + "%s %s" % (k, {kk: vv for kk, vv in e.items() if kk not in ("span", "k")} if k in ("other", "named_const", "const_param", "repeat", "continue") else e.get("ty", ""))

def ppat(p):
    k = p["k"]
    if k == "bind":
        return "%s#%s%s" % (p["name"], p["var"]["id"], ("@" + ppat(p["sub"])) if "sub" in p else "")
    if k in ("leaf", "variant"):
        head = p.get("variant", "")
        return head + "(" + ", ".join("%s:%s" % (s["name"], ppat(s["pat"])) for s in p["subs"]) + ")"
    if k == "deref": return "&" + ppat(p["sub"])
    if k == "wild": return "_"
    return k

if __name__ == "__main__":
    d = json.load(open(sys.argv[1]))
    for k, b in d["thir"].items():
        if sys.argv[2] in k:
            print("== %s" % k)
            for pr in b["params"]:
                print("  param %s : %s" % (ppat(pr["pat"]) if "pat" in pr else "?", pr["ty"]))
            print(pp(b["body"], 1))
