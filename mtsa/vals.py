"""Value identity on MIR: def sites, roots through copies / refs / clones, callee predicates."""
import re

IDENTITY_CALLEES = {
    # (trait path, method) whose result denotes the same value as argument 0
    ("core::clone::Clone", "clone"),
    ("std::clone::Clone", "clone"),
    ("core::ops::Deref", "deref"),
    ("std::ops::Deref", "deref"),
    ("core::ops::DerefMut", "deref_mut"),
    ("std::ops::DerefMut", "deref_mut"),
    ("core::borrow::Borrow", "borrow"),
    ("std::borrow::Borrow", "borrow"),
    ("core::convert::AsRef", "as_ref"),
    ("std::convert::AsRef", "as_ref"),
}

IDENTITY_SHORT = {("Clone", "clone"), ("Deref", "deref"), ("DerefMut", "deref_mut"), ("Borrow", "borrow"), ("BorrowMut", "borrow_mut"),
                  ("AsRef", "as_ref"), ("AsMut", "as_mut")}

PTR_CASTS = ("PointerCoercion", "PtrToPtr", "Subtype", "Transmute")


def norm_path(p):
    """Drop generic-argument segments: `A::<T>::f` -> `A::f`, `<X<T> as Tr>::m` kept."""
    out = []
    depth = 0
    i = 0
    # remove ::<...> segments only (turbofish style), keep leading <.. as ..>
    while i < len(p):
        if p.startswith("::<", i):
            # skip balanced <...>
            j = i + 3
            d = 1
            while j < len(p) and d > 0:
                if p[j] == "<":
                    d += 1
                elif p[j] == ">":
                    d -= 1
                j += 1
            i = j
            continue
        out.append(p[i])
        i += 1
    return "".join(out)


def callee_of(term):
    return term.get("callee")


def callee_is(term, trait=None, name=None, path=None, path_re=None):
    c = term.get("callee")
    if not c:
        return False
    if trait is not None:
        t = c.get("trait") or c.get("impl_trait")
        if t is None:
            return False
        if isinstance(trait, (tuple, list, set)):
            if not any(t == x or t.endswith("::" + x) for x in trait):
                return False
        elif not (t == trait or t.endswith("::" + trait)):
            return False
    if name is not None:
        n = c.get("name")
        if isinstance(name, (tuple, list, set)):
            if n not in name:
                return False
        elif n != name:
            return False
    if path is not None and norm_path(c["path"]) != path:
        return False
    if path_re is not None and not re.search(path_re, c["path"]):
        return False
    return True


class Root:
    __slots__ = ("base", "path")

    def __init__(self, base, path=()):
        self.base = base
        self.path = tuple(path)

    def __eq__(self, o):
        return isinstance(o, Root) and self.base == o.base and self.path == o.path

    def __hash__(self):
        return hash((self.base, self.path))

    def __repr__(self):
        s = "%s%s" % (self.base[0], "" if len(self.base) < 2 else "(%s)" % (self.base[1],))
        for p in self.path:
            s += "." + str(p)
        return s

    def with_path(self, extra):
        return Root(self.base, self.path + tuple(extra))

    @property
    def kind(self):
        return self.base[0]


class Vals:
    def __init__(self, body):
        self.body = body
        self.defs = {}       # local -> list of ("stmt", bb, idx, rv) | ("call", bb, term)
        self.partial = {}    # local -> list of (bb, idx or None)
        self.mut_borrowed = set()
        self._index()
        self._memo = {}

    def _index(self):
        for bi, b in enumerate(self.body.blocks):
            for si, s in enumerate(b["stmts"]):
                if s["k"] == "assign":
                    pl = s["place"]
                    if pl["p"]:
                        self.partial.setdefault(pl["l"], []).append((bi, si))
                    else:
                        self.defs.setdefault(pl["l"], []).append(("stmt", bi, si, s["rv"]))
                    rv = s["rv"]
                    # a reborrow `&mut (*p)` does not make the pointer local itself mutable state
                    reborrow = any(e["k"] == "deref" for e in rv.get("place", {}).get("p", []))
                    if rv["k"] == "ref" and rv["mut"] and not reborrow:
                        self.mut_borrowed.add(rv["place"]["l"])
                    if rv["k"] == "rawptr" and not reborrow:
                        self.mut_borrowed.add(rv["place"]["l"])
                elif s["k"] == "setdiscr":
                    self.partial.setdefault(s["place"]["l"], []).append((bi, si))
            t = b["term"]
            if t["k"] == "call":
                pl = t["dest"]
                if pl["p"]:
                    self.partial.setdefault(pl["l"], []).append((bi, None))
                else:
                    self.defs.setdefault(pl["l"], []).append(("call", bi, t))

    def is_arg(self, l):
        return 1 <= l <= self.body.arg_count

    def single_def(self, l):
        if self.is_arg(l):
            return None
        d = self.defs.get(l, [])
        # ignore defs in cleanup blocks
        d = [x for x in d if not self.body.blocks[x[1]]["cleanup"]]
        if len(d) == 1 and not self.partial.get(l):
            return d[0]
        return None

    @staticmethod
    def _proj_path(projs):
        out = []
        for e in projs:
            k = e["k"]
            if k == "deref":
                continue
            if k == "field":
                out.append(e["name"])
            elif k == "downcast":
                out.append("as:" + e["variant"])
            elif k == "index":
                out.append(("idx", e["l"]))
            elif k == "constindex":
                out.append(("cidx", e["offset"], e["from_end"]))
            else:
                out.append("?" + k)
        return out

    def root_place(self, place, depth=0):
        if place["p"] and depth < 40:
            p2 = self.through_aggregate(place)
            if p2 is not place:
                return self.root_place(p2, depth + 1)
        l = place["l"]
        path = self._proj_path(place["p"])
        return self._root_local(l, depth).with_path(path)

    def root(self, operand, depth=0):
        k = operand["k"]
        if k in ("copy", "move"):
            return self.root_place(operand["place"], depth)
        if k == "const":
            if "fn" in operand:
                return Root(("fnconst", operand["fn"]["path"]))
            return Root(("const", operand.get("bits", operand.get("disp")), operand.get("ty")))
        return Root(("unknown", k))

    def _root_local(self, l, depth=0):
        if l in self._memo:
            return self._memo[l]
        if depth > 60:
            return Root(("local", l))
        r = self._root_local_uncached(l, depth)
        self._memo[l] = r
        return r

    def _root_local_uncached(self, l, depth):
        if self.is_arg(l):
            return Root(("arg", l))
        if l in self.mut_borrowed:
            return Root(("local", l))
        d = self.single_def(l)
        if d is None:
            return Root(("local", l))
        if d[0] == "stmt":
            rv = d[3]
            k = rv["k"]
            if k == "use":
                return self.root(rv["op"], depth + 1) if rv["op"]["k"] != "const" else self.root(rv["op"])
            if k in ("ref", "copyforderef", "rawptr"):
                return self.root_place(rv["place"], depth + 1)
            if k == "cast" and any(rv["kind"].startswith(x) for x in PTR_CASTS):
                return self.root(rv["op"], depth + 1)
            return Root(("local", l))
        else:
            t = d[2]
            c = t.get("callee")
            if c:
                tr = (c.get("trait") or "").split("::")[-1]
                if (tr, c.get("name")) in IDENTITY_SHORT and t["args"]:
                    return self.root(t["args"][0], depth + 1)
                # views of a container are the container: Vec::as_slice / as_mut_slice, <[T]>::as_ref …
                if not c.get("trait") and c.get("name") in ("as_slice", "as_mut_slice") and t["args"] \
                        and str(c.get("path") or "").startswith(("alloc::vec::Vec", "smallvec::SmallVec", "core::slice", "core::array")):
                    return self.root(t["args"][0], depth + 1)
            return Root(("call", d[1]))

    def describe(self, root):
        """Human-readable description of a root for reports."""
        from .facts import loc
        base = root.base
        if base[0] == "local":
            n = self.body.local_name(base[1])
            s_ = "`%s`" % n if n else "_%d" % base[1]
        elif base[0] == "arg":
            n = self.body.local_name(base[1])
            s_ = "parameter `%s`" % (n or base[1])
        elif base[0] == "call":
            t = self.body.blocks[base[1]]["term"]
            c = t.get("callee") or {}
            dn = self.body.local_name(t["dest"]["l"])
            s_ = ("`%s` = " % dn if dn else "") + "%s(..) at %s" % (c.get("name") or c.get("path", "call"), loc(t.get("span")))
        elif base[0] == "const":
            s_ = "constant %s" % (base[1],)
        else:
            s_ = str(base)
        for p_ in root.path:
            s_ += "." + (p_ if isinstance(p_, str) else str(p_))
        return s_

    # ---- convenience ----------------------------------------------------------------------
    def def_rvalue(self, l):
        """If local l is defined by exactly one statement, return its rvalue."""
        d = self.single_def(l)
        if d and d[0] == "stmt":
            return d[3]
        return None

    def call_term(self, root):
        """Terminator of the call that `root` is the (whole) result of, else None."""
        if root.kind == "call" and not root.path:
            return self.body.blocks[root.base[1]]["term"]
        return None

    def rvalue_of(self, root):
        """For a Root(('local', l)) with a single defining statement, its rvalue."""
        if root.kind == "local" and not root.path:
            return self.def_rvalue(root.base[1])
        return None

    def aggregate_field(self, root):
        """If root is local.l.field and l is built by a single aggregate, the operand."""
        if root.kind == "local" and root.path:
            rv = self.def_rvalue(root.base[1])
            if rv and rv["k"] == "aggregate" and "fields" in rv:
                f = root.path[0]
                if f in rv["fields"]:
                    return rv["ops"][rv["fields"].index(f)], root.path[1:]
            if rv and rv["k"] == "aggregate" and rv["agg"] == "tuple":
                try:
                    i = int(root.path[0])
                    return rv["ops"][i], root.path[1:]
                except (ValueError, IndexError):
                    pass
        return None

    def deep_root(self, operand):
        """root(), additionally looking through single-def aggregates when a field is projected."""
        r = self.root(operand)
        for _ in range(20):
            af = self.aggregate_field(r)
            if af is None:
                return r
            op, rest = af
            r = self.root(op).with_path(rest)
        return r

    def switch_bool_source(self, bb):
        """For a switch terminator at bb on a bool/int local, return (kind, info):
        ('call', term) if the discriminant is the result of a call;
        ('binop', rv) if result of a comparison rvalue;
        ('discr', place_root) if discriminant(place);
        ('not', inner) for logical not; else ('other', root)."""
        t = self.body.blocks[bb]["term"]
        if t["k"] != "switch":
            return None
        return self.classify_bool(t["discr"])

    def through_aggregate(self, place):
        """A place `t.i…` where t is built once as a tuple / struct aggregate denotes the operand moved into that field: returns the
        underlying place when that operand is itself a place, else the place unchanged."""
        for _ in range(6):
            flds = [e for e in place["p"] if e["k"] != "deref"]
            if len(flds) >= 2 and flds[0]["k"] == "downcast" and flds[1]["k"] == "field":
                # `(x as V).i`: only a definition that builds variant V can be read here; if exactly one such definition feeds x
                # (directly or through plain moves), the projection denotes the operand it was built from
                op = self._variant_operand(place["l"], flds[0]["variant"], flds[1]["name"], set())
                if op is None or op["k"] not in ("copy", "move"):
                    return place
                rest = place["p"][place["p"].index(flds[1]) + 1:]
                place = {"l": op["place"]["l"], "p": list(op["place"]["p"]) + rest}
                continue
            if not flds or flds[0]["k"] != "field":
                return place
            rv = self.def_rvalue(place["l"])
            if not rv or rv["k"] != "aggregate":
                return place
            name = flds[0]["name"]
            op = None
            if "fields" in rv and name in (rv.get("fields") or []):
                op = rv["ops"][rv["fields"].index(name)]
            elif rv.get("agg") == "tuple":
                try:
                    op = rv["ops"][int(name)]
                except (ValueError, IndexError):
                    op = None
            if op is None or op["k"] not in ("copy", "move"):
                return place
            rest = place["p"][place["p"].index(flds[0]) + 1:]
            place = {"l": op["place"]["l"], "p": list(op["place"]["p"]) + rest}
        return place

    def _variant_operand(self, l, variant, field, seen):
        """The operand stored in field `field` of variant `variant` of local l, when exactly one definition of l (looking through
        plain moves between locals) builds that variant; None otherwise."""
        if l in seen or self.is_arg(l) or len(seen) > 8:
            return None
        seen.add(l)
        hits = []
        for d in self.defs.get(l, []):
            if self.body.blocks[d[1]]["cleanup"]:
                continue
            if d[0] != "stmt":
                return None          # a call result: not an aggregate we can look into
            rv = d[3]
            if rv["k"] == "aggregate" and rv.get("agg") == "adt":
                if rv.get("variant") == variant:
                    try:
                        hits.append(rv["ops"][int(field)] if not rv.get("fields") else rv["ops"][rv["fields"].index(field)])
                    except (ValueError, IndexError):
                        return None
            elif rv["k"] == "use" and rv["op"]["k"] in ("copy", "move") and not rv["op"]["place"]["p"]:
                op = self._variant_operand(rv["op"]["place"]["l"], variant, field, seen)
                if op is not None:
                    hits.append(op)
            else:
                return None
        if self.partial.get(l):
            return None
        return hits[0] if len(hits) == 1 else None

    def classify_bool(self, operand, depth=0):
        if operand["k"] in ("copy", "move"):
            operand = dict(operand, place=self.through_aggregate(operand["place"]))
        r = self.root(operand)
        ct = self.call_term(r)
        if ct is not None:
            return ("call", ct, r.base[1])
        if r.kind == "local" and not r.path:
            rv = self.def_rvalue(r.base[1])
            if rv is not None:
                if rv["k"] == "binop":
                    return ("binop", rv)
                if rv["k"] == "discr":
                    pl = self.through_aggregate(rv["place"])
                    return ("discr", self.root_place(pl), pl)
                if rv["k"] == "unop" and rv["op"] == "Not" and depth < 5:
                    return ("not", self.classify_bool(rv["a"], depth + 1))
        return ("other", r)


def switch_edges(body, bb):
    """For a switch at bb: dict value(str)->target and 'otherwise'."""
    t = body.blocks[bb]["term"]
    m = {v: tgt for v, tgt in t["targets"]}
    return m, t["otherwise"]


def bool_edges(body, bb):
    """(true_target, false_target) for a switch on a bool (targets: 0 -> false, otherwise true)."""
    t = body.blocks[bb]["term"]
    m = {v: tgt for v, tgt in t["targets"]}
    if "0" in m:
        return t["otherwise"], m["0"]
    if "1" in m:
        return m["1"], t["otherwise"]
    return None, None
