"""What each claimed check decides (level, explanation, assumptions)."""

CLAIMS = {
    "C16": {
        "level": "proof",
        "explanation": "Structural proof over the CFG of decompose_for_tropical and sample (all paths, all T, all sizes): "
                       "(a) the ZeroDet guard tests the very value returned as determinant and its zero edge can only return Err(ZeroDet); "
                       "(b) with Some(tol) Ok is reachable only over the TRUE edge of an ordered comparison error<=tol (NaN compares false), "
                       "error = L21(inverse*self - I) with `inverse` the returned field and tol the Some payload; "
                       "(c) Err of the decomposition never reaches Ok in sample, settings are the caller's. Each rule instance is an obligation.",
        "assumptions": ["PartialOrd/PartialEq of the user's T follow IEEE semantics on NaN", "NaN propagates through +,*,sqrt of T"],
    },
    "C12": {
        "level": "other",
        "explanation": "Decides the structural clauses of C12 on the resolved program: (a) abstract interpretation of the IEEE class "
                       "{nan,-inf,neg,zero,pos,+inf} of the f64 result along every CFG path of inverse_gamma_lr shows Ok(v) is reachable only "
                       "with class pos (finite, >0, not NaN) — 'failures are errors, not values'; (b) the shape argument in sample is the "
                       "table's dod, the probability one hypercube read, and the Ok payload is the lambda used by the momentum map and "
                       "reported in metadata; (c) Err never reaches an Ok sample. NOT decided: the 2e-8 accuracy, monotonicity and "
                       "panic-freedom inside statrs (value-level).",
        "assumptions": ["f64 comparison/is_finite/is_nan semantics per IEEE-754", "from_f64 of the user's T preserves sign/finite-ness"],
    },
    "C06": {
        "level": "other",
        "explanation": "Decides the structural clauses of C06 for every table, subgraph and scalar type: (a) TOTALITY — on the CFG of the "
                       "cumulative scan, from the loop-exhaustion edge no panic is reachable except behind the failing edge of a `uniform < one()` "
                       "range check or evidence of zero iterations, so no u in [0,1) can fall through to the panic whatever the rounding of the "
                       "running sum; (b) the scan enumerates the subgraph's edges ascending, returns on the TRUE edge of cum_sum >= uniform and "
                       "returns (edge, subgraph without that edge); (c) the single-edge shortcut reads no coordinate and removes the sole edge, "
                       "the multi-edge branch reads exactly one. NOT decided: that the J-ratios are the tropical edge distribution (C03/C04), "
                       "index-bounds panics.",
        "assumptions": ["PartialOrd of T is a total order on non-NaN values", "table[g] index panics are out of scope (value-level)"],
    },
}

NOT_APPLICABLE = {
    "C01": "integral identity over the whole hypercube (change-of-variables theorem about the composition of all stages): no clause is visible "
           "in code shape beyond the code-vs-formula clauses owned by C04/C08-C11/C13; a numeric test would not be static analysis",
    "C02": "two-sided inequalities between polynomial VALUES at every parameter point (spanning-tree counts, coefficients of F): a theorem "
           "about runtime values, nothing structural implies it; the bookkeeping that feeds it is decided under C07/C11",
}

TECHNIQUE = {
    "C16": "static analysis: MIR CFG must-pass-edge / never-reaches rules with value-root identity and NaN-polarity of ordered comparisons",
    "C12": "static analysis: abstract interpretation of IEEE value classes over the MIR CFG + argument provenance (value roots) + error-discipline rule",
    "C06": "static analysis: MIR CFG reachability from the loop-exhaustion edge to panics modulo justified guard edges; control dependence of the return",
}
DESIGN_REF = {}
