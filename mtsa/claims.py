"""What each claimed check decides (level, explanation, assumptions)."""

CLAIMS = {
    "C16": {
        "level": "proof",
        "explanation": "Structural proof over the CFG of decompose_for_tropical and sample (all paths, all T, all sizes): "
                       "(a) the ZeroDet guard tests the very value returned as determinant and its zero edge can only return Err(ZeroDet); "
                       "(b) with Some(tol) Ok is reachable only over the TRUE edge of an ordered comparison error<=tol (NaN compares false), "
                       "error = L21(inverse*self - I) with `inverse` the returned field and tol the Some payload; "
                       "(c) Err of the decomposition never reaches Ok in sample, settings are the caller's. Each rule instance is an obligation.",
        "assumptions": ["PartialOrd/PartialEq of the user's T follow IEEE semantics on NaN", "NaN propagates through +,*,sqrt of T"],
    },
}
