#!/usr/bin/env python3
"""Run every registered quick check on every stored behaviour-preserving refactoring and record which checks alarm
(neutral/RESULTS.json; the thorough tier requires silence wherever this file records silence)."""
import json, os, subprocess, sys
from concurrent.futures import ThreadPoolExecutor
V = os.path.dirname(os.path.dirname(os.path.abspath(__file__)))
sys.path.insert(0, V)
sys.path.insert(0, os.path.join(V, "tools"))
import run_patch
from mtsa.claims import CLAIMS
names = sorted(d for d in os.listdir(os.path.join(V, "neutral")) if os.path.isdir(os.path.join(V, "neutral", d)) and (not sys.argv[1:] or any(a in d for a in sys.argv[1:])))
rp = os.path.join(V, "neutral", "RESULTS.json")
res = json.load(open(rp)) if os.path.exists(rp) else {}
def one(n):
    out = run_patch.run(os.path.join(V, "neutral", n, "patch.diff"), sorted(CLAIMS), j=4)
    print(n, sorted(out))
    return n, out
with ThreadPoolExecutor(int(os.environ.get("MTSA_NEUTRAL_JOBS", "4"))) as ex:
    for n, out in ex.map(one, names):
        res[n] = {"alarms": sorted(k for k in out if k != "error"), "first": {k: v[:2] for k, v in out.items()}}
json.dump(res, open(rp, "w"), indent=1, sort_keys=True)
print("%d refactorings, %d silent in all checks" % (len(res), sum(1 for v in res.values() if not v["alarms"])))
