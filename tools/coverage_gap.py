#!/usr/bin/env python3
"""For each property: crate-local functions reachable (call graph, closures included) from the functions its anchors name, minus the
functions its check reports as analysed (evidence/<id>.json) — candidates for a restated clause.  Informational."""
import json, os, re, sys
V = os.path.dirname(os.path.dirname(os.path.abspath(__file__)))
sys.path.insert(0, V)
from mtsa import core
from mtsa.roles import Roles
from mtsa.vals import norm_path
f = core.ensure_facts('')
R = Roles(f)
spans = {}
for k, b in f.mir.items():
    sp = b.j.get("span") or {}
    if sp.get("file"):
        spans[k] = (sp["file"], sp["line"], sp.get("eline", sp["line"]))
def fns_in(file, lo, hi):
    out = []
    for k, (fl, a, b) in spans.items():
        if fl == file and not (b < lo or a > hi) and f.mir[k].j.get("def_kind") in ("Fn", "AssocFn"):
            out.append(k)
    return out
def closure(start):
    seen, st = set(), list(start)
    while st:
        k = st.pop()
        if k in seen or k not in f.mir:
            continue
        seen.add(k)
        b = f.mir[k]
        for _bi, _t, cb in R.local_callees(b):
            st.append(cb.key)
        for cl in f.closures_of(b.path):
            st.append(cl.key)
    return seen
for line in open(os.path.join(V, "properties.jsonl")):
    p = json.loads(line)
    pid = p["id"]
    start = []
    for m in p["anchors"]["mechanism"]:
        w = m["where"]
        mm = re.match(r"(\S+?):(\d+)(?:-(\d+))?(?:,(\d+)-(\d+))?", w)
        if not mm:
            continue
        fl = mm.group(1)
        rngs = [(int(mm.group(2)), int(mm.group(3) or mm.group(2)))]
        if mm.group(4):
            rngs.append((int(mm.group(4)), int(mm.group(5))))
        for lo, hi in rngs:
            start += fns_in(fl, lo, hi)
    reach = closure(start)
    ev = json.load(open(os.path.join(V, "evidence", pid + ".json")))
    analysed = set(norm_path(x) for x in ev["coverage"]["functions_analysed"])
    gap = sorted(norm_path(f.mir[k].path) for k in reach if norm_path(f.mir[k].path) not in analysed and "{closure" not in k and "::tests::" not in k)
    print(pid, "anchored:", sorted(set(norm_path(f.mir[k].path).split("::")[-1] for k in start)))
    print("    reachable but not analysed by the own check:", [g.split("::", 1)[-1] for g in gap])
