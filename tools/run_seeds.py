#!/usr/bin/env python3
"""Run the registered checks against every kept seeded change (scratch copy of /repo + patch; nothing is executed).
usage: tools/run_seeds.py [-k C08] [--all-props | --props C01,C02] [-j 12]   -> prints a table and writes seeded/RESULTS.json"""
import argparse, json, os, shutil, subprocess, sys, tempfile
VERIF = os.path.dirname(os.path.dirname(os.path.abspath(__file__)))
sys.path.insert(0, VERIF)
from mtsa.claims import CLAIMS

def main():
    ap = argparse.ArgumentParser(); ap.add_argument("-k", default=""); ap.add_argument("--all-props", action="store_true")
    ap.add_argument("--props", default=""); ap.add_argument("-j", type=int, default=12)
    a = ap.parse_args()
    res = {}
    from concurrent.futures import ThreadPoolExecutor
    dirs = [d for d in sorted(os.listdir(os.path.join(VERIF, "seeded")))
            if os.path.isdir(os.path.join(VERIF, "seeded", d)) and any(k in d for k in a.k.split(","))]
    with ThreadPoolExecutor(a.j) as ex:
        list(ex.map(lambda d: one(a, d, res), dirs))
    rp = os.path.join(VERIF, "seeded", "RESULTS.json")
    allres = json.load(open(rp)) if os.path.exists(rp) else {}
    for k_, v_ in res.items():
        if a.all_props or k_ not in allres:
            allres[k_] = v_
        else:
            allres[k_].setdefault("fired", {})
            for p_ in v_.get("ran", []):
                allres[k_]["fired"].pop(p_, None)
            allres[k_]["fired"].update(v_.get("fired", {}))
            if v_["property"] in v_.get("ran", []):
                allres[k_]["detected_by_own_check"] = v_["detected_by_own_check"]
                allres[k_]["claimed"] = v_["claimed"]
    json.dump(allres, open(rp, "w"), indent=1, sort_keys=True)


def one(a, d, res):
    if True:
        sd = os.path.join(VERIF, "seeded", d)
        meta = json.load(open(os.path.join(sd, "meta.json")))
        prop = meta["property"]
        tmp = tempfile.mkdtemp(prefix="mtsa-seed-")
        try:
            for f in ("src", "benches", "tests", "Cargo.toml", "Cargo.lock"):
                s = os.path.join("/repo", f)
                (shutil.copytree if os.path.isdir(s) else shutil.copy)(s, os.path.join(tmp, f))
            subprocess.run(["git", "init", "-q"], cwd=tmp)
            r = subprocess.run(["git", "apply", os.path.join(sd, "patch.diff")], cwd=tmp, capture_output=True, text=True)
            if r.returncode != 0:
                res[d] = {"property": prop, "error": "patch does not apply: " + r.stderr[:200]}; print(d, "PATCH FAILS"); return
            props = sorted(CLAIMS) if a.all_props else (a.props.split(",") if a.props else ([prop] if prop in CLAIMS else []))
            fired = {}
            for p in props:
                env = dict(os.environ, MTSA_REPO=tmp, MTSA_EVIDENCE_DIR=os.path.join(tmp, "evidence"))
                rr = subprocess.run([os.path.join(VERIF, "bin/check"), p], capture_output=True, text=True, env=env)
                v = [l.strip()[len("violation "):] for l in rr.stdout.splitlines() if l.strip().startswith("violation rule=")]
                if rr.returncode != 0:
                    fired[p] = v or ["exit %d" % rr.returncode]
            res[d] = {"property": prop, "claimed": prop in CLAIMS, "detected_by_own_check": prop in fired, "fired": fired, "ran": props}
            print("%-8s own=%-5s %s" % (d, prop in fired, {k: [x.split(" at ")[0][:90] for x in v[:2]] for k, v in fired.items()}))
        finally:
            shutil.rmtree(tmp, ignore_errors=True)
main()
