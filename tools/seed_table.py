#!/usr/bin/env python3
"""Refresh seeded/*/meta.json (detected_by) from seeded/RESULTS.json and rewrite the seed table of DESIGN.md section 13."""
import json, os, re
V = os.path.dirname(os.path.dirname(os.path.abspath(__file__)))
r = json.load(open(os.path.join(V, "seeded", "RESULTS.json")))
rows = []
own_n = 0
for d in sorted(r):
    mp = os.path.join(V, "seeded", d, "meta.json")
    if not os.path.exists(mp):
        continue
    m = json.load(open(mp))
    v = r[d]
    own = m["property"]
    fired = v.get("fired", {})
    m["detected_by"] = {"own_check": bool(v.get("detected_by_own_check")),
                        "rules": sorted(set(x.split(" ")[0].replace("rule=", "") for x in fired.get(own, []))),
                        "also_fired": sorted(p for p in fired if p != own)}
    m["checks_run"] = "tools/run_seeds.py --all-props (scratch copy of /repo + patch.diff, every registered quick check)"
    json.dump(m, open(mp, "w"), indent=1)
    db = m["detected_by"]
    own_n += 1 if db["own_check"] else 0
    rows.append("| %s | %s | %s | %s | %s |" % (d, (m.get("needs_to_manifest") or "").replace("|", "/"), "yes" if db["own_check"] else "**no**",
                                               ", ".join(db["rules"]) or "–", ", ".join(db["also_fired"]) or "–"))
p = os.path.join(V, "DESIGN.md")
s = open(p).read()
head = "| seed | what it needs to manifest | caught by own check | rule(s) | other checks that also fire |\n|---|---|---|---|---|\n"
a = s.index("| seed | what it needs to manifest | caught by own check | rule(s) | other checks that also fire |")
b = s.index("\nMissed", a)
s = s[:a] + head + "\n".join(rows) + "\n" + s[b:]
s = re.sub(r"\*\*\d+ of \d+ are caught by the targeted property's own check\.\*\*", "**%d of %d are caught by the targeted property's own check.**" % (own_n, len(rows)), s)
s = re.sub(r"(\d+|__N__) changes were produced in (two|three|four|five|six|seven|eight|nine) waves", "%d changes were produced in nine waves" % len(rows), s)
open(p, "w").write(s)
print(own_n, "of", len(rows))
