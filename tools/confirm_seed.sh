#!/bin/bash
# usage: tools/confirm_seed.sh <PROP> <N> [srcdir] [kept-index]   — confirm a seeded change delivered by a sub-agent and keep it
# under /verif/seeded/<PROP>-<N>/ (patch.diff, demo, meta.json). Works in a scratch worktree of /repo HEAD.
set -u
P=$1; N=$2; SRC=${3:-/tmp/seed/$P/OUT}; K=${4:-$N}
DST=/verif/seeded/$P-$K
W=$(mktemp -d /tmp/confirm-$P-$K-XXXX)
LOG=$W.log
git -C /repo worktree add -q --detach "$W" HEAD || exit 2
cleanup(){ git -C /repo worktree remove --force "$W" 2>/dev/null; rm -rf "$W"; }
trap cleanup EXIT
cd "$W"
export CARGO_NET_OFFLINE=true CARGO_TARGET_DIR=${CONFIRM_TARGET:-/tmp/confirm-target}
res(){ echo "$1" | tee -a "$LOG"; }
[ -f "$SRC/patch$N.diff" ] || { res "no patch$N.diff"; exit 2; }
DEMO_KIND=rs
if [ -f "$SRC/demo$N.rs" ]; then cp "$SRC/demo$N.rs" tests/seed_demo$N.rs; DEMO_CMD="cargo test --offline --test seed_demo$N";
elif [ -f "$SRC/demo$N.diff" ]; then DEMO_KIND=diff; git apply "$SRC/demo$N.diff" || { res "demo diff does not apply"; exit 2; }; DEMO_CMD="cargo test --offline --lib seed_demo";
else res "no demo"; exit 2; fi
# 1. demo passes without the patch
$DEMO_CMD >"$LOG.demo_clean" 2>&1; D0=$?
# 2. apply the patch
git apply "$SRC/patch$N.diff" 2>>"$LOG" || git apply --3way "$SRC/patch$N.diff" 2>>"$LOG" || { res "patch does not apply on current HEAD"; exit 3; }
cargo build --offline >"$LOG.build" 2>&1; B=$?
$DEMO_CMD >"$LOG.demo_patched" 2>&1; D1=$?
# 3. existing suite with the patch (demo file removed)
rm -f tests/seed_demo$N.rs; [ $DEMO_KIND = diff ] && git apply -R "$SRC/demo$N.diff"
cargo test --offline >"$LOG.suite" 2>&1; S=$?
PASSED=$(grep -E "^test result: ok" "$LOG.suite" | sed -E 's/.* ([0-9]+) passed.*/\1/' | paste -sd+ | bc)
res "build=$B demo_clean=$D0 demo_patched=$D1 suite=$S passed=$PASSED"
if [ $B -eq 0 ] && [ $D0 -eq 0 ] && [ $D1 -ne 0 ] && [ $S -eq 0 ] && [ "$PASSED" = "35" ]; then
  mkdir -p "$DST"
  git add -N src; git diff -- src > "$DST/patch.diff"
  if [ $DEMO_KIND = rs ]; then cp "$SRC/demo$N.rs" "$DST/demo.rs"; else cp "$SRC/demo$N.diff" "$DST/demo.diff"; fi
  [ -f "$SRC/README.md" ] && cp "$SRC/README.md" "$DST/README.agent.md"
  cat > "$DST/meta.json" <<EOM
{"property": "$P", "seed": "$P-$K", "wave": ${WAVE:-0}, "origin": "independent sub-agent given only the property text and a scratch worktree",
 "confirmed": {"repo_head": "$(git -C /repo rev-parse --short HEAD)", "compiles": true, "existing_suite_passed": $PASSED,
   "demo_without_patch": "pass", "demo_with_patch": "fail", "demo_cmd": "$DEMO_CMD"},
 "ran": ["git apply patch.diff", "cargo build --offline", "$DEMO_CMD (with and without the patch)", "cargo test --offline (35 tests, patch applied)"],
 "needs_to_manifest": "see README.agent.md section $N", "detected_by": null}
EOM
  res "KEPT $DST"
else
  res "REJECTED $P-$K"
fi
