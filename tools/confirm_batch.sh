#!/bin/bash
# usage: tools/confirm_batch.sh <wave-dir> <offset> P1 P2 ...   — confirm patch1/patch2 of each property in 4 parallel slots
# (one cargo target dir per slot: sharing one between concurrent confirmations makes them see each other's builds)
WD=$1; OFF=$2; shift 2
jobs_file=$(mktemp)
for P in "$@"; do for n in 1 2; do [ -f $WD/$P/OUT/patch$n.diff ] && echo "$P $n" >> $jobs_file; done; done
slot() { s=$1; while true; do
    line=$(flock $jobs_file.lock bash -c "head -1 $jobs_file; sed -i 1d $jobs_file"); [ -z "$line" ] && break
    set -- $line; WAVE=${WAVE:-0} CONFIRM_TARGET=/tmp/confirm-target-$s /verif/tools/confirm_seed.sh $1 $2 $WD/$1/OUT $(( $2 + OFF )) 2>&1 | tail -1
  done; }
for s in a b c d; do slot $s & done; wait; rm -f $jobs_file $jobs_file.lock
