#!/bin/bash
# usage: tools/import_neutral.sh <wave-dir> <suffix> area...   — store refN.diff of each area as neutral/<area><suffix>-N/patch.diff
WD=$1; SUF=$2; shift 2
for a in "$@"; do
  for f in $WD/$a/OUT/ref*.diff; do n=$(basename $f .diff); n=${n#ref}; d=/verif/neutral/$a$SUF-$n; mkdir -p $d; cp $f $d/patch.diff; done
  cp $WD/$a/OUT/README.md /verif/neutral/$a$SUF-README.agent.md; cp $WD/$a/OUT/equiv.rs /verif/neutral/$a$SUF-equiv.rs
done
