#!/usr/bin/env python3
"""Apply a patch to a scratch copy of /repo's current tree and run the registered quick checks on it (source analysis only).
usage: tools/run_patch.py <patch.diff> [--props C03,C04] [-j 8] [-v]
Prints one line per check that raises an alarm; exit status 0 if all silent, 1 otherwise.  The scratch copy is removed."""
import argparse, json, os, shutil, subprocess, sys, tempfile
from concurrent.futures import ThreadPoolExecutor
VERIF = os.path.dirname(os.path.dirname(os.path.abspath(__file__)))
sys.path.insert(0, VERIF)
from mtsa.claims import CLAIMS


def run(patch, props, j=8, verbose=False):
    tmp = tempfile.mkdtemp(prefix="mtsa-patch-")
    out = {}
    try:
        for f in ("src", "benches", "tests", "Cargo.toml", "Cargo.lock"):
            s = os.path.join("/repo", f)
            (shutil.copytree if os.path.isdir(s) else shutil.copy)(s, os.path.join(tmp, f))
        subprocess.run(["git", "init", "-q"], cwd=tmp)
        r = subprocess.run(["git", "apply", os.path.abspath(patch)], cwd=tmp, capture_output=True, text=True)
        if r.returncode != 0:
            return {"error": "patch does not apply: " + r.stderr[:300]}
        env = dict(os.environ, MTSA_REPO=tmp, MTSA_EVIDENCE_DIR=os.path.join(tmp, "evidence"))
        # extract once, serially, so that the parallel checks share the fact file
        subprocess.run([os.path.join(VERIF, "bin/check"), props[0]], capture_output=True, text=True, env=env)

        def one(p):
            e = dict(env, MTSA_EVIDENCE_DIR=os.path.join(tmp, "evidence-" + p))
            rr = subprocess.run([os.path.join(VERIF, "bin/check"), p], capture_output=True, text=True, env=e)
            v = [l.strip()[len("violation "):] for l in rr.stdout.splitlines() if l.strip().startswith("violation rule=")]
            if "fact extraction failed" in rr.stdout + rr.stderr:
                v = ["fact extraction failed (does not compile?)"]
            return p, rr.returncode, v
        with ThreadPoolExecutor(j) as ex:
            for p, rc, v in ex.map(one, props):
                if rc != 0:
                    out[p] = v or ["exit %d" % rc]
    finally:
        shutil.rmtree(tmp, ignore_errors=True)
    return out


def main():
    ap = argparse.ArgumentParser()
    ap.add_argument("patch"); ap.add_argument("--props", default=""); ap.add_argument("-j", type=int, default=8); ap.add_argument("-v", action="store_true")
    a = ap.parse_args()
    props = a.props.split(",") if a.props else sorted(CLAIMS)
    out = run(a.patch, props, a.j, a.v)
    if "error" in out:
        print("ERROR", out["error"]); sys.exit(2)
    for p, v in sorted(out.items()):
        for l in v[: (20 if a.v else 3)]:
            print("%s: %s" % (p, l[:300 if not a.v else 2000]))
    print("%s: %d of %d checks raise an alarm: %s" % (os.path.basename(a.patch), len(out), len(props), sorted(out)))
    sys.exit(1 if out else 0)


if __name__ == "__main__":
    main()
