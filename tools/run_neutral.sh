#!/bin/bash
# usage: tools/run_neutral.sh [filter]  — run every registered quick check on each stored behaviour-preserving refactor (neutral/*/patch.diff)
cd /verif
for d in neutral/*/; do n=$(basename $d); [[ -n "$1" && "$n" != *$1* ]] && continue; python3 tools/run_patch.py $d/patch.diff -j 10 2>&1 | grep -v "^WARNING" | sed "s/^/$n  /" | cut -c1-280; done
