#!/usr/bin/env python3
"""Regenerate MANIFEST.json from mtsa/claims.py (claimed checks) and tools/na.json (not applicable)."""
import json, os, sys
sys.path.insert(0, os.path.dirname(os.path.dirname(os.path.abspath(__file__))))
from mtsa.claims import CLAIMS, NOT_APPLICABLE, TECHNIQUE, DESIGN_REF
props = [json.loads(l) for l in open('/verif/properties.jsonl')]
checks = []
for p in props:
    pid = p['id']
    if pid not in CLAIMS:
        continue
    c = CLAIMS[pid]
    checks.append({
        "property_id": pid,
        "quick_cmd": "bin/check %s --tier quick" % pid,
        "thorough_cmd": "bin/check %s --tier thorough" % pid,
        "evidence_file": "/verif/evidence/%s.json" % pid,
        "replay_cmd_template": "bin/check --explain {path}",
        "engine": "mtsa",
        "level_claimed": {"category": c["level"], "text": c["explanation"], "design_ref": DESIGN_REF.get(pid, "DESIGN.md section 4 (%s)" % pid)},
        "level_note": "; ".join(c["assumptions"]) + "; trusted: rustc nightly front end + MIR/THIR construction, driver/ export, mtsa rules",
        "technique": TECHNIQUE.get(pid, "static analysis: custom rustc_private driver (MIR/THIR facts) + repository-specific rules"),
    })
na = [{"property_id": p['id'], "reason": NOT_APPLICABLE.get(p['id'], "check not built yet (build in progress; static-analysis design in DESIGN.md section 4)")}
      for p in props if p['id'] not in CLAIMS]
m = {
    "version": 1,
    "setup_cmd": "cd /verif/driver && CARGO_NET_OFFLINE=true cargo +nightly build --release --offline",
    "hooks": {"guard": "momtrop_verif", "enable": "none needed: static analysis reads the unmodified source (no hook commits)",
              "baseline_off_cmd": "cd /repo && cargo test --workspace --no-fail-fast --offline", "source_commits": [], "add_only": True},
    "engines": [{"name": "mtsa", "path": "/verif/mtsa", "serves_properties": sorted(CLAIMS),
                 "kind_free_text": "static analysis: rustc_private driver exporting items/MIR/THIR of /repo's current tree; Python rules (CFG dominance/"
                                   "reachability, value roots, provenance, abstract interpretation of IEEE classes, kernel algebra)"}],
    "checks": checks,
    "not_applicable": na,
    "notes": "All checks are static: they rebuild facts from /repo's working tree with the compiler on every run and never execute momtrop code.",
}
json.dump(m, open('/verif/MANIFEST.json', 'w'), indent=1)
print("checks:", [c["property_id"] for c in checks], "n/a:", len(na))
