//! Type-level witnesses (rustc is the checker; nothing is executed).
fn assert_send_sync<T: Send + Sync>() {}

/// A sampler can be shared by reference between threads: no interior mutability, no thread-bound state.
pub fn sampler_is_send_sync() {
    assert_send_sync::<momtrop::SampleGenerator<3>>();
    assert_send_sync::<momtrop::SampleGenerator<4>>();
}
