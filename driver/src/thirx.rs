//! THIR export: typed expression trees with resolved callees (overloaded operators and
//! method calls are explicit `call`s here).  Scope nodes are collapsed.
use crate::json::J;
use crate::Cx;
use rustc_hir::def::DefKind;
use rustc_hir::def_id::DefId;
use rustc_middle::thir::*;
use rustc_middle::ty::{self, TyKind};

pub fn export_thir<'tcx>(cx: &Cx<'tcx>) -> J {
    let tcx = cx.tcx;
    let mut out = Vec::new();
    let mut seen = std::collections::BTreeMap::<String, usize>::new();
    for ldid in tcx.hir_body_owners() {
        let did = ldid.to_def_id();
        let kind = tcx.def_kind(did);
        // const items too: their initialiser is what a `named_const` expression stands for (`const BATCH: usize = 2;`)
        if !matches!(kind, DefKind::Fn | DefKind::AssocFn | DefKind::Closure | DefKind::Const { .. } | DefKind::AssocConst { .. }) {
            continue;
        }
        let Ok((steal, root)) = tcx.thir_body(ldid) else { continue };
        let thir = steal.borrow();
        let ex = Ex { cx, thir: &thir, owner: did };
        let params: Vec<J> = thir
            .params
            .iter()
            .map(|p| {
                let mut o = J::obj().puts("ty", cx.ty(p.ty));
                if let Some(pat) = &p.pat {
                    o = o.put("pat", ex.pat(pat));
                }
                if let Some(sk) = &p.self_kind {
                    o = o.puts("self_kind", format!("{:?}", sk));
                }
                o.done()
            })
            .collect();
        let body = ex.expr(root);
        let p = cx.path(did);
        let n = seen.entry(p.clone()).or_insert(0);
        let key = if *n == 0 { p.clone() } else { format!("{}#{}", p, n) };
        *n += 1;
        out.push((
            key,
            J::obj()
                .puts("path", p)
                .put("span", cx.span(tcx.def_span(did)))
                .put("params", J::Arr(params))
                .put("body", body)
                .done(),
        ));
    }
    J::Obj(out)
}

struct Ex<'a, 'tcx> {
    cx: &'a Cx<'tcx>,
    thir: &'a Thir<'tcx>,
    owner: DefId,
}

impl<'a, 'tcx> Ex<'a, 'tcx> {
    fn var(&self, id: LocalVarId) -> J {
        let hid = id.0;
        let name = self.cx.tcx.hir_name(hid).to_string();
        J::obj()
            .puts("id", format!("{}.{}", hid.owner.def_id.local_def_index.as_u32(), hid.local_id.as_u32()))
            .puts("name", name)
            .done()
    }

    fn pat(&self, p: &Pat<'tcx>) -> J {
        let cx = self.cx;
        let base = J::obj().puts("ty", cx.ty(p.ty));
        match &p.kind {
            PatKind::Wild => base.puts("k", "wild").done(),
            PatKind::Missing => base.puts("k", "missing").done(),
            PatKind::Binding { name, mode, var, subpattern, .. } => {
                let mut o = base
                    .puts("k", "bind")
                    .puts("name", name.to_string())
                    .puts("mode", format!("{:?}", mode))
                    .put("var", self.var(*var));
                if let Some(s) = subpattern {
                    o = o.put("sub", self.pat(s));
                }
                o.done()
            }
            PatKind::Variant { adt_def, variant_index, subpatterns, .. } => {
                let v = adt_def.variant(*variant_index);
                base.puts("k", "variant")
                    .puts("adt", cx.path(adt_def.did()))
                    .puts("variant", v.name.to_string())
                    .put(
                        "subs",
                        J::Arr(
                            subpatterns
                                .iter()
                                .map(|fp| {
                                    J::obj()
                                        .puti("field", fp.field.as_usize() as i128)
                                        .puts(
                                            "name",
                                            v.fields
                                                .get(fp.field)
                                                .map(|f| f.name.to_string())
                                                .unwrap_or_default(),
                                        )
                                        .put("pat", self.pat(&fp.pattern))
                                        .done()
                                })
                                .collect(),
                        ),
                    )
                    .done()
            }
            PatKind::Leaf { subpatterns } => {
                let names: Vec<String> = match p.ty.kind() {
                    TyKind::Adt(def, _) if def.is_struct() => {
                        def.non_enum_variant().fields.iter().map(|f| f.name.to_string()).collect()
                    }
                    _ => Vec::new(),
                };
                base.puts("k", "leaf")
                    .put(
                        "subs",
                        J::Arr(
                            subpatterns
                                .iter()
                                .map(|fp| {
                                    J::obj()
                                        .puti("field", fp.field.as_usize() as i128)
                                        .puts(
                                            "name",
                                            names
                                                .get(fp.field.as_usize())
                                                .cloned()
                                                .unwrap_or_else(|| format!("{}", fp.field.as_usize())),
                                        )
                                        .put("pat", self.pat(&fp.pattern))
                                        .done()
                                })
                                .collect(),
                        ),
                    )
                    .done()
            }
            PatKind::Deref { subpattern, .. } => base.puts("k", "deref").put("sub", self.pat(subpattern)).done(),
            PatKind::Constant { value } => {
                base.puts("k", "const").puts("value", format!("{:?}", value).chars().take(120).collect::<String>()).done()
            }
            PatKind::Or { pats } => {
                base.puts("k", "or").put("pats", J::Arr(pats.iter().map(|x| self.pat(x)).collect())).done()
            }
            other => base
                .puts("k", "other")
                .puts("dbg", format!("{:?}", other).chars().take(120).collect::<String>())
                .done(),
        }
    }

    fn block(&self, b: BlockId) -> J {
        let blk = &self.thir.blocks[b];
        let mut stmts = Vec::new();
        for sid in blk.stmts.iter() {
            let st = &self.thir.stmts[*sid];
            match &st.kind {
                StmtKind::Expr { expr, .. } => {
                    stmts.push(J::obj().puts("k", "expr").put("e", self.expr(*expr)).done());
                }
                StmtKind::Let { pattern, initializer, else_block, span, .. } => {
                    let mut o = J::obj().puts("k", "let").put("pat", self.pat(pattern)).put("span", self.cx.span(*span));
                    if let Some(i) = initializer {
                        o = o.put("init", self.expr(*i));
                    }
                    if let Some(eb) = else_block {
                        o = o.put("else", self.block(*eb));
                    }
                    stmts.push(o.done());
                }
            }
        }
        let mut o = J::obj()
            .puts("k", "block")
            .putb("unsafe", !matches!(blk.safety_mode, BlockSafety::Safe))
            .puts("safety", format!("{:?}", blk.safety_mode).chars().take(40).collect::<String>())
            .put("stmts", J::Arr(stmts))
            .put("span", self.cx.span(blk.span));
        if let Some(e) = blk.expr {
            o = o.put("tail", self.expr(e));
        }
        o.done()
    }

    fn expr(&self, id: ExprId) -> J {
        let cx = self.cx;
        let e = &self.thir.exprs[id];
        // collapse scopes
        if let ExprKind::Scope { value, region_scope, .. } = &e.kind {
            let inner = self.expr(*value);
            // a loop keeps the id of its scope: `break` / `continue` name the loop they leave by that id
            if let (ExprKind::Loop { .. }, J::Obj(mut fields)) = (&self.thir.exprs[*value].kind, inner.clone()) {
                fields.push(("scope".to_string(), J::Int(region_scope.local_id.as_u32() as i128)));
                return J::Obj(fields);
            }
            return inner;
        }
        let base = J::obj().puts("ty", cx.ty(e.ty)).put("span", cx.span(e.span));
        match &e.kind {
            ExprKind::Scope { .. } => unreachable!(),
            ExprKind::If { cond, then, else_opt, .. } => {
                let mut o = base.puts("k", "if").put("cond", self.expr(*cond)).put("then", self.expr(*then));
                if let Some(el) = else_opt {
                    o = o.put("else", self.expr(*el));
                }
                o.done()
            }
            ExprKind::Call { ty: fty, fun, args, from_hir_call, .. } => {
                let mut o = base.puts("k", "call").putb("from_hir_call", *from_hir_call);
                match fty.kind() {
                    TyKind::FnDef(did, gargs) => {
                        o = o.put("callee", cx.callee(self.owner, *did, gargs));
                    }
                    _ => {
                        o = o.put("fun", self.expr(*fun)).puts("fun_ty", cx.ty(*fty));
                    }
                }
                o.put("args", J::Arr(args.iter().map(|a| self.expr(*a)).collect())).done()
            }
            ExprKind::Deref { arg } => base.puts("k", "deref").put("e", self.expr(*arg)).done(),
            ExprKind::Binary { op, lhs, rhs } => base
                .puts("k", "binary")
                .puts("op", format!("{:?}", op))
                .put("l", self.expr(*lhs))
                .put("r", self.expr(*rhs))
                .done(),
            ExprKind::LogicalOp { op, lhs, rhs } => base
                .puts("k", "logical")
                .puts("op", format!("{:?}", op))
                .put("l", self.expr(*lhs))
                .put("r", self.expr(*rhs))
                .done(),
            ExprKind::Unary { op, arg } => {
                base.puts("k", "unary").puts("op", format!("{:?}", op)).put("e", self.expr(*arg)).done()
            }
            ExprKind::Cast { source } => base.puts("k", "cast").put("e", self.expr(*source)).done(),
            ExprKind::Use { source } => base.puts("k", "use").put("e", self.expr(*source)).done(),
            ExprKind::NeverToAny { source } => base.puts("k", "never_to_any").put("e", self.expr(*source)).done(),
            ExprKind::PointerCoercion { cast, source, .. } => base
                .puts("k", "ptr_coercion")
                .puts("cast", format!("{:?}", cast))
                .put("e", self.expr(*source))
                .done(),
            ExprKind::Loop { body } => base.puts("k", "loop").put("body", self.expr(*body)).done(),
            ExprKind::Let { expr, pat } => {
                base.puts("k", "let").put("e", self.expr(*expr)).put("pat", self.pat(pat)).done()
            }
            ExprKind::Match { scrutinee, arms, match_source } => {
                let arms_j: Vec<J> = arms
                    .iter()
                    .map(|a| {
                        let arm = &self.thir.arms[*a];
                        let mut o = J::obj().put("pat", self.pat(&arm.pattern)).put("body", self.expr(arm.body));
                        if let Some(g) = arm.guard {
                            o = o.put("guard", self.expr(g));
                        }
                        o.done()
                    })
                    .collect();
                base.puts("k", "match")
                    .puts("source", format!("{:?}", match_source))
                    .put("scrut", self.expr(*scrutinee))
                    .put("arms", J::Arr(arms_j))
                    .done()
            }
            ExprKind::Block { block } => {
                let b = self.block(*block);
                if let J::Obj(mut kv) = b {
                    kv.push(("ty".into(), J::s(cx.ty(e.ty))));
                    J::Obj(kv)
                } else {
                    b
                }
            }
            ExprKind::Assign { lhs, rhs } => {
                base.puts("k", "assign").put("l", self.expr(*lhs)).put("r", self.expr(*rhs)).done()
            }
            ExprKind::AssignOp { op, lhs, rhs } => base
                .puts("k", "assignop")
                .puts("op", format!("{:?}", op))
                .put("l", self.expr(*lhs))
                .put("r", self.expr(*rhs))
                .done(),
            ExprKind::Field { lhs, variant_index, name } => {
                let lty = self.thir.exprs[*lhs].ty;
                let mut fname = format!("{}", name.as_usize());
                let mut of = String::new();
                if let TyKind::Adt(def, _) = lty.kind() {
                    let v = def.variant(*variant_index);
                    if let Some(f) = v.fields.get(*name) {
                        fname = f.name.to_string();
                    }
                    of = cx.path(def.did());
                }
                base.puts("k", "field")
                    .puts("name", fname)
                    .puti("i", name.as_usize() as i128)
                    .puts("of", of)
                    .put("e", self.expr(*lhs))
                    .done()
            }
            ExprKind::Index { lhs, index } => {
                base.puts("k", "index").put("e", self.expr(*lhs)).put("i", self.expr(*index)).done()
            }
            ExprKind::VarRef { id } => base.puts("k", "var").put("var", self.var(*id)).done(),
            ExprKind::UpvarRef { var_hir_id, closure_def_id } => base
                .puts("k", "upvar")
                .put("var", self.var(*var_hir_id))
                .puts("closure", cx.path(*closure_def_id))
                .done(),
            ExprKind::Borrow { borrow_kind, arg } => base
                .puts("k", "borrow")
                .putb("mut", matches!(borrow_kind, rustc_middle::mir::BorrowKind::Mut { .. }))
                .put("e", self.expr(*arg))
                .done(),
            ExprKind::RawBorrow { arg, .. } => base.puts("k", "rawborrow").put("e", self.expr(*arg)).done(),
            ExprKind::Break { value, label } => {
                let mut o = base.puts("k", "break").puti("label", label.local_id.as_u32() as i128);
                if let Some(v) = value {
                    o = o.put("e", self.expr(*v));
                }
                o.done()
            }
            ExprKind::Continue { label } => base.puts("k", "continue").puti("label", label.local_id.as_u32() as i128).done(),
            ExprKind::Return { value } => {
                let mut o = base.puts("k", "return");
                if let Some(v) = value {
                    o = o.put("e", self.expr(*v));
                }
                o.done()
            }
            ExprKind::Repeat { value, count } => {
                base.puts("k", "repeat").put("e", self.expr(*value)).puts("count", format!("{}", count)).done()
            }
            ExprKind::Array { fields } => {
                base.puts("k", "array").put("es", J::Arr(fields.iter().map(|f| self.expr(*f)).collect())).done()
            }
            ExprKind::Tuple { fields } => {
                base.puts("k", "tuple").put("es", J::Arr(fields.iter().map(|f| self.expr(*f)).collect())).done()
            }
            ExprKind::Adt(adt) => {
                let v = adt.adt_def.variant(adt.variant_index);
                let fields: Vec<J> = adt
                    .fields
                    .iter()
                    .map(|f| {
                        J::obj()
                            .puts("name", v.fields.get(f.name).map(|x| x.name.to_string()).unwrap_or_default())
                            .puti("i", f.name.as_usize() as i128)
                            .put("e", self.expr(f.expr))
                            .done()
                    })
                    .collect();
                let mut o = base
                    .puts("k", "adt")
                    .puts("adt", cx.path(adt.adt_def.did()))
                    .puts("variant", v.name.to_string())
                    .put("fields", J::Arr(fields));
                match &adt.base {
                    AdtExprBase::None => {}
                    AdtExprBase::Base(fru) => {
                        o = o.put("base", self.expr(fru.base));
                    }
                    _ => {
                        o = o.puts("base_other", "default_fields");
                    }
                }
                o.done()
            }
            ExprKind::Closure(c) => {
                let ups: Vec<J> = c.upvars.iter().map(|u| self.expr(*u)).collect();
                base.puts("k", "closure")
                    .puts("closure", cx.path(c.closure_id.to_def_id()))
                    .put("upvars", J::Arr(ups))
                    .done()
            }
            ExprKind::Literal { lit, neg } => base
                .puts("k", "lit")
                .puts("lit", format!("{:?}", lit.node))
                .putb("neg", *neg)
                .done(),
            ExprKind::NonHirLiteral { lit, .. } => base.puts("k", "lit").puts("lit", format!("{:?}", lit)).putb("neg", false).done(),
            ExprKind::ZstLiteral { .. } => {
                let mut o = base.puts("k", "zst");
                if let TyKind::FnDef(did, gargs) = e.ty.kind() {
                    o = o.put("fn", cx.callee(self.owner, *did, gargs));
                }
                o.done()
            }
            ExprKind::NamedConst { def_id, args, .. } => base
                .puts("k", "named_const")
                .puts("path", cx.path(*def_id))
                .puts("full", cx.path_args(*def_id, args))
                .done(),
            ExprKind::ConstParam { param, .. } => base.puts("k", "const_param").puts("name", param.name.to_string()).done(),
            ExprKind::StaticRef { def_id, .. } => base.puts("k", "static_ref").puts("path", cx.path(*def_id)).done(),
            ExprKind::ValueTypeAscription { source, .. } | ExprKind::PlaceTypeAscription { source, .. } => {
                self.expr(*source)
            }
            other => base
                .puts("k", "other")
                .puts("dbg", format!("{:?}", other).chars().take(200).collect::<String>())
                .done(),
        }
    }
}

#[allow(dead_code)]
fn _unused(_: ty::ParamEnv<'_>) {}
