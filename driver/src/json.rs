//! Minimal JSON value + writer (no dependencies).
use std::fmt::Write;

#[derive(Clone, Debug)]
pub enum J {
    Null,
    Bool(bool),
    Int(i128),
    Str(String),
    Arr(Vec<J>),
    Obj(Vec<(String, J)>),
}

impl J {
    pub fn s<S: Into<String>>(s: S) -> J {
        J::Str(s.into())
    }
    pub fn obj() -> JObj {
        JObj(Vec::new())
    }
    pub fn write(&self, out: &mut String) {
        match self {
            J::Null => out.push_str("null"),
            J::Bool(b) => out.push_str(if *b { "true" } else { "false" }),
            J::Int(i) => {
                let _ = write!(out, "{}", i);
            }
            J::Str(s) => write_str(s, out),
            J::Arr(a) => {
                out.push('[');
                for (i, x) in a.iter().enumerate() {
                    if i > 0 {
                        out.push(',');
                    }
                    x.write(out);
                }
                out.push(']');
            }
            J::Obj(o) => {
                out.push('{');
                for (i, (k, v)) in o.iter().enumerate() {
                    if i > 0 {
                        out.push(',');
                    }
                    write_str(k, out);
                    out.push(':');
                    v.write(out);
                }
                out.push('}');
            }
        }
    }
}

fn write_str(s: &str, out: &mut String) {
    out.push('"');
    for c in s.chars() {
        match c {
            '"' => out.push_str("\\\""),
            '\\' => out.push_str("\\\\"),
            '\n' => out.push_str("\\n"),
            '\r' => out.push_str("\\r"),
            '\t' => out.push_str("\\t"),
            c if (c as u32) < 0x20 => {
                let _ = write!(out, "\\u{:04x}", c as u32);
            }
            c => out.push(c),
        }
    }
    out.push('"');
}

pub struct JObj(pub Vec<(String, J)>);
impl JObj {
    pub fn put<S: Into<String>>(mut self, k: S, v: J) -> Self {
        self.0.push((k.into(), v));
        self
    }
    pub fn puts<S: Into<String>, V: Into<String>>(self, k: S, v: V) -> Self {
        self.put(k, J::Str(v.into()))
    }
    pub fn puti<S: Into<String>>(self, k: S, v: i128) -> Self {
        self.put(k, J::Int(v))
    }
    pub fn putb<S: Into<String>>(self, k: S, v: bool) -> Self {
        self.put(k, J::Bool(v))
    }
    pub fn done(self) -> J {
        J::Obj(self.0)
    }
}
