//! MIR export: per body CFG with places/operands/rvalues and resolved callees.
use crate::json::J;
use crate::Cx;
use rustc_hir::def::DefKind;
use rustc_hir::def_id::{DefId, LocalDefId};
use rustc_middle::mir::{self, *};
use rustc_middle::ty::{self, TyKind};

/// Promoted constants of every body (`<path>::promoted[i]`): small straight-line bodies the checker evaluates itself
/// (range literals, array literals) — kept apart from the function bodies so that no census counts them.
pub fn export_promoted<'tcx>(cx: &Cx<'tcx>) -> J {
    let tcx = cx.tcx;
    let mut objs = Vec::new();
    for ldid in tcx.hir_body_owners() {
        let did = ldid.to_def_id();
        let kind = tcx.def_kind(did);
        if !matches!(kind, DefKind::Fn | DefKind::AssocFn | DefKind::Closure) {
            continue;
        }
        for (pi, pb) in tcx.promoted_mir(did).iter_enumerated() {
            let key = format!("{}::promoted[{}]", cx.path(did), pi.as_usize());
            objs.push((key, export_body(cx, ldid, pb)));
        }
    }
    J::Obj(objs)
}

pub fn export_mir<'tcx>(cx: &Cx<'tcx>) -> J {
    let tcx = cx.tcx;
    let mut out = Vec::new();
    for ldid in tcx.hir_body_owners() {
        let did = ldid.to_def_id();
        let kind = tcx.def_kind(did);
        let ok = matches!(kind, DefKind::Fn | DefKind::AssocFn | DefKind::Closure);
        if !ok {
            continue;
        }
        let body = tcx.optimized_mir(did);
        out.push((cx.path(did), export_body(cx, ldid, body)));
    }
    // disambiguate duplicate paths (e.g. several anonymous-const impls) with a counter
    let mut seen = std::collections::BTreeMap::<String, usize>::new();
    let mut objs = Vec::new();
    for (p, b) in out {
        let n = seen.entry(p.clone()).or_insert(0);
        let key = if *n == 0 { p.clone() } else { format!("{}#{}", p, n) };
        *n += 1;
        objs.push((key, b));
    }
    J::Obj(objs)
}

fn export_body<'tcx>(cx: &Cx<'tcx>, ldid: LocalDefId, body: &Body<'tcx>) -> J {
    let tcx = cx.tcx;
    let did = ldid.to_def_id();
    let mut o = J::obj()
        .puts("path", cx.path(did))
        .puts("def_kind", format!("{:?}", tcx.def_kind(did)))
        .put("span", cx.span(body.span))
        .puti("arg_count", body.arg_count as i128);
    if tcx.is_closure_like(did) {
        o = o.puts("parent", cx.path(tcx.local_parent(ldid).to_def_id()));
        o = o.puts("root", cx.path(tcx.typeck_root_def_id(did)));
        let caps: Vec<J> = tcx
            .closure_captures(ldid)
            .iter()
            .map(|c| {
                J::obj()
                    .puts("name", c.to_symbol().to_string())
                    .puts("place", format!("{:?}", c.place))
                    .puts("mode", format!("{:?}", c.info.capture_kind))
                    .puts("ty", cx.ty(c.place.ty()))
                    .done()
            })
            .collect();
        o = o.put("captures", J::Arr(caps));
    }
    // locals
    let mut names: Vec<Option<String>> = vec![None; body.local_decls.len()];
    let mut dbg = Vec::new();
    for vdi in &body.var_debug_info {
        match &vdi.value {
            VarDebugInfoContents::Place(p) => {
                if p.projection.is_empty() {
                    names[p.local.as_usize()] = Some(vdi.name.to_string());
                }
                dbg.push(
                    J::obj()
                        .puts("name", vdi.name.to_string())
                        .put("place", place(cx, body, did, *p))
                        .done(),
                );
            }
            VarDebugInfoContents::Const(c) => {
                dbg.push(
                    J::obj()
                        .puts("name", vdi.name.to_string())
                        .puts("const", format!("{}", c.const_))
                        .done(),
                );
            }
        }
    }
    let locals: Vec<J> = body
        .local_decls
        .iter_enumerated()
        .map(|(l, d)| {
            let mut lo = J::obj().puti("i", l.as_usize() as i128).puts("ty", cx.ty(d.ty));
            if let Some(n) = &names[l.as_usize()] {
                lo = lo.puts("name", n.clone());
            }
            lo = lo.putb("mut", d.mutability.is_mut());
            lo.done()
        })
        .collect();
    o = o.put("locals", J::Arr(locals)).put("debug", J::Arr(dbg));
    // blocks
    let mut blocks = Vec::new();
    for (bb, data) in body.basic_blocks.iter_enumerated() {
        let mut stmts = Vec::new();
        for st in &data.statements {
            match &st.kind {
                StatementKind::Assign(b) => {
                    let (p, rv) = &**b;
                    stmts.push(
                        J::obj()
                            .puts("k", "assign")
                            .put("place", place(cx, body, did, *p))
                            .put("rv", rvalue(cx, body, did, rv))
                            .put("span", cx.span(st.source_info.span))
                            .done(),
                    );
                }
                StatementKind::SetDiscriminant { place: p, variant_index } => {
                    stmts.push(
                        J::obj()
                            .puts("k", "setdiscr")
                            .put("place", place(cx, body, did, **p))
                            .puti("variant", variant_index.as_usize() as i128)
                            .done(),
                    );
                }
                StatementKind::Intrinsic(i) => {
                    stmts.push(J::obj().puts("k", "intrinsic").puts("dbg", format!("{:?}", i)).done());
                }
                _ => {}
            }
        }
        let term = data.terminator();
        let t = terminator(cx, body, did, term);
        blocks.push(
            J::obj()
                .puti("i", bb.as_usize() as i128)
                .putb("cleanup", data.is_cleanup)
                .put("stmts", J::Arr(stmts))
                .put("term", t)
                .done(),
        );
    }
    o.put("blocks", J::Arr(blocks)).done()
}

fn place<'tcx>(cx: &Cx<'tcx>, body: &Body<'tcx>, _owner: DefId, p: Place<'tcx>) -> J {
    let tcx = cx.tcx;
    let mut projs = Vec::new();
    for (i, elem) in p.projection.iter().enumerate() {
        let base_ty = Place::ty_from(p.local, &p.projection[..i], &body.local_decls, tcx);
        let j = match elem {
            ProjectionElem::Deref => J::obj().puts("k", "deref").done(),
            ProjectionElem::Field(f, fty) => {
                let mut name = format!("{}", f.as_usize());
                let mut owner = String::new();
                match base_ty.ty.kind() {
                    TyKind::Adt(def, _) => {
                        let vi = base_ty.variant_index.unwrap_or(rustc_abi::FIRST_VARIANT);
                        if def.variants().len() > vi.as_usize() {
                            let v = def.variant(vi);
                            if v.fields.len() > f.as_usize() {
                                name = v.fields[f].name.to_string();
                            }
                            owner = cx.path(def.did());
                            if def.is_enum() {
                                owner = format!("{}::{}", owner, v.name);
                            }
                        }
                    }
                    TyKind::Closure(cdid, _) => {
                        if let Some(l) = cdid.as_local() {
                            let caps = tcx.closure_captures(l);
                            if caps.len() > f.as_usize() {
                                name = caps[f.as_usize()].to_symbol().to_string();
                            }
                            owner = cx.path(*cdid);
                        }
                    }
                    _ => {}
                }
                J::obj()
                    .puts("k", "field")
                    .puti("i", f.as_usize() as i128)
                    .puts("name", name)
                    .puts("of", owner)
                    .puts("ty", cx.ty(fty))
                    .done()
            }
            ProjectionElem::Index(l) => {
                J::obj().puts("k", "index").puti("l", l.as_usize() as i128).done()
            }
            ProjectionElem::ConstantIndex { offset, min_length, from_end } => J::obj()
                .puts("k", "constindex")
                .puti("offset", offset as i128)
                .puti("min_length", min_length as i128)
                .putb("from_end", from_end)
                .done(),
            ProjectionElem::Subslice { from, to, from_end } => J::obj()
                .puts("k", "subslice")
                .puti("from", from as i128)
                .puti("to", to as i128)
                .putb("from_end", from_end)
                .done(),
            ProjectionElem::Downcast(sym, vi) => J::obj()
                .puts("k", "downcast")
                .puts("variant", sym.map(|s| s.to_string()).unwrap_or_default())
                .puti("vi", vi.as_usize() as i128)
                .done(),
            ProjectionElem::OpaqueCast(_) => J::obj().puts("k", "opaquecast").done(),
            ProjectionElem::UnwrapUnsafeBinder(_) => J::obj().puts("k", "unwrapbinder").done(),
        };
        projs.push(j);
    }
    J::obj().puti("l", p.local.as_usize() as i128).put("p", J::Arr(projs)).done()
}

pub fn const_operand<'tcx>(cx: &Cx<'tcx>, owner: DefId, c: &mir::Const<'tcx>) -> J {
    let tcx = cx.tcx;
    let t = c.ty();
    let mut o = J::obj()
        .puts("k", "const")
        .puts("ty", cx.ty(t))
        .puts("disp", ty::print::with_no_trimmed_paths!(format!("{}", c)));
    match t.kind() {
        TyKind::FnDef(did, args) => {
            o = o.put("fn", cx.callee(owner, *did, args));
        }
        _ => {
            let env = ty::TypingEnv::post_analysis(tcx, owner);
            if t.is_integral() || t.is_bool() || t.is_char() || t.is_floating_point() {
                if let Some(si) = c.try_eval_scalar_int(tcx, env) {
                    let size = si.size();
                    let bits = si.to_bits(size);
                    o = o.puts("bits", format!("{}", bits)).puti("size", size.bytes() as i128);
                    if t.is_signed() {
                        o = o.puts("int", format!("{}", si.to_int(size)));
                    } else if t.is_integral() || t.is_bool() {
                        o = o.puts("int", format!("{}", bits));
                    }
                }
            }
            if let mir::Const::Unevaluated(u, _) = c {
                o = o.puts("uneval", cx.path(u.def));
            }
            if let mir::Const::Ty(_, tc) = c {
                o = o.puts("tyconst", format!("{}", tc));
            }
        }
    }
    o.done()
}

fn operand<'tcx>(cx: &Cx<'tcx>, body: &Body<'tcx>, owner: DefId, op: &Operand<'tcx>) -> J {
    match op {
        Operand::Copy(p) => J::obj().puts("k", "copy").put("place", place(cx, body, owner, *p)).done(),
        Operand::Move(p) => J::obj().puts("k", "move").put("place", place(cx, body, owner, *p)).done(),
        Operand::Constant(c) => const_operand(cx, owner, &c.const_),
        other => J::obj().puts("k", "runtimechecks").puts("dbg", format!("{:?}", other)).done(),
    }
}

fn rvalue<'tcx>(cx: &Cx<'tcx>, body: &Body<'tcx>, owner: DefId, rv: &Rvalue<'tcx>) -> J {
    match rv {
        Rvalue::Use(op, _) => J::obj().puts("k", "use").put("op", operand(cx, body, owner, op)).done(),
        Rvalue::Repeat(op, n) => J::obj()
            .puts("k", "repeat")
            .put("op", operand(cx, body, owner, op))
            .puts("n", format!("{}", n))
            .done(),
        Rvalue::Ref(_, bk, p) => J::obj()
            .puts("k", "ref")
            .putb("mut", matches!(bk, BorrowKind::Mut { .. }))
            .puts("bk", format!("{:?}", bk))
            .put("place", place(cx, body, owner, *p))
            .done(),
        Rvalue::RawPtr(kind, p) => J::obj()
            .puts("k", "rawptr")
            .puts("kind", format!("{:?}", kind))
            .put("place", place(cx, body, owner, *p))
            .done(),
        Rvalue::Cast(kind, op, t) => J::obj()
            .puts("k", "cast")
            .puts("kind", format!("{:?}", kind))
            .put("op", operand(cx, body, owner, op))
            .puts("ty", cx.ty(*t))
            .done(),
        Rvalue::BinaryOp(bop, ops) => J::obj()
            .puts("k", "binop")
            .puts("op", format!("{:?}", bop))
            .put("a", operand(cx, body, owner, &ops.0))
            .put("b", operand(cx, body, owner, &ops.1))
            .done(),
        Rvalue::UnaryOp(uop, op) => J::obj()
            .puts("k", "unop")
            .puts("op", format!("{:?}", uop))
            .put("a", operand(cx, body, owner, op))
            .done(),
        Rvalue::Discriminant(p) => {
            J::obj().puts("k", "discr").put("place", place(cx, body, owner, *p)).done()
        }
        Rvalue::Aggregate(kind, ops) => {
            let mut o = J::obj().puts("k", "aggregate");
            match &**kind {
                AggregateKind::Array(t) => {
                    o = o.puts("agg", "array").puts("ty", cx.ty(*t));
                }
                AggregateKind::Tuple => {
                    o = o.puts("agg", "tuple");
                }
                AggregateKind::Adt(adid, vi, args, _, active) => {
                    let def = cx.tcx.adt_def(*adid);
                    let v = def.variant(*vi);
                    o = o
                        .puts("agg", "adt")
                        .puts("adt", cx.path(*adid))
                        .puts("variant", v.name.to_string())
                        .puti("vi", vi.as_usize() as i128)
                        .put("gargs", cx.gargs(args))
                        .put(
                            "fields",
                            J::Arr(v.fields.iter().map(|f| J::s(f.name.to_string())).collect()),
                        );
                    if let Some(a) = active {
                        o = o.puti("active_field", a.as_usize() as i128);
                    }
                }
                AggregateKind::Closure(cdid, _) => {
                    o = o.puts("agg", "closure").puts("closure", cx.path(*cdid));
                    if let Some(l) = cdid.as_local() {
                        o = o.put(
                            "fields",
                            J::Arr(
                                cx.tcx
                                    .closure_captures(l)
                                    .iter()
                                    .map(|c| J::s(c.to_symbol().to_string()))
                                    .collect(),
                            ),
                        );
                    }
                }
                other => {
                    o = o.puts("agg", "other").puts("dbg", format!("{:?}", other));
                }
            }
            o.put("ops", J::Arr(ops.iter().map(|x| operand(cx, body, owner, x)).collect())).done()
        }
        Rvalue::CopyForDeref(p) => {
            J::obj().puts("k", "copyforderef").put("place", place(cx, body, owner, *p)).done()
        }
        Rvalue::ThreadLocalRef(d) => J::obj().puts("k", "tlsref").puts("def", cx.path(*d)).done(),
        other => J::obj().puts("k", "other").puts("dbg", format!("{:?}", other)).done(),
    }
}

fn unwind(u: &UnwindAction) -> J {
    match u {
        UnwindAction::Cleanup(bb) => J::Int(bb.as_usize() as i128),
        _ => J::Null,
    }
}

fn terminator<'tcx>(cx: &Cx<'tcx>, body: &Body<'tcx>, owner: DefId, t: &Terminator<'tcx>) -> J {
    let sp = cx.span(t.source_info.span);
    match &t.kind {
        TerminatorKind::Goto { target } => {
            J::obj().puts("k", "goto").puti("target", target.as_usize() as i128).put("span", sp).done()
        }
        TerminatorKind::SwitchInt { discr, targets } => {
            let ts: Vec<J> = targets
                .iter()
                .map(|(v, bb)| J::Arr(vec![J::s(format!("{}", v)), J::Int(bb.as_usize() as i128)]))
                .collect();
            let dty = discr.ty(&body.local_decls, cx.tcx);
            J::obj()
                .puts("k", "switch")
                .put("discr", operand(cx, body, owner, discr))
                .puts("discr_ty", cx.ty(dty))
                .put("targets", J::Arr(ts))
                .puti("otherwise", targets.otherwise().as_usize() as i128)
                .put("span", sp)
                .done()
        }
        TerminatorKind::Return => J::obj().puts("k", "return").put("span", sp).done(),
        TerminatorKind::Unreachable => J::obj().puts("k", "unreachable").put("span", sp).done(),
        TerminatorKind::UnwindResume => J::obj().puts("k", "resume").done(),
        TerminatorKind::UnwindTerminate(_) => J::obj().puts("k", "terminate").done(),
        TerminatorKind::Drop { place: p, target, unwind: u, .. } => J::obj()
            .puts("k", "drop")
            .put("place", place(cx, body, owner, *p))
            .puti("target", target.as_usize() as i128)
            .put("unwind", unwind(u))
            .put("span", sp)
            .done(),
        TerminatorKind::Call { func, args, destination, target, unwind: u, fn_span, .. } => {
            let mut o = J::obj().puts("k", "call");
            let fty = func.ty(&body.local_decls, cx.tcx);
            match fty.kind() {
                TyKind::FnDef(did, gargs) => {
                    o = o.put("callee", cx.callee(owner, *did, gargs));
                }
                _ => {
                    o = o.put("callee_op", operand(cx, body, owner, func)).puts("callee_ty", cx.ty(fty));
                }
            }
            o = o
                .put("args", J::Arr(args.iter().map(|a| operand(cx, body, owner, &a.node)).collect()))
                .put("dest", place(cx, body, owner, *destination))
                .put("target", target.map(|b| J::Int(b.as_usize() as i128)).unwrap_or(J::Null))
                .put("unwind", unwind(u))
                .put("span", sp)
                .put("fn_span", cx.span(*fn_span));
            o.done()
        }
        TerminatorKind::Assert { cond, expected, msg, target, unwind: u } => J::obj()
            .puts("k", "assert")
            .put("cond", operand(cx, body, owner, cond))
            .putb("expected", *expected)
            .puts("msg", format!("{:?}", std::mem::discriminant(&**msg)))
            .puts("msg_dbg", format!("{:?}", msg).chars().take(80).collect::<String>())
            .puti("target", target.as_usize() as i128)
            .put("unwind", unwind(u))
            .put("span", sp)
            .done(),
        TerminatorKind::FalseEdge { real_target, .. } => {
            J::obj().puts("k", "goto").puti("target", real_target.as_usize() as i128).put("span", sp).done()
        }
        TerminatorKind::FalseUnwind { real_target, .. } => {
            J::obj().puts("k", "goto").puti("target", real_target.as_usize() as i128).put("span", sp).done()
        }
        other => J::obj().puts("k", "other").puts("dbg", format!("{:?}", other)).put("span", sp).done(),
    }
}
