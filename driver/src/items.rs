//! Item-level facts: ADTs, impls, fns, statics/consts, traits, deep type graph, AST attributes.
use crate::json::J;
use crate::Cx;
use rustc_ast as ast;
use rustc_ast::visit::{self, Visitor};
use rustc_hir::def::DefKind;
use rustc_hir::def_id::DefId;
use rustc_middle::ty::{self, Ty, TyCtxt, TyKind, TypeVisitableExt};
use std::collections::{BTreeMap, VecDeque};

pub fn export_items<'tcx>(cx: &Cx<'tcx>) -> J {
    let tcx = cx.tcx;
    let mut adts = Vec::new();
    let mut impls = Vec::new();
    let mut fns = Vec::new();
    let mut statics = Vec::new();
    let mut consts = Vec::new();
    let mut traits = Vec::new();
    let mut roots: Vec<Ty<'tcx>> = Vec::new();

    let mut defs: Vec<rustc_hir::def_id::LocalDefId> = tcx.hir_crate_items(()).definitions().collect();
    for l in tcx.hir_crate_items(()).nested_bodies() {
        defs.push(l);
    }
    for ldid in defs {
        let did = ldid.to_def_id();
        let kind = tcx.def_kind(did);
        match kind {
            DefKind::Struct | DefKind::Enum | DefKind::Union => {
                let def = tcx.adt_def(did);
                let self_ty = tcx.type_of(did).instantiate_identity().skip_norm_wip();
                roots.push(self_ty);
                let ident_args = ty::GenericArgs::identity_for_item(tcx, did);
                let variants: Vec<J> = def
                    .variants()
                    .iter()
                    .map(|v| {
                        let fields: Vec<J> = v
                            .fields
                            .iter()
                            .map(|f| {
                                J::obj()
                                    .puts("name", f.name.to_string())
                                    .puts("ty", cx.ty(f.ty(tcx, ident_args)))
                                    .putb("pub", f.vis.is_public())
                                    .puts("vis", format!("{:?}", f.vis))
                                    .done()
                            })
                            .collect();
                        J::obj().puts("name", v.name.to_string()).put("fields", J::Arr(fields)).done()
                    })
                    .collect();
                adts.push(
                    J::obj()
                        .puts("path", cx.path(did))
                        .puts("kind", format!("{:?}", kind))
                        .puts("self_ty", cx.ty(self_ty))
                        .putb("pub", tcx.visibility(did).is_public())
                        .put("generics", generics(cx, did))
                        .put("variants", J::Arr(variants))
                        .put("span", cx.span(tcx.def_span(did)))
                        .done(),
                );
            }
            DefKind::Impl { of_trait } => {
                let self_ty = tcx.type_of(did).instantiate_identity().skip_norm_wip();
                let mut o = J::obj()
                    .puts("path", cx.path(did))
                    .puts("self_ty", cx.ty(self_ty))
                    .putb("auto_derived", tcx.is_automatically_derived(did))
                    .put("span", cx.span(tcx.def_span(did)))
                    .putb("from_expansion", tcx.def_span(did).from_expansion());
                if of_trait {
                    let hdr = tcx.impl_trait_header(did);
                    let tr = hdr.trait_ref.instantiate_identity().skip_norm_wip();
                    o = o
                        .puts("trait", cx.path(tr.def_id))
                        .puts("trait_full", cx.path_args(tr.def_id, tr.args))
                        .put("trait_args", cx.gargs(tr.args))
                        .putb("unsafe", matches!(hdr.safety, rustc_hir::Safety::Unsafe))
                        .puts("polarity", format!("{:?}", hdr.polarity));
                }
                let assoc: Vec<J> = tcx
                    .associated_item_def_ids(did)
                    .iter()
                    .map(|d| J::s(cx.path(*d)))
                    .collect();
                o = o.put("items", J::Arr(assoc)).put("generics", generics(cx, did));
                impls.push(o.done());
            }
            DefKind::Fn | DefKind::AssocFn | DefKind::Closure => {
                let mut o = J::obj()
                    .puts("path", cx.path(did))
                    .puts("kind", format!("{:?}", kind))
                    .put("span", cx.span(tcx.def_span(did)));
                if !matches!(kind, DefKind::Closure) {
                    let sig = tcx.fn_sig(did).instantiate_identity().skip_norm_wip().skip_binder();
                    o = o
                        .putb("pub", tcx.visibility(did).is_public())
                        .puts("vis", format!("{:?}", tcx.visibility(did)))
                        .put(
                            "inputs",
                            J::Arr(sig.inputs().iter().map(|t| J::s(cx.ty(*t))).collect()),
                        )
                        .puts("output", cx.ty(sig.output()))
                        .putb("unsafe", !sig.safety().is_safe())
                        .put("generics", generics(cx, did))
                        .puts("name", tcx.item_name(did).to_string());
                    if let Some(ai) = tcx.opt_associated_item(did) {
                        o = o.putb("has_self", ai.is_method());
                        if let Some(im) = tcx.impl_of_assoc(did) {
                            o = o.puts("impl", cx.path(im)).puts(
                                "impl_self",
                                cx.ty(tcx.type_of(im).instantiate_identity().skip_norm_wip()),
                            );
                            if let Some(tr) = tcx.impl_opt_trait_ref(im) {
                                o = o.puts("impl_trait", cx.path(tr.skip_binder().def_id));
                            }
                            o = o.putb("impl_derived", tcx.is_automatically_derived(im));
                        }
                        if let Some(tr) = tcx.trait_of_assoc(did) {
                            o = o.puts("trait", cx.path(tr));
                        }
                    }
                } else {
                    o = o.puts("parent", cx.path(tcx.local_parent(ldid).to_def_id()));
                }
                fns.push(o.done());
            }
            DefKind::Static { mutability, .. } => {
                let t = tcx.type_of(did).instantiate_identity().skip_norm_wip();
                statics.push(
                    J::obj()
                        .puts("path", cx.path(did))
                        .puts("ty", cx.ty(t))
                        .putb("mut", mutability.is_mut())
                        .putb("thread_local", tcx.is_thread_local_static(did))
                        .putb("freeze", t.is_freeze(tcx, ty::TypingEnv::post_analysis(tcx, did)))
                        .put("span", cx.span(tcx.def_span(did)))
                        .done(),
                );
            }
            DefKind::Const { .. } | DefKind::AssocConst { .. } => {
                let t = tcx.type_of(did).instantiate_identity().skip_norm_wip();
                consts.push(
                    J::obj()
                        .puts("path", cx.path(did))
                        .puts("ty", cx.ty(t))
                        .put("span", cx.span(tcx.def_span(did)))
                        .done(),
                );
            }
            DefKind::Trait => {
                let assoc: Vec<J> = tcx
                    .associated_items(did)
                    .in_definition_order()
                    .map(|ai| {
                        J::obj()
                            .puts("name", ai.name().to_string())
                            .puts("kind", format!("{:?}", ai.kind).chars().take(40).collect::<String>())
                            .putb("is_fn", ai.is_fn())
                            .putb("has_default", ai.defaultness(tcx).has_value())
                            .done()
                    })
                    .collect();
                traits.push(
                    J::obj()
                        .puts("path", cx.path(did))
                        .putb("pub", tcx.visibility(did).is_public())
                        .put("items", J::Arr(assoc))
                        .done(),
                );
            }
            _ => {}
        }
    }
    let tygraph = type_graph(cx, &roots);
    J::obj()
        .put("adts", J::Arr(adts))
        .put("impls", J::Arr(impls))
        .put("fns", J::Arr(fns))
        .put("statics", J::Arr(statics))
        .put("consts", J::Arr(consts))
        .put("traits", J::Arr(traits))
        .put("tygraph", tygraph)
        .done()
}

fn generics<'tcx>(cx: &Cx<'tcx>, did: DefId) -> J {
    let tcx = cx.tcx;
    let g = tcx.generics_of(did);
    let mut params = Vec::new();
    let mut cur = Some(g);
    let mut stack = Vec::new();
    while let Some(gg) = cur {
        stack.push(gg);
        cur = gg.parent.map(|p| tcx.generics_of(p));
    }
    for gg in stack.iter().rev() {
        for p in &gg.own_params {
            params.push(
                J::obj()
                    .puts("name", p.name.to_string())
                    .puts("kind", format!("{:?}", p.kind).chars().take(30).collect::<String>())
                    .done(),
            );
        }
    }
    let preds: Vec<J> = tcx
        .predicates_of(did)
        .instantiate_identity(tcx)
        .predicates
        .iter()
        .map(|p| J::s(ty::print::with_no_trimmed_paths!(format!("{}", p.skip_norm_wip()))))
        .collect();
    J::obj().put("params", J::Arr(params)).put("preds", J::Arr(preds)).done()
}

/// Deep walk over field types (through foreign ADTs' private fields, pointers, arrays, tuples).
fn type_graph<'tcx>(cx: &Cx<'tcx>, roots: &[Ty<'tcx>]) -> J {
    let tcx = cx.tcx;
    let mut nodes: BTreeMap<String, J> = BTreeMap::new();
    let mut q: VecDeque<Ty<'tcx>> = roots.iter().copied().collect();
    let mut budget = 20000usize;
    while let Some(t) = q.pop_front() {
        let key = cx.ty(t);
        if nodes.contains_key(&key) {
            continue;
        }
        if budget == 0 {
            nodes.insert("__truncated__".into(), J::Bool(true));
            break;
        }
        budget -= 1;
        let mut children: Vec<(String, Ty<'tcx>)> = Vec::new();
        let mut o = J::obj();
        let has_params = t.has_param();
        if !has_params && !t.has_escaping_bound_vars() {
            let fr = std::panic::catch_unwind(std::panic::AssertUnwindSafe(|| {
                t.is_freeze(tcx, ty::TypingEnv::fully_monomorphized())
            }));
            if let Ok(b) = fr {
                o = o.putb("freeze", b);
            }
        }
        match t.kind() {
            TyKind::Adt(def, args) => {
                o = o
                    .puts("k", "adt")
                    .puts("path", cx.path(def.did()))
                    .puts("crate", cx.krate(def.did()))
                    .putb("unsafe_cell", def.is_unsafe_cell())
                    .putb("local", def.did().is_local());
                for v in def.variants() {
                    for f in &v.fields {
                        let ft = f.ty(tcx, args);
                        children.push((format!("{}.{}", v.name, f.name), ft));
                    }
                }
                // generic arguments are also visited (PhantomData-style ownership)
                for a in args.iter() {
                    if let Some(at) = a.as_type() {
                        children.push(("<arg>".into(), at));
                    }
                }
            }
            TyKind::Ref(_, inner, m) => {
                o = o.puts("k", "ref").putb("mut", m.is_mut());
                children.push(("*".into(), *inner));
            }
            TyKind::RawPtr(inner, m) => {
                o = o.puts("k", "rawptr").putb("mut", m.is_mut());
                children.push(("*".into(), *inner));
            }
            TyKind::Slice(inner) => {
                o = o.puts("k", "slice");
                children.push(("[]".into(), *inner));
            }
            TyKind::Array(inner, _) => {
                o = o.puts("k", "array");
                children.push(("[]".into(), *inner));
            }
            TyKind::Tuple(ts) => {
                o = o.puts("k", "tuple");
                for (i, x) in ts.iter().enumerate() {
                    children.push((format!("{}", i), x));
                }
            }
            TyKind::Param(_) => {
                o = o.puts("k", "param");
            }
            TyKind::Dynamic(..) => {
                o = o.puts("k", "dyn");
            }
            TyKind::FnPtr(..) => {
                o = o.puts("k", "fnptr");
            }
            TyKind::Alias(..) => {
                o = o.puts("k", "alias");
            }
            TyKind::Bool | TyKind::Char | TyKind::Int(_) | TyKind::Uint(_) | TyKind::Float(_)
            | TyKind::Str | TyKind::Never => {
                o = o.puts("k", "prim");
            }
            _ => {
                o = o.puts("k", "other");
            }
        }
        let ch: Vec<J> = children
            .iter()
            .map(|(n, ct)| J::Arr(vec![J::s(n.clone()), J::s(cx.ty(*ct))]))
            .collect();
        o = o.put("children", J::Arr(ch));
        nodes.insert(key, o.done());
        for (_, ct) in children {
            q.push_back(ct);
        }
    }
    J::Obj(nodes.into_iter().collect())
}

// ---------------------------------------------------------------------------------------------
// Post-expansion AST attribute scan (derive helper attributes such as #[serde(..)]).

struct AttrScan {
    out: Vec<J>,
    stack: Vec<String>,
}

fn attr_entries(attrs: &[ast::Attribute]) -> Vec<J> {
    let mut v = Vec::new();
    for a in attrs {
        if let ast::AttrKind::Normal(n) = &a.kind {
            let path: Vec<String> =
                n.item.path.segments.iter().map(|s| s.ident.name.to_string()).collect();
            let pstr = path.join("::");
            if pstr == "doc" {
                continue;
            }
            let mut keys = Vec::new();
            if let Some(list) = a.meta_item_list() {
                for mi in list.iter() {
                    if let Some(id) = mi.ident() {
                        keys.push(J::s(id.name.to_string()));
                    } else {
                        keys.push(J::s("?"));
                    }
                }
            }
            v.push(J::obj().puts("path", pstr).put("keys", J::Arr(keys)).done());
        }
    }
    v
}

impl<'a> Visitor<'a> for AttrScan {
    fn visit_item(&mut self, i: &'a ast::Item) {
        let name = match &i.kind {
            ast::ItemKind::Struct(id, ..)
            | ast::ItemKind::Enum(id, ..)
            | ast::ItemKind::Union(id, ..)
            | ast::ItemKind::Mod(_, id, ..) => Some(id.name.to_string()),
            _ => None,
        };
        if let Some(n) = &name {
            self.stack.push(n.clone());
            if !matches!(i.kind, ast::ItemKind::Mod(..)) {
                let e = attr_entries(&i.attrs);
                self.out.push(
                    J::obj()
                        .puts("item", self.stack.join("::"))
                        .puts("what", "item")
                        .put("attrs", J::Arr(e))
                        .done(),
                );
            }
        }
        visit::walk_item(self, i);
        if name.is_some() {
            self.stack.pop();
        }
    }
    fn visit_field_def(&mut self, f: &'a ast::FieldDef) {
        let fname = f.ident.map(|i| i.name.to_string()).unwrap_or_else(|| "?".into());
        let e = attr_entries(&f.attrs);
        self.out.push(
            J::obj()
                .puts("item", self.stack.join("::"))
                .puts("what", "field")
                .puts("field", fname)
                .put("attrs", J::Arr(e))
                .done(),
        );
        visit::walk_field_def(self, f);
    }
    fn visit_variant(&mut self, v: &'a ast::Variant) {
        let e = attr_entries(&v.attrs);
        self.out.push(
            J::obj()
                .puts("item", self.stack.join("::"))
                .puts("what", "variant")
                .puts("variant", v.ident.name.to_string())
                .put("attrs", J::Arr(e))
                .done(),
        );
        visit::walk_variant(self, v);
    }
}

pub fn collect_ast_attrs<'tcx>(tcx: TyCtxt<'tcx>) -> J {
    let steal = tcx.resolver_for_lowering();
    let guard = steal.borrow();
    let krate: &ast::Crate = &guard.1;
    let mut sc = AttrScan { out: Vec::new(), stack: Vec::new() };
    visit::walk_crate(&mut sc, krate);
    J::Arr(sc.out)
}
