//! mtsa-driver: rustc_private driver that exports facts about one crate (items, MIR, THIR)
//! as a single JSON document.  Injected with RUSTC_WORKSPACE_WRAPPER; argv[1] is the real
//! rustc path and is dropped.  Runs the export only for the crate named in MTSA_CRATE
//! (default "momtrop"); every other invocation behaves like plain rustc.
#![feature(rustc_private)]
#![allow(clippy::all)]

extern crate rustc_abi;
extern crate rustc_ast;
extern crate rustc_data_structures;
extern crate rustc_driver;
extern crate rustc_hir;
extern crate rustc_index;
extern crate rustc_interface;
extern crate rustc_middle;
extern crate rustc_session;
extern crate rustc_span;
extern crate rustc_type_ir;

mod items;
mod json;
mod mirx;
mod thirx;

use json::J;
use rustc_driver::{Callbacks, Compilation};
use rustc_hir::def_id::DefId;
use rustc_middle::ty::{self, GenericArgsRef, Ty, TyCtxt, TypeVisitableExt};
use rustc_span::Span;
use std::cell::RefCell;
use std::collections::BTreeMap;

pub struct Cx<'tcx> {
    pub tcx: TyCtxt<'tcx>,
    pub types: RefCell<BTreeMap<String, J>>,
}

impl<'tcx> Cx<'tcx> {
    pub fn path(&self, did: DefId) -> String {
        ty::print::with_no_visible_paths!(ty::print::with_no_trimmed_paths!(self.tcx.def_path_str(did)))
    }
    pub fn path_args(&self, did: DefId, args: GenericArgsRef<'tcx>) -> String {
        ty::print::with_no_visible_paths!(ty::print::with_no_trimmed_paths!(self.tcx.def_path_str_with_args(did, args)))
    }
    pub fn krate(&self, did: DefId) -> String {
        self.tcx.crate_name(did.krate).to_string()
    }
    /// Type as string; its structured tree is recorded once in the type table.
    pub fn ty(&self, t: Ty<'tcx>) -> String {
        let s = ty::print::with_no_visible_paths!(ty::print::with_no_trimmed_paths!(t.to_string()));
        if !self.types.borrow().contains_key(&s) {
            self.types.borrow_mut().insert(s.clone(), J::Null);
            let tree = self.ty_tree(t);
            self.types.borrow_mut().insert(s.clone(), tree);
        }
        s
    }
    fn ty_tree(&self, t: Ty<'tcx>) -> J {
        use rustc_type_ir::TyKind::*;
        match t.kind() {
            Bool | Char | Int(_) | Uint(_) | Float(_) | Str | Never => {
                J::obj().puts("k", "prim").puts("name", t.to_string()).done()
            }
            Adt(def, args) => J::obj()
                .puts("k", "adt")
                .puts("path", self.path(def.did()))
                .puts("crate", self.krate(def.did()))
                .put("args", self.gargs(args))
                .done(),
            Ref(_, inner, m) => J::obj()
                .puts("k", "ref")
                .putb("mut", m.is_mut())
                .puts("t", self.ty(*inner))
                .done(),
            RawPtr(inner, m) => J::obj()
                .puts("k", "rawptr")
                .putb("mut", m.is_mut())
                .puts("t", self.ty(*inner))
                .done(),
            Slice(inner) => J::obj().puts("k", "slice").puts("t", self.ty(*inner)).done(),
            Array(inner, len) => J::obj()
                .puts("k", "array")
                .puts("t", self.ty(*inner))
                .puts("len", format!("{}", len))
                .done(),
            Tuple(ts) => J::obj()
                .puts("k", "tuple")
                .put("ts", J::Arr(ts.iter().map(|x| J::s(self.ty(x))).collect()))
                .done(),
            Param(p) => J::obj().puts("k", "param").puts("name", p.name.to_string()).done(),
            FnDef(did, args) => J::obj()
                .puts("k", "fndef")
                .puts("path", self.path(*did))
                .put("args", self.gargs(args))
                .done(),
            Closure(did, _) => J::obj().puts("k", "closure").puts("path", self.path(*did)).done(),
            FnPtr(..) => J::obj().puts("k", "fnptr").done(),
            Dynamic(..) => J::obj().puts("k", "dyn").done(),
            Alias(..) => J::obj().puts("k", "alias").done(),
            Foreign(_) => J::obj().puts("k", "foreign").done(),
            _ => J::obj().puts("k", "other").done(),
        }
    }
    pub fn gargs(&self, args: GenericArgsRef<'tcx>) -> J {
        J::Arr(
            args.iter()
                .map(|a| {
                    if let Some(t) = a.as_type() {
                        J::obj().puts("k", "ty").puts("t", self.ty(t)).done()
                    } else if let Some(c) = a.as_const() {
                        J::obj().puts("k", "const").puts("c", format!("{}", c)).done()
                    } else {
                        J::obj().puts("k", "lt").done()
                    }
                })
                .collect(),
        )
    }
    pub fn span(&self, sp: Span) -> J {
        let sm = self.tcx.sess.source_map();
        let root = sp.source_callsite();
        let lo = sm.lookup_char_pos(root.lo());
        let hi = sm.lookup_char_pos(root.hi());
        let file = match &lo.file.name {
            rustc_span::FileName::Real(r) => r
                .local_path()
                .map(|p| p.to_string_lossy().to_string())
                .unwrap_or_else(|| format!("{:?}", r)),
            other => format!("{:?}", other),
        };
        let mut o = J::obj()
            .puts("file", file)
            .puti("line", lo.line as i128)
            .puti("col", lo.col.0 as i128 + 1)
            .puti("eline", hi.line as i128)
            .puti("ecol", hi.col.0 as i128 + 1);
        if sp.from_expansion() {
            let chain: Vec<J> = sp
                .macro_backtrace()
                .map(|e| J::s(format!("{}", e.kind.descr())))
                .collect();
            o = o.put("expn", J::Arr(chain));
        }
        o.done()
    }
    /// Describe a function definition + generic args as a callee (resolved where possible).
    pub fn callee(&self, owner: DefId, did: DefId, args: GenericArgsRef<'tcx>) -> J {
        let tcx = self.tcx;
        let mut o = J::obj()
            .puts("path", self.path(did))
            .puts("full", self.path_args(did, args))
            .puts("crate", self.krate(did))
            .put("gargs", self.gargs(args));
        if let Some(tr) = tcx.trait_of_assoc(did) {
            o = o.puts("trait", self.path(tr));
            o = o.puts("name", tcx.item_name(did).to_string());
            if args.len() > 0 {
                if let Some(t) = args[0].as_type() {
                    o = o.puts("self_ty", self.ty(t));
                }
            }
        } else if let Some(im) = tcx.impl_of_assoc(did) {
            o = o.puts("name", tcx.item_name(did).to_string());
            o = o.puts("impl_self", self.ty(tcx.type_of(im).instantiate_identity().skip_norm_wip()));
            if let Some(tr) = tcx.impl_opt_trait_ref(im) {
                o = o.puts("impl_trait", self.path(tr.skip_binder().def_id));
            }
        } else if let Some(name) = tcx.opt_item_name(did) {
            o = o.puts("name", name.to_string());
        }
        // resolution
        let env = ty::TypingEnv::post_analysis(tcx, owner);
        let has_infer = args.iter().any(|a| {
            a.as_type().map(|t| t.has_infer() || t.has_escaping_bound_vars()).unwrap_or(false)
        });
        if !has_infer
            && matches!(
                tcx.def_kind(did),
                rustc_hir::def::DefKind::Fn | rustc_hir::def::DefKind::AssocFn
            )
        {
            let r = std::panic::catch_unwind(std::panic::AssertUnwindSafe(|| {
                ty::Instance::try_resolve(tcx, env, did, args)
            }));
            if let Ok(Ok(Some(inst))) = r {
                let rd = inst.def_id();
                o = o.puts("resolved", self.path(rd));
                o = o.puts("resolved_crate", self.krate(rd));
                o = o.puts("resolved_kind", format!("{:?}", std::mem::discriminant(&inst.def)));
                if let Some(im) = tcx.impl_of_assoc(rd) {
                    o = o.puts(
                        "resolved_impl_self",
                        self.ty(tcx.type_of(im).instantiate_identity().skip_norm_wip()),
                    );
                    o = o.putb("resolved_impl_derived", tcx.is_automatically_derived(im));
                }
            }
        }
        o.done()
    }
}

struct Export;

impl Callbacks for Export {
    fn after_expansion<'tcx>(
        &mut self,
        _c: &rustc_interface::interface::Compiler,
        tcx: TyCtxt<'tcx>,
    ) -> Compilation {
        // Inert helper attributes (#[serde(..)]) survive expansion in the AST but are not
        // retained in HIR attrs on this toolchain; collect them here.
        let out = std::env::var("MTSA_OUT").unwrap_or_default();
        if out.is_empty() {
            return Compilation::Continue;
        }
        let attrs = items::collect_ast_attrs(tcx);
        let mut s = String::new();
        attrs.write(&mut s);
        let _ = std::fs::write(format!("{}.astattrs", out), s);
        Compilation::Continue
    }

    fn after_analysis<'tcx>(
        &mut self,
        _c: &rustc_interface::interface::Compiler,
        tcx: TyCtxt<'tcx>,
    ) -> Compilation {
        let out = std::env::var("MTSA_OUT").unwrap_or_default();
        if out.is_empty() {
            return Compilation::Continue;
        }
        let cx = Cx { tcx, types: RefCell::new(BTreeMap::new()) };
        let nonce = std::env::var("MTSA_NONCE").unwrap_or_default();
        let items = items::export_items(&cx);
        let mir = mirx::export_mir(&cx);
        let promoted = mirx::export_promoted(&cx);
        let thir = thirx::export_thir(&cx);
        let astattrs = std::fs::read_to_string(format!("{}.astattrs", out)).unwrap_or_default();
        let _ = std::fs::remove_file(format!("{}.astattrs", out));
        let types = J::Obj(cx.types.borrow().iter().map(|(k, v)| (k.clone(), v.clone())).collect());
        let mut s = String::with_capacity(1 << 24);
        s.push_str("{\"nonce\":");
        J::s(nonce).write(&mut s);
        s.push_str(",\"crate\":");
        J::s(tcx.crate_name(rustc_hir::def_id::LOCAL_CRATE).to_string()).write(&mut s);
        s.push_str(",\"rustc\":");
        J::s(rustc_interface::util::rustc_version_str().unwrap_or("?")).write(&mut s);
        s.push_str(",\"features\":");
        J::s(std::env::var("MTSA_FEATURES").unwrap_or_default()).write(&mut s);
        s.push_str(",\"astattrs\":");
        if astattrs.is_empty() {
            s.push_str("null");
        } else {
            s.push_str(&astattrs);
        }
        s.push_str(",\"items\":");
        items.write(&mut s);
        s.push_str(",\"mir\":");
        mir.write(&mut s);
        s.push_str(",\"promoted\":");
        promoted.write(&mut s);
        s.push_str(",\"thir\":");
        thir.write(&mut s);
        s.push_str(",\"types\":");
        types.write(&mut s);
        s.push('}');
        // one write per process, atomic rename
        let tmp = format!("{}.tmp{}", out, std::process::id());
        std::fs::write(&tmp, s).expect("mtsa: write facts");
        std::fs::rename(&tmp, &out).expect("mtsa: rename facts");
        Compilation::Continue
    }
}

struct Plain;
impl Callbacks for Plain {}

fn main() -> std::process::ExitCode {
    let mut args: Vec<String> = std::env::args().collect();
    // RUSTC_WORKSPACE_WRAPPER: argv[1] is the path of the real rustc
    if args.len() > 1 && (args[1].ends_with("rustc") || args[1].contains("/rustc")) {
        args.remove(1);
    }
    let want = std::env::var("MTSA_CRATE").unwrap_or_else(|_| "momtrop".to_string());
    let mut crate_name = String::new();
    let mut is_test = false;
    let mut i = 0;
    while i < args.len() {
        if args[i] == "--crate-name" && i + 1 < args.len() {
            crate_name = args[i + 1].clone();
        }
        if args[i] == "--test" {
            is_test = true;
        }
        i += 1;
    }
    let is_target = crate_name == want && !is_test;
    rustc_driver::catch_with_exit_code(|| {
        if is_target {
            rustc_driver::run_compiler(&args, &mut Export)
        } else {
            rustc_driver::run_compiler(&args, &mut Plain)
        }
    })
}
